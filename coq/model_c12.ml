
(** val negb : bool -> bool **)

let negb = function
| true -> false
| false -> true

type nat =
| O
| S of nat

(** val fst : ('a1 * 'a2) -> 'a1 **)

let fst = function
| (x, _) -> x

(** val snd : ('a1 * 'a2) -> 'a2 **)

let snd = function
| (_, y) -> y

(** val length : 'a1 list -> nat **)

let rec length = function
| [] -> O
| _ :: l' -> S (length l')

(** val app : 'a1 list -> 'a1 list -> 'a1 list **)

let rec app l m =
  match l with
  | [] -> m
  | a :: l1 -> a :: (app l1 m)

type comparison =
| Eq
| Lt
| Gt

(** val compOpp : comparison -> comparison **)

let compOpp = function
| Eq -> Eq
| Lt -> Gt
| Gt -> Lt

module Coq__1 = struct
 (** val add : nat -> nat -> nat **)
 let rec add n0 m =
   match n0 with
   | O -> m
   | S p -> S (add p m)
end
include Coq__1

type positive =
| XI of positive
| XO of positive
| XH

type n =
| N0
| Npos of positive

type z =
| Z0
| Zpos of positive
| Zneg of positive

(** val eqb : bool -> bool -> bool **)

let eqb b1 b2 =
  if b1 then b2 else if b2 then false else true

module Nat =
 struct
  (** val eqb : nat -> nat -> bool **)

  let rec eqb n0 m =
    match n0 with
    | O -> (match m with
            | O -> true
            | S _ -> false)
    | S n' -> (match m with
               | O -> false
               | S m' -> eqb n' m')
 end

module Pos =
 struct
  type mask =
  | IsNul
  | IsPos of positive
  | IsNeg
 end

module Coq_Pos =
 struct
  (** val succ : positive -> positive **)

  let rec succ = function
  | XI p -> XO (succ p)
  | XO p -> XI p
  | XH -> XO XH

  (** val add : positive -> positive -> positive **)

  let rec add x y =
    match x with
    | XI p ->
      (match y with
       | XI q -> XO (add_carry p q)
       | XO q -> XI (add p q)
       | XH -> XO (succ p))
    | XO p ->
      (match y with
       | XI q -> XI (add p q)
       | XO q -> XO (add p q)
       | XH -> XI p)
    | XH -> (match y with
             | XI q -> XO (succ q)
             | XO q -> XI q
             | XH -> XO XH)

  (** val add_carry : positive -> positive -> positive **)

  and add_carry x y =
    match x with
    | XI p ->
      (match y with
       | XI q -> XI (add_carry p q)
       | XO q -> XO (add_carry p q)
       | XH -> XI (succ p))
    | XO p ->
      (match y with
       | XI q -> XO (add_carry p q)
       | XO q -> XI (add p q)
       | XH -> XO (succ p))
    | XH ->
      (match y with
       | XI q -> XI (succ q)
       | XO q -> XO (succ q)
       | XH -> XI XH)

  (** val pred_double : positive -> positive **)

  let rec pred_double = function
  | XI p -> XI (XO p)
  | XO p -> XI (pred_double p)
  | XH -> XH

  (** val pred_N : positive -> n **)

  let pred_N = function
  | XI p -> Npos (XO p)
  | XO p -> Npos (pred_double p)
  | XH -> N0

  type mask = Pos.mask =
  | IsNul
  | IsPos of positive
  | IsNeg

  (** val succ_double_mask : mask -> mask **)

  let succ_double_mask = function
  | IsNul -> IsPos XH
  | IsPos p -> IsPos (XI p)
  | IsNeg -> IsNeg

  (** val double_mask : mask -> mask **)

  let double_mask = function
  | IsPos p -> IsPos (XO p)
  | x0 -> x0

  (** val double_pred_mask : positive -> mask **)

  let double_pred_mask = function
  | XI p -> IsPos (XO (XO p))
  | XO p -> IsPos (XO (pred_double p))
  | XH -> IsNul

  (** val sub_mask : positive -> positive -> mask **)

  let rec sub_mask x y =
    match x with
    | XI p ->
      (match y with
       | XI q -> double_mask (sub_mask p q)
       | XO q -> succ_double_mask (sub_mask p q)
       | XH -> IsPos (XO p))
    | XO p ->
      (match y with
       | XI q -> succ_double_mask (sub_mask_carry p q)
       | XO q -> double_mask (sub_mask p q)
       | XH -> IsPos (pred_double p))
    | XH -> (match y with
             | XH -> IsNul
             | _ -> IsNeg)

  (** val sub_mask_carry : positive -> positive -> mask **)

  and sub_mask_carry x y =
    match x with
    | XI p ->
      (match y with
       | XI q -> succ_double_mask (sub_mask_carry p q)
       | XO q -> double_mask (sub_mask p q)
       | XH -> IsPos (pred_double p))
    | XO p ->
      (match y with
       | XI q -> double_mask (sub_mask_carry p q)
       | XO q -> succ_double_mask (sub_mask_carry p q)
       | XH -> double_pred_mask p)
    | XH -> IsNeg

  (** val mul : positive -> positive -> positive **)

  let rec mul x y =
    match x with
    | XI p -> add y (XO (mul p y))
    | XO p -> XO (mul p y)
    | XH -> y

  (** val iter : ('a1 -> 'a1) -> 'a1 -> positive -> 'a1 **)

  let rec iter f x = function
  | XI n' -> f (iter f (iter f x n') n')
  | XO n' -> iter f (iter f x n') n'
  | XH -> f x

  (** val div2 : positive -> positive **)

  let div2 = function
  | XI p0 -> p0
  | XO p0 -> p0
  | XH -> XH

  (** val div2_up : positive -> positive **)

  let div2_up = function
  | XI p0 -> succ p0
  | XO p0 -> p0
  | XH -> XH

  (** val size : positive -> positive **)

  let rec size = function
  | XI p0 -> succ (size p0)
  | XO p0 -> succ (size p0)
  | XH -> XH

  (** val compare_cont : comparison -> positive -> positive -> comparison **)

  let rec compare_cont r x y =
    match x with
    | XI p ->
      (match y with
       | XI q -> compare_cont r p q
       | XO q -> compare_cont Gt p q
       | XH -> Gt)
    | XO p ->
      (match y with
       | XI q -> compare_cont Lt p q
       | XO q -> compare_cont r p q
       | XH -> Gt)
    | XH -> (match y with
             | XH -> r
             | _ -> Lt)

  (** val compare : positive -> positive -> comparison **)

  let compare =
    compare_cont Eq

  (** val eqb : positive -> positive -> bool **)

  let rec eqb p q =
    match p with
    | XI p0 -> (match q with
                | XI q0 -> eqb p0 q0
                | _ -> false)
    | XO p0 -> (match q with
                | XO q0 -> eqb p0 q0
                | _ -> false)
    | XH -> (match q with
             | XH -> true
             | _ -> false)

  (** val coq_Nsucc_double : n -> n **)

  let coq_Nsucc_double = function
  | N0 -> Npos XH
  | Npos p -> Npos (XI p)

  (** val coq_Ndouble : n -> n **)

  let coq_Ndouble = function
  | N0 -> N0
  | Npos p -> Npos (XO p)

  (** val coq_lor : positive -> positive -> positive **)

  let rec coq_lor p q =
    match p with
    | XI p0 ->
      (match q with
       | XI q0 -> XI (coq_lor p0 q0)
       | XO q0 -> XI (coq_lor p0 q0)
       | XH -> p)
    | XO p0 ->
      (match q with
       | XI q0 -> XI (coq_lor p0 q0)
       | XO q0 -> XO (coq_lor p0 q0)
       | XH -> XI p0)
    | XH -> (match q with
             | XO q0 -> XI q0
             | _ -> q)

  (** val coq_land : positive -> positive -> n **)

  let rec coq_land p q =
    match p with
    | XI p0 ->
      (match q with
       | XI q0 -> coq_Nsucc_double (coq_land p0 q0)
       | XO q0 -> coq_Ndouble (coq_land p0 q0)
       | XH -> Npos XH)
    | XO p0 ->
      (match q with
       | XI q0 -> coq_Ndouble (coq_land p0 q0)
       | XO q0 -> coq_Ndouble (coq_land p0 q0)
       | XH -> N0)
    | XH -> (match q with
             | XO _ -> N0
             | _ -> Npos XH)

  (** val ldiff : positive -> positive -> n **)

  let rec ldiff p q =
    match p with
    | XI p0 ->
      (match q with
       | XI q0 -> coq_Ndouble (ldiff p0 q0)
       | XO q0 -> coq_Nsucc_double (ldiff p0 q0)
       | XH -> Npos (XO p0))
    | XO p0 ->
      (match q with
       | XI q0 -> coq_Ndouble (ldiff p0 q0)
       | XO q0 -> coq_Ndouble (ldiff p0 q0)
       | XH -> Npos p)
    | XH -> (match q with
             | XO _ -> Npos XH
             | _ -> N0)

  (** val coq_lxor : positive -> positive -> n **)

  let rec coq_lxor p q =
    match p with
    | XI p0 ->
      (match q with
       | XI q0 -> coq_Ndouble (coq_lxor p0 q0)
       | XO q0 -> coq_Nsucc_double (coq_lxor p0 q0)
       | XH -> Npos (XO p0))
    | XO p0 ->
      (match q with
       | XI q0 -> coq_Nsucc_double (coq_lxor p0 q0)
       | XO q0 -> coq_Ndouble (coq_lxor p0 q0)
       | XH -> Npos (XI p0))
    | XH ->
      (match q with
       | XI q0 -> Npos (XO q0)
       | XO q0 -> Npos (XI q0)
       | XH -> N0)

  (** val iter_op : ('a1 -> 'a1 -> 'a1) -> positive -> 'a1 -> 'a1 **)

  let rec iter_op op p a =
    match p with
    | XI p0 -> op a (iter_op op p0 (op a a))
    | XO p0 -> iter_op op p0 (op a a)
    | XH -> a

  (** val to_nat : positive -> nat **)

  let to_nat x =
    iter_op Coq__1.add x (S O)

  (** val of_succ_nat : nat -> positive **)

  let rec of_succ_nat = function
  | O -> XH
  | S x -> succ (of_succ_nat x)
 end

module N =
 struct
  (** val succ_double : n -> n **)

  let succ_double = function
  | N0 -> Npos XH
  | Npos p -> Npos (XI p)

  (** val double : n -> n **)

  let double = function
  | N0 -> N0
  | Npos p -> Npos (XO p)

  (** val succ_pos : n -> positive **)

  let succ_pos = function
  | N0 -> XH
  | Npos p -> Coq_Pos.succ p

  (** val sub : n -> n -> n **)

  let sub n0 m =
    match n0 with
    | N0 -> N0
    | Npos n' ->
      (match m with
       | N0 -> n0
       | Npos m' ->
         (match Coq_Pos.sub_mask n' m' with
          | Coq_Pos.IsPos p -> Npos p
          | _ -> N0))

  (** val compare : n -> n -> comparison **)

  let compare n0 m =
    match n0 with
    | N0 -> (match m with
             | N0 -> Eq
             | Npos _ -> Lt)
    | Npos n' -> (match m with
                  | N0 -> Gt
                  | Npos m' -> Coq_Pos.compare n' m')

  (** val leb : n -> n -> bool **)

  let leb x y =
    match compare x y with
    | Gt -> false
    | _ -> true

  (** val pos_div_eucl : positive -> n -> n * n **)

  let rec pos_div_eucl a b =
    match a with
    | XI a' ->
      let (q, r) = pos_div_eucl a' b in
      let r' = succ_double r in
      if leb b r' then ((succ_double q), (sub r' b)) else ((double q), r')
    | XO a' ->
      let (q, r) = pos_div_eucl a' b in
      let r' = double r in
      if leb b r' then ((succ_double q), (sub r' b)) else ((double q), r')
    | XH ->
      (match b with
       | N0 -> (N0, (Npos XH))
       | Npos p -> (match p with
                    | XH -> ((Npos XH), N0)
                    | _ -> (N0, (Npos XH))))

  (** val coq_lor : n -> n -> n **)

  let coq_lor n0 m =
    match n0 with
    | N0 -> m
    | Npos p -> (match m with
                 | N0 -> n0
                 | Npos q -> Npos (Coq_Pos.coq_lor p q))

  (** val coq_land : n -> n -> n **)

  let coq_land n0 m =
    match n0 with
    | N0 -> N0
    | Npos p -> (match m with
                 | N0 -> N0
                 | Npos q -> Coq_Pos.coq_land p q)

  (** val ldiff : n -> n -> n **)

  let ldiff n0 m =
    match n0 with
    | N0 -> N0
    | Npos p -> (match m with
                 | N0 -> n0
                 | Npos q -> Coq_Pos.ldiff p q)

  (** val coq_lxor : n -> n -> n **)

  let coq_lxor n0 m =
    match n0 with
    | N0 -> m
    | Npos p -> (match m with
                 | N0 -> n0
                 | Npos q -> Coq_Pos.coq_lxor p q)
 end

module Z =
 struct
  (** val double : z -> z **)

  let double = function
  | Z0 -> Z0
  | Zpos p -> Zpos (XO p)
  | Zneg p -> Zneg (XO p)

  (** val succ_double : z -> z **)

  let succ_double = function
  | Z0 -> Zpos XH
  | Zpos p -> Zpos (XI p)
  | Zneg p -> Zneg (Coq_Pos.pred_double p)

  (** val pred_double : z -> z **)

  let pred_double = function
  | Z0 -> Zneg XH
  | Zpos p -> Zpos (Coq_Pos.pred_double p)
  | Zneg p -> Zneg (XI p)

  (** val pos_sub : positive -> positive -> z **)

  let rec pos_sub x y =
    match x with
    | XI p ->
      (match y with
       | XI q -> double (pos_sub p q)
       | XO q -> succ_double (pos_sub p q)
       | XH -> Zpos (XO p))
    | XO p ->
      (match y with
       | XI q -> pred_double (pos_sub p q)
       | XO q -> double (pos_sub p q)
       | XH -> Zpos (Coq_Pos.pred_double p))
    | XH ->
      (match y with
       | XI q -> Zneg (XO q)
       | XO q -> Zneg (Coq_Pos.pred_double q)
       | XH -> Z0)

  (** val add : z -> z -> z **)

  let add x y =
    match x with
    | Z0 -> y
    | Zpos x' ->
      (match y with
       | Z0 -> x
       | Zpos y' -> Zpos (Coq_Pos.add x' y')
       | Zneg y' -> pos_sub x' y')
    | Zneg x' ->
      (match y with
       | Z0 -> x
       | Zpos y' -> pos_sub y' x'
       | Zneg y' -> Zneg (Coq_Pos.add x' y'))

  (** val opp : z -> z **)

  let opp = function
  | Z0 -> Z0
  | Zpos x0 -> Zneg x0
  | Zneg x0 -> Zpos x0

  (** val sub : z -> z -> z **)

  let sub m n0 =
    add m (opp n0)

  (** val mul : z -> z -> z **)

  let mul x y =
    match x with
    | Z0 -> Z0
    | Zpos x' ->
      (match y with
       | Z0 -> Z0
       | Zpos y' -> Zpos (Coq_Pos.mul x' y')
       | Zneg y' -> Zneg (Coq_Pos.mul x' y'))
    | Zneg x' ->
      (match y with
       | Z0 -> Z0
       | Zpos y' -> Zneg (Coq_Pos.mul x' y')
       | Zneg y' -> Zpos (Coq_Pos.mul x' y'))

  (** val pow_pos : z -> positive -> z **)

  let pow_pos z0 =
    Coq_Pos.iter (mul z0) (Zpos XH)

  (** val pow : z -> z -> z **)

  let pow x = function
  | Z0 -> Zpos XH
  | Zpos p -> pow_pos x p
  | Zneg _ -> Z0

  (** val compare : z -> z -> comparison **)

  let compare x y =
    match x with
    | Z0 -> (match y with
             | Z0 -> Eq
             | Zpos _ -> Lt
             | Zneg _ -> Gt)
    | Zpos x' -> (match y with
                  | Zpos y' -> Coq_Pos.compare x' y'
                  | _ -> Gt)
    | Zneg x' ->
      (match y with
       | Zneg y' -> compOpp (Coq_Pos.compare x' y')
       | _ -> Lt)

  (** val leb : z -> z -> bool **)

  let leb x y =
    match compare x y with
    | Gt -> false
    | _ -> true

  (** val ltb : z -> z -> bool **)

  let ltb x y =
    match compare x y with
    | Lt -> true
    | _ -> false

  (** val gtb : z -> z -> bool **)

  let gtb x y =
    match compare x y with
    | Gt -> true
    | _ -> false

  (** val eqb : z -> z -> bool **)

  let eqb x y =
    match x with
    | Z0 -> (match y with
             | Z0 -> true
             | _ -> false)
    | Zpos p -> (match y with
                 | Zpos q -> Coq_Pos.eqb p q
                 | _ -> false)
    | Zneg p -> (match y with
                 | Zneg q -> Coq_Pos.eqb p q
                 | _ -> false)

  (** val max : z -> z -> z **)

  let max n0 m =
    match compare n0 m with
    | Lt -> m
    | _ -> n0

  (** val min : z -> z -> z **)

  let min n0 m =
    match compare n0 m with
    | Gt -> m
    | _ -> n0

  (** val to_nat : z -> nat **)

  let to_nat = function
  | Zpos p -> Coq_Pos.to_nat p
  | _ -> O

  (** val of_nat : nat -> z **)

  let of_nat = function
  | O -> Z0
  | S n1 -> Zpos (Coq_Pos.of_succ_nat n1)

  (** val of_N : n -> z **)

  let of_N = function
  | N0 -> Z0
  | Npos p -> Zpos p

  (** val pos_div_eucl : positive -> z -> z * z **)

  let rec pos_div_eucl a b =
    match a with
    | XI a' ->
      let (q, r) = pos_div_eucl a' b in
      let r' = add (mul (Zpos (XO XH)) r) (Zpos XH) in
      if ltb r' b
      then ((mul (Zpos (XO XH)) q), r')
      else ((add (mul (Zpos (XO XH)) q) (Zpos XH)), (sub r' b))
    | XO a' ->
      let (q, r) = pos_div_eucl a' b in
      let r' = mul (Zpos (XO XH)) r in
      if ltb r' b
      then ((mul (Zpos (XO XH)) q), r')
      else ((add (mul (Zpos (XO XH)) q) (Zpos XH)), (sub r' b))
    | XH -> if leb (Zpos (XO XH)) b then (Z0, (Zpos XH)) else ((Zpos XH), Z0)

  (** val div_eucl : z -> z -> z * z **)

  let div_eucl a b =
    match a with
    | Z0 -> (Z0, Z0)
    | Zpos a' ->
      (match b with
       | Z0 -> (Z0, a)
       | Zpos _ -> pos_div_eucl a' b
       | Zneg b' ->
         let (q, r) = pos_div_eucl a' (Zpos b') in
         (match r with
          | Z0 -> ((opp q), Z0)
          | _ -> ((opp (add q (Zpos XH))), (add b r))))
    | Zneg a' ->
      (match b with
       | Z0 -> (Z0, a)
       | Zpos _ ->
         let (q, r) = pos_div_eucl a' b in
         (match r with
          | Z0 -> ((opp q), Z0)
          | _ -> ((opp (add q (Zpos XH))), (sub b r)))
       | Zneg b' -> let (q, r) = pos_div_eucl a' (Zpos b') in (q, (opp r)))

  (** val div : z -> z -> z **)

  let div a b =
    let (q, _) = div_eucl a b in q

  (** val modulo : z -> z -> z **)

  let modulo a b =
    let (_, r) = div_eucl a b in r

  (** val quotrem : z -> z -> z * z **)

  let quotrem a b =
    match a with
    | Z0 -> (Z0, Z0)
    | Zpos a0 ->
      (match b with
       | Z0 -> (Z0, a)
       | Zpos b0 ->
         let (q, r) = N.pos_div_eucl a0 (Npos b0) in ((of_N q), (of_N r))
       | Zneg b0 ->
         let (q, r) = N.pos_div_eucl a0 (Npos b0) in
         ((opp (of_N q)), (of_N r)))
    | Zneg a0 ->
      (match b with
       | Z0 -> (Z0, a)
       | Zpos b0 ->
         let (q, r) = N.pos_div_eucl a0 (Npos b0) in
         ((opp (of_N q)), (opp (of_N r)))
       | Zneg b0 ->
         let (q, r) = N.pos_div_eucl a0 (Npos b0) in
         ((of_N q), (opp (of_N r))))

  (** val quot : z -> z -> z **)

  let quot a b =
    fst (quotrem a b)

  (** val even : z -> bool **)

  let even = function
  | Z0 -> true
  | Zpos p -> (match p with
               | XO _ -> true
               | _ -> false)
  | Zneg p -> (match p with
               | XO _ -> true
               | _ -> false)

  (** val div2 : z -> z **)

  let div2 = function
  | Z0 -> Z0
  | Zpos p -> (match p with
               | XH -> Z0
               | _ -> Zpos (Coq_Pos.div2 p))
  | Zneg p -> Zneg (Coq_Pos.div2_up p)

  (** val log2 : z -> z **)

  let log2 = function
  | Zpos p0 ->
    (match p0 with
     | XI p -> Zpos (Coq_Pos.size p)
     | XO p -> Zpos (Coq_Pos.size p)
     | XH -> Z0)
  | _ -> Z0

  (** val shiftl : z -> z -> z **)

  let shiftl a = function
  | Z0 -> a
  | Zpos p -> Coq_Pos.iter (mul (Zpos (XO XH))) a p
  | Zneg p -> Coq_Pos.iter div2 a p

  (** val shiftr : z -> z -> z **)

  let shiftr a n0 =
    shiftl a (opp n0)

  (** val coq_lor : z -> z -> z **)

  let coq_lor a b =
    match a with
    | Z0 -> b
    | Zpos a0 ->
      (match b with
       | Z0 -> a
       | Zpos b0 -> Zpos (Coq_Pos.coq_lor a0 b0)
       | Zneg b0 -> Zneg (N.succ_pos (N.ldiff (Coq_Pos.pred_N b0) (Npos a0))))
    | Zneg a0 ->
      (match b with
       | Z0 -> a
       | Zpos b0 -> Zneg (N.succ_pos (N.ldiff (Coq_Pos.pred_N a0) (Npos b0)))
       | Zneg b0 ->
         Zneg
           (N.succ_pos (N.coq_land (Coq_Pos.pred_N a0) (Coq_Pos.pred_N b0))))

  (** val coq_land : z -> z -> z **)

  let coq_land a b =
    match a with
    | Z0 -> Z0
    | Zpos a0 ->
      (match b with
       | Z0 -> Z0
       | Zpos b0 -> of_N (Coq_Pos.coq_land a0 b0)
       | Zneg b0 -> of_N (N.ldiff (Npos a0) (Coq_Pos.pred_N b0)))
    | Zneg a0 ->
      (match b with
       | Z0 -> Z0
       | Zpos b0 -> of_N (N.ldiff (Npos b0) (Coq_Pos.pred_N a0))
       | Zneg b0 ->
         Zneg (N.succ_pos (N.coq_lor (Coq_Pos.pred_N a0) (Coq_Pos.pred_N b0))))

  (** val coq_lxor : z -> z -> z **)

  let coq_lxor a b =
    match a with
    | Z0 -> b
    | Zpos a0 ->
      (match b with
       | Z0 -> a
       | Zpos b0 -> of_N (Coq_Pos.coq_lxor a0 b0)
       | Zneg b0 ->
         Zneg (N.succ_pos (N.coq_lxor (Npos a0) (Coq_Pos.pred_N b0))))
    | Zneg a0 ->
      (match b with
       | Z0 -> a
       | Zpos b0 ->
         Zneg (N.succ_pos (N.coq_lxor (Coq_Pos.pred_N a0) (Npos b0)))
       | Zneg b0 -> of_N (N.coq_lxor (Coq_Pos.pred_N a0) (Coq_Pos.pred_N b0)))
 end

(** val nth : nat -> 'a1 list -> 'a1 -> 'a1 **)

let rec nth n0 l default =
  match n0 with
  | O -> (match l with
          | [] -> default
          | x :: _ -> x)
  | S m -> (match l with
            | [] -> default
            | _ :: t -> nth m t default)

(** val map : ('a1 -> 'a2) -> 'a1 list -> 'a2 list **)

let rec map f = function
| [] -> []
| a :: t -> (f a) :: (map f t)

(** val flat_map : ('a1 -> 'a2 list) -> 'a1 list -> 'a2 list **)

let rec flat_map f = function
| [] -> []
| x :: t -> app (f x) (flat_map f t)

(** val fold_left : ('a1 -> 'a2 -> 'a1) -> 'a2 list -> 'a1 -> 'a1 **)

let rec fold_left f l a0 =
  match l with
  | [] -> a0
  | b :: t -> fold_left f t (f a0 b)

(** val existsb : ('a1 -> bool) -> 'a1 list -> bool **)

let rec existsb f = function
| [] -> false
| a :: l0 -> (||) (f a) (existsb f l0)

(** val forallb : ('a1 -> bool) -> 'a1 list -> bool **)

let rec forallb f = function
| [] -> true
| a :: l0 -> (&&) (f a) (forallb f l0)

(** val firstn : nat -> 'a1 list -> 'a1 list **)

let rec firstn n0 l =
  match n0 with
  | O -> []
  | S n1 -> (match l with
             | [] -> []
             | a :: l0 -> a :: (firstn n1 l0))

(** val skipn : nat -> 'a1 list -> 'a1 list **)

let rec skipn n0 l =
  match n0 with
  | O -> l
  | S n1 -> (match l with
             | [] -> []
             | _ :: l0 -> skipn n1 l0)

(** val repeat : 'a1 -> nat -> 'a1 list **)

let rec repeat x = function
| O -> []
| S k -> x :: (repeat x k)

(** val w8 : z -> z **)

let w8 x =
  Z.modulo x (Z.pow (Zpos (XO XH)) (Zpos (XO (XO (XO XH)))))

(** val w16 : z -> z **)

let w16 x =
  Z.modulo x (Z.pow (Zpos (XO XH)) (Zpos (XO (XO (XO (XO XH))))))

(** val w32 : z -> z **)

let w32 x =
  Z.modulo x (Z.pow (Zpos (XO XH)) (Zpos (XO (XO (XO (XO (XO XH)))))))

(** val w64 : z -> z **)

let w64 x =
  Z.modulo x (Z.pow (Zpos (XO XH)) (Zpos (XO (XO (XO (XO (XO (XO XH))))))))

(** val s32 : z -> z **)

let s32 x =
  let y = w32 x in
  if Z.ltb y (Z.pow (Zpos (XO XH)) (Zpos (XI (XI (XI (XI XH))))))
  then y
  else Z.sub y (Z.pow (Zpos (XO XH)) (Zpos (XO (XO (XO (XO (XO XH)))))))

(** val s64 : z -> z **)

let s64 x =
  let y = w64 x in
  if Z.ltb y (Z.pow (Zpos (XO XH)) (Zpos (XI (XI (XI (XI (XI XH)))))))
  then y
  else Z.sub y (Z.pow (Zpos (XO XH)) (Zpos (XO (XO (XO (XO (XO (XO XH))))))))

(** val add64 : z -> z -> z **)

let add64 a b =
  w64 (Z.add a b)

(** val and64 : z -> z -> z **)

let and64 =
  Z.coq_land

(** val or64 : z -> z -> z **)

let or64 =
  Z.coq_lor

(** val xor64 : z -> z -> z **)

let xor64 =
  Z.coq_lxor

(** val not64 : z -> z **)

let not64 a =
  Z.sub
    (Z.sub (Z.pow (Zpos (XO XH)) (Zpos (XO (XO (XO (XO (XO (XO XH))))))))
      (Zpos XH)) a

(** val shl64 : z -> z -> z **)

let shl64 a n0 =
  if Z.ltb n0 (Zpos (XO (XO (XO (XO (XO (XO XH)))))))
  then w64 (Z.shiftl a n0)
  else Z0

(** val shr64 : z -> z -> z **)

let shr64 a n0 =
  if Z.ltb n0 (Zpos (XO (XO (XO (XO (XO (XO XH)))))))
  then Z.shiftr a n0
  else Z0

(** val and8 : z -> z -> z **)

let and8 =
  Z.coq_land

(** val or8 : z -> z -> z **)

let or8 =
  Z.coq_lor

(** val addi64 : z -> z -> z **)

let addi64 a b =
  s64 (Z.add a b)

(** val subi64 : z -> z -> z **)

let subi64 a b =
  s64 (Z.sub a b)

(** val divi64 : z -> z -> z **)

let divi64 a b =
  s64 (Z.quot a b)

(** val andi64 : z -> z -> z **)

let andi64 a b =
  s64 (Z.coq_land a b)

(** val xori64 : z -> z -> z **)

let xori64 a b =
  s64 (Z.coq_lxor a b)

(** val shri64 : z -> z -> z **)

let shri64 a n0 =
  if Z.ltb n0 (Zpos (XO (XO (XO (XO (XO (XO XH)))))))
  then Z.shiftr a n0
  else if Z.ltb a Z0 then Zneg XH else Z0

(** val negi64 : z -> z **)

let negi64 a =
  s64 (Z.opp a)

type bytes = z list

(** val is_byte : z -> bool **)

let is_byte b =
  (&&) (Z.leb Z0 b)
    (Z.ltb b (Zpos (XO (XO (XO (XO (XO (XO (XO (XO XH))))))))))

(** val wfb : bytes -> bool **)

let wfb bs =
  forallb is_byte bs

(** val len : 'a1 list -> z **)

let len l =
  Z.of_nat (length l)

(** val at_ : bytes -> z -> z **)

let at_ b i =
  nth (Z.to_nat i) b Z0

(** val slice_from : 'a1 list -> z -> 'a1 list **)

let slice_from b i =
  skipn (Z.to_nat i) b

(** val slice_to : 'a1 list -> z -> 'a1 list **)

let slice_to b j =
  firstn (Z.to_nat j) b

(** val slice : 'a1 list -> z -> z -> 'a1 list **)

let slice b i j =
  firstn (Z.to_nat (Z.sub j i)) (skipn (Z.to_nat i) b)

(** val le_load : nat -> bytes -> z **)

let rec le_load n0 b =
  match n0 with
  | O -> Z0
  | S n' ->
    (match b with
     | [] -> Z0
     | x :: r ->
       Z.add x
         (Z.mul (Zpos (XO (XO (XO (XO (XO (XO (XO (XO XH)))))))))
           (le_load n' r)))

(** val le64 : bytes -> z **)

let le64 b =
  le_load (S (S (S (S (S (S (S (S O)))))))) b

(** val le32 : bytes -> z **)

let le32 b =
  le_load (S (S (S (S O)))) b

(** val upd : bytes -> z -> z -> bytes **)

let upd b i v =
  app (firstn (Z.to_nat i) b)
    (match skipn (Z.to_nat i) b with
     | [] -> []
     | _ :: r -> v :: r)

(** val splice : bytes -> z -> bytes -> bytes **)

let splice b i w =
  app (firstn (Z.to_nat i) b) (app w (skipn (add (Z.to_nat i) (length w)) b))

(** val isnil : 'a1 option -> bool **)

let isnil = function
| Some _ -> false
| None -> true

(** val bytes_eqb : bytes -> bytes -> bool **)

let rec bytes_eqb a b =
  match a with
  | [] -> (match b with
           | [] -> true
           | _ :: _ -> false)
  | x :: a' ->
    (match b with
     | [] -> false
     | y :: b' -> (&&) (Z.eqb x y) (bytes_eqb a' b'))

(** val bitlen64 : z -> z **)

let bitlen64 = function
| Zpos p -> Z.add (Z.log2 (Zpos p)) (Zpos XH)
| _ -> Z0

(** val le_bytes : nat -> z -> bytes **)

let rec le_bytes n0 v =
  match n0 with
  | O -> []
  | S n' ->
    (Z.modulo v (Zpos (XO (XO (XO (XO (XO (XO (XO (XO XH)))))))))) :: 
      (le_bytes n'
        (Z.div v (Zpos (XO (XO (XO (XO (XO (XO (XO (XO XH)))))))))))

(** val put_le32 : bytes -> z -> bytes **)

let put_le32 b v =
  splice b Z0 (le_bytes (S (S (S (S O)))) v)

(** val put_le64 : bytes -> z -> bytes **)

let put_le64 b v =
  splice b Z0 (le_bytes (S (S (S (S (S (S (S (S O)))))))) v)

(** val proto_zeroSize : z **)

let proto_zeroSize =
  Zpos XH

(** val proto_noflags : z **)

let proto_noflags =
  Z0

(** val proto_inline : z **)

let proto_inline =
  Zpos XH

(** val proto_wantzero : z **)

let proto_wantzero =
  Zpos (XO XH)

(** val proto_toplevel : z **)

let proto_toplevel =
  Zpos (XO (XO (XO XH)))

(** val proto_varint : z **)

let proto_varint =
  Z0

(** val proto_fixed64 : z **)

let proto_fixed64 =
  Zpos XH

(** val proto_varlen : z **)

let proto_varlen =
  Zpos (XO XH)

(** val proto_fixed32 : z **)

let proto_fixed32 =
  Zpos (XI (XO XH))

(** val proto_embedded : z **)

let proto_embedded =
  Zpos XH

(** val proto_repeated : z **)

let proto_repeated =
  Zpos (XO XH)

(** val proto_zigzag : z **)

let proto_zigzag =
  Zpos (XO (XO XH))

type proto_error =
| Proto_errVarintOverflow
| Proto_ErrWireTypeUnknown
| Proto_ErrShortBuffer
| Proto_ErrUnexpectedEOF

(** val proto_encodeZigZag64 : z -> z **)

let proto_encodeZigZag64 v =
  xor64 (shl64 (w64 v) (Zpos XH))
    (w64 (shri64 v (Zpos (XI (XI (XI (XI (XI XH))))))))

(** val proto_decodeZigZag64 : z -> z **)

let proto_decodeZigZag64 v =
  xori64 (s64 (shr64 v (Zpos XH))) (negi64 (andi64 (s64 v) (Zpos XH)))

(** val proto_sizeOfVarint : z -> z **)

let proto_sizeOfVarint v =
  divi64 (addi64 (bitlen64 (or64 v (Zpos XH))) (Zpos (XO (XI XH)))) (Zpos (XI
    (XI XH)))

(** val proto_sizeOfVarlen : z -> z **)

let proto_sizeOfVarlen n0 =
  addi64 (proto_sizeOfVarint (w64 n0)) n0

(** val proto_sizeOfTag : z -> z -> z **)

let proto_sizeOfTag f t =
  proto_sizeOfVarint (or64 (shl64 f (Zpos (XI XH))) t)

(** val proto_encodeVarint :
    bytes -> z -> (z * proto_error option) * bytes **)

let proto_encodeVarint b v =
  let n0 = proto_sizeOfVarint v in
  if Z.ltb (len b) n0
  then ((Z0, (Some Proto_ErrShortBuffer)), b)
  else let k1_ = fun b0 -> ((n0, None), b0) in
       if Z.eqb n0 (Zpos XH)
       then let b0 = upd b Z0 (w8 v) in k1_ b0
       else if Z.eqb n0 (Zpos (XO XH))
            then let b0 =
                   upd b Z0
                     (or8 (w8 v) (Zpos (XO (XO (XO (XO (XO (XO (XO XH)))))))))
                 in
                 let b1 = upd b0 (Zpos XH) (w8 (shr64 v (Zpos (XI (XI XH)))))
                 in
                 k1_ b1
            else if Z.eqb n0 (Zpos (XI XH))
                 then let b0 =
                        upd b Z0
                          (or8 (w8 v) (Zpos (XO (XO (XO (XO (XO (XO (XO
                            XH)))))))))
                      in
                      let b1 =
                        upd b0 (Zpos XH)
                          (or8 (w8 (shr64 v (Zpos (XI (XI XH))))) (Zpos (XO
                            (XO (XO (XO (XO (XO (XO XH)))))))))
                      in
                      let b2 =
                        upd b1 (Zpos (XO XH))
                          (w8 (shr64 v (Zpos (XO (XI (XI XH))))))
                      in
                      k1_ b2
                 else if Z.eqb n0 (Zpos (XO (XO XH)))
                      then let b0 =
                             upd b Z0
                               (or8 (w8 v) (Zpos (XO (XO (XO (XO (XO (XO (XO
                                 XH)))))))))
                           in
                           let b1 =
                             upd b0 (Zpos XH)
                               (or8 (w8 (shr64 v (Zpos (XI (XI XH))))) (Zpos
                                 (XO (XO (XO (XO (XO (XO (XO XH)))))))))
                           in
                           let b2 =
                             upd b1 (Zpos (XO XH))
                               (or8 (w8 (shr64 v (Zpos (XO (XI (XI XH))))))
                                 (Zpos (XO (XO (XO (XO (XO (XO (XO XH)))))))))
                           in
                           let b3 =
                             upd b2 (Zpos (XI XH))
                               (w8 (shr64 v (Zpos (XI (XO (XI (XO XH)))))))
                           in
                           k1_ b3
                      else if Z.eqb n0 (Zpos (XI (XO XH)))
                           then let b0 =
                                  upd b Z0
                                    (or8 (w8 v) (Zpos (XO (XO (XO (XO (XO (XO
                                      (XO XH)))))))))
                                in
                                let b1 =
                                  upd b0 (Zpos XH)
                                    (or8 (w8 (shr64 v (Zpos (XI (XI XH)))))
                                      (Zpos (XO (XO (XO (XO (XO (XO (XO
                                      XH)))))))))
                                in
                                let b2 =
                                  upd b1 (Zpos (XO XH))
                                    (or8
                                      (w8 (shr64 v (Zpos (XO (XI (XI XH))))))
                                      (Zpos (XO (XO (XO (XO (XO (XO (XO
                                      XH)))))))))
                                in
                                let b3 =
                                  upd b2 (Zpos (XI XH))
                                    (or8
                                      (w8
                                        (shr64 v (Zpos (XI (XO (XI (XO
                                          XH))))))) (Zpos (XO (XO (XO (XO (XO
                                      (XO (XO XH)))))))))
                                in
                                let b4 =
                                  upd b3 (Zpos (XO (XO XH)))
                                    (w8
                                      (shr64 v (Zpos (XO (XO (XI (XI XH)))))))
                                in
                                k1_ b4
                           else if Z.eqb n0 (Zpos (XO (XI XH)))
                                then let b0 =
                                       upd b Z0
                                         (or8 (w8 v) (Zpos (XO (XO (XO (XO
                                           (XO (XO (XO XH)))))))))
                                     in
                                     let b1 =
                                       upd b0 (Zpos XH)
                                         (or8
                                           (w8 (shr64 v (Zpos (XI (XI XH)))))
                                           (Zpos (XO (XO (XO (XO (XO (XO (XO
                                           XH)))))))))
                                     in
                                     let b2 =
                                       upd b1 (Zpos (XO XH))
                                         (or8
                                           (w8
                                             (shr64 v (Zpos (XO (XI (XI
                                               XH)))))) (Zpos (XO (XO (XO (XO
                                           (XO (XO (XO XH)))))))))
                                     in
                                     let b3 =
                                       upd b2 (Zpos (XI XH))
                                         (or8
                                           (w8
                                             (shr64 v (Zpos (XI (XO (XI (XO
                                               XH))))))) (Zpos (XO (XO (XO
                                           (XO (XO (XO (XO XH)))))))))
                                     in
                                     let b4 =
                                       upd b3 (Zpos (XO (XO XH)))
                                         (or8
                                           (w8
                                             (shr64 v (Zpos (XO (XO (XI (XI
                                               XH))))))) (Zpos (XO (XO (XO
                                           (XO (XO (XO (XO XH)))))))))
                                     in
                                     let b5 =
                                       upd b4 (Zpos (XI (XO XH)))
                                         (w8
                                           (shr64 v (Zpos (XI (XI (XO (XO (XO
                                             XH))))))))
                                     in
                                     k1_ b5
                                else if Z.eqb n0 (Zpos (XI (XI XH)))
                                     then let b0 =
                                            upd b Z0
                                              (or8 (w8 v) (Zpos (XO (XO (XO
                                                (XO (XO (XO (XO XH)))))))))
                                          in
                                          let b1 =
                                            upd b0 (Zpos XH)
                                              (or8
                                                (w8
                                                  (shr64 v (Zpos (XI (XI
                                                    XH))))) (Zpos (XO (XO (XO
                                                (XO (XO (XO (XO XH)))))))))
                                          in
                                          let b2 =
                                            upd b1 (Zpos (XO XH))
                                              (or8
                                                (w8
                                                  (shr64 v (Zpos (XO (XI (XI
                                                    XH)))))) (Zpos (XO (XO
                                                (XO (XO (XO (XO (XO
                                                XH)))))))))
                                          in
                                          let b3 =
                                            upd b2 (Zpos (XI XH))
                                              (or8
                                                (w8
                                                  (shr64 v (Zpos (XI (XO (XI
                                                    (XO XH))))))) (Zpos (XO
                                                (XO (XO (XO (XO (XO (XO
                                                XH)))))))))
                                          in
                                          let b4 =
                                            upd b3 (Zpos (XO (XO XH)))
                                              (or8
                                                (w8
                                                  (shr64 v (Zpos (XO (XO (XI
                                                    (XI XH))))))) (Zpos (XO
                                                (XO (XO (XO (XO (XO (XO
                                                XH)))))))))
                                          in
                                          let b5 =
                                            upd b4 (Zpos (XI (XO XH)))
                                              (or8
                                                (w8
                                                  (shr64 v (Zpos (XI (XI (XO
                                                    (XO (XO XH)))))))) (Zpos
                                                (XO (XO (XO (XO (XO (XO (XO
                                                XH)))))))))
                                          in
                                          let b6 =
                                            upd b5 (Zpos (XO (XI XH)))
                                              (w8
                                                (shr64 v (Zpos (XO (XI (XO
                                                  (XI (XO XH))))))))
                                          in
                                          k1_ b6
                                     else if Z.eqb n0 (Zpos (XO (XO (XO XH))))
                                          then let b0 =
                                                 upd b Z0
                                                   (or8 (w8 v) (Zpos (XO (XO
                                                     (XO (XO (XO (XO (XO
                                                     XH)))))))))
                                               in
                                               let b1 =
                                                 upd b0 (Zpos XH)
                                                   (or8
                                                     (w8
                                                       (shr64 v (Zpos (XI (XI
                                                         XH))))) (Zpos (XO
                                                     (XO (XO (XO (XO (XO (XO
                                                     XH)))))))))
                                               in
                                               let b2 =
                                                 upd b1 (Zpos (XO XH))
                                                   (or8
                                                     (w8
                                                       (shr64 v (Zpos (XO (XI
                                                         (XI XH)))))) (Zpos
                                                     (XO (XO (XO (XO (XO (XO
                                                     (XO XH)))))))))
                                               in
                                               let b3 =
                                                 upd b2 (Zpos (XI XH))
                                                   (or8
                                                     (w8
                                                       (shr64 v (Zpos (XI (XO
                                                         (XI (XO XH)))))))
                                                     (Zpos (XO (XO (XO (XO
                                                     (XO (XO (XO XH)))))))))
                                               in
                                               let b4 =
                                                 upd b3 (Zpos (XO (XO XH)))
                                                   (or8
                                                     (w8
                                                       (shr64 v (Zpos (XO (XO
                                                         (XI (XI XH)))))))
                                                     (Zpos (XO (XO (XO (XO
                                                     (XO (XO (XO XH)))))))))
                                               in
                                               let b5 =
                                                 upd b4 (Zpos (XI (XO XH)))
                                                   (or8
                                                     (w8
                                                       (shr64 v (Zpos (XI (XI
                                                         (XO (XO (XO XH))))))))
                                                     (Zpos (XO (XO (XO (XO
                                                     (XO (XO (XO XH)))))))))
                                               in
                                               let b6 =
                                                 upd b5 (Zpos (XO (XI XH)))
                                                   (or8
                                                     (w8
                                                       (shr64 v (Zpos (XO (XI
                                                         (XO (XI (XO XH))))))))
                                                     (Zpos (XO (XO (XO (XO
                                                     (XO (XO (XO XH)))))))))
                                               in
                                               let b7 =
                                                 upd b6 (Zpos (XI (XI XH)))
                                                   (w8
                                                     (shr64 v (Zpos (XI (XO
                                                       (XO (XO (XI XH))))))))
                                               in
                                               k1_ b7
                                          else if Z.eqb n0 (Zpos (XI (XO (XO
                                                    XH))))
                                               then let b0 =
                                                      upd b Z0
                                                        (or8 (w8 v) (Zpos (XO
                                                          (XO (XO (XO (XO (XO
                                                          (XO XH)))))))))
                                                    in
                                                    let b1 =
                                                      upd b0 (Zpos XH)
                                                        (or8
                                                          (w8
                                                            (shr64 v (Zpos
                                                              (XI (XI XH)))))
                                                          (Zpos (XO (XO (XO
                                                          (XO (XO (XO (XO
                                                          XH)))))))))
                                                    in
                                                    let b2 =
                                                      upd b1 (Zpos (XO XH))
                                                        (or8
                                                          (w8
                                                            (shr64 v (Zpos
                                                              (XO (XI (XI
                                                              XH)))))) (Zpos
                                                          (XO (XO (XO (XO (XO
                                                          (XO (XO XH)))))))))
                                                    in
                                                    let b3 =
                                                      upd b2 (Zpos (XI XH))
                                                        (or8
                                                          (w8
                                                            (shr64 v (Zpos
                                                              (XI (XO (XI (XO
                                                              XH))))))) (Zpos
                                                          (XO (XO (XO (XO (XO
                                                          (XO (XO XH)))))))))
                                                    in
                                                    let b4 =
                                                      upd b3 (Zpos (XO (XO
                                                        XH)))
                                                        (or8
                                                          (w8
                                                            (shr64 v (Zpos
                                                              (XO (XO (XI (XI
                                                              XH))))))) (Zpos
                                                          (XO (XO (XO (XO (XO
                                                          (XO (XO XH)))))))))
                                                    in
                                                    let b5 =
                                                      upd b4 (Zpos (XI (XO
                                                        XH)))
                                                        (or8
                                                          (w8
                                                            (shr64 v (Zpos
                                                              (XI (XI (XO (XO
                                                              (XO XH))))))))
                                                          (Zpos (XO (XO (XO
                                                          (XO (XO (XO (XO
                                                          XH)))))))))
                                                    in
                                                    let b6 =
                                                      upd b5 (Zpos (XO (XI
                                                        XH)))
                                                        (or8
                                                          (w8
                                                            (shr64 v (Zpos
                                                              (XO (XI (XO (XI
                                                              (XO XH))))))))
                                                          (Zpos (XO (XO (XO
                                                          (XO (XO (XO (XO
                                                          XH)))))))))
                                                    in
                                                    let b7 =
                                                      upd b6 (Zpos (XI (XI
                                                        XH)))
                                                        (or8
                                                          (w8
                                                            (shr64 v (Zpos
                                                              (XI (XO (XO (XO
                                                              (XI XH))))))))
                                                          (Zpos (XO (XO (XO
                                                          (XO (XO (XO (XO
                                                          XH)))))))))
                                                    in
                                                    let b8 =
                                                      upd b7 (Zpos (XO (XO
                                                        (XO XH))))
                                                        (w8
                                                          (shr64 v (Zpos (XO
                                                            (XO (XO (XI (XI
                                                            XH))))))))
                                                    in
                                                    k1_ b8
                                               else if Z.eqb n0 (Zpos (XO (XI
                                                         (XO XH))))
                                                    then let b0 =
                                                           upd b Z0
                                                             (or8 (w8 v)
                                                               (Zpos (XO (XO
                                                               (XO (XO (XO
                                                               (XO (XO
                                                               XH)))))))))
                                                         in
                                                         let b1 =
                                                           upd b0 (Zpos XH)
                                                             (or8
                                                               (w8
                                                                 (shr64 v
                                                                   (Zpos (XI
                                                                   (XI XH)))))
                                                               (Zpos (XO (XO
                                                               (XO (XO (XO
                                                               (XO (XO
                                                               XH)))))))))
                                                         in
                                                         let b2 =
                                                           upd b1 (Zpos (XO
                                                             XH))
                                                             (or8
                                                               (w8
                                                                 (shr64 v
                                                                   (Zpos (XO
                                                                   (XI (XI
                                                                   XH))))))
                                                               (Zpos (XO (XO
                                                               (XO (XO (XO
                                                               (XO (XO
                                                               XH)))))))))
                                                         in
                                                         let b3 =
                                                           upd b2 (Zpos (XI
                                                             XH))
                                                             (or8
                                                               (w8
                                                                 (shr64 v
                                                                   (Zpos (XI
                                                                   (XO (XI
                                                                   (XO
                                                                   XH)))))))
                                                               (Zpos (XO (XO
                                                               (XO (XO (XO
                                                               (XO (XO
                                                               XH)))))))))
                                                         in
                                                         let b4 =
                                                           upd b3 (Zpos (XO
                                                             (XO XH)))
                                                             (or8
                                                               (w8
                                                                 (shr64 v
                                                                   (Zpos (XO
                                                                   (XO (XI
                                                                   (XI
                                                                   XH)))))))
                                                               (Zpos (XO (XO
                                                               (XO (XO (XO
                                                               (XO (XO
                                                               XH)))))))))
                                                         in
                                                         let b5 =
                                                           upd b4 (Zpos (XI
                                                             (XO XH)))
                                                             (or8
                                                               (w8
                                                                 (shr64 v
                                                                   (Zpos (XI
                                                                   (XI (XO
                                                                   (XO (XO
                                                                   XH))))))))
                                                               (Zpos (XO (XO
                                                               (XO (XO (XO
                                                               (XO (XO
                                                               XH)))))))))
                                                         in
                                                         let b6 =
                                                           upd b5 (Zpos (XO
                                                             (XI XH)))
                                                             (or8
                                                               (w8
                                                                 (shr64 v
                                                                   (Zpos (XO
                                                                   (XI (XO
                                                                   (XI (XO
                                                                   XH))))))))
                                                               (Zpos (XO (XO
                                                               (XO (XO (XO
                                                               (XO (XO
                                                               XH)))))))))
                                                         in
                                                         let b7 =
                                                           upd b6 (Zpos (XI
                                                             (XI XH)))
                                                             (or8
                                                               (w8
                                                                 (shr64 v
                                                                   (Zpos (XI
                                                                   (XO (XO
                                                                   (XO (XI
                                                                   XH))))))))
                                                               (Zpos (XO (XO
                                                               (XO (XO (XO
                                                               (XO (XO
                                                               XH)))))))))
                                                         in
                                                         let b8 =
                                                           upd b7 (Zpos (XO
                                                             (XO (XO XH))))
                                                             (or8
                                                               (w8
                                                                 (shr64 v
                                                                   (Zpos (XO
                                                                   (XO (XO
                                                                   (XI (XI
                                                                   XH))))))))
                                                               (Zpos (XO (XO
                                                               (XO (XO (XO
                                                               (XO (XO
                                                               XH)))))))))
                                                         in
                                                         let b9 =
                                                           upd b8 (Zpos (XI
                                                             (XO (XO XH))))
                                                             (w8
                                                               (shr64 v (Zpos
                                                                 (XI (XI (XI
                                                                 (XI (XI
                                                                 XH))))))))
                                                         in
                                                         k1_ b9
                                                    else k1_ b

(** val proto_encodeLE32 : bytes -> z -> (z * proto_error option) * bytes **)

let proto_encodeLE32 b v =
  if Z.ltb (len b) (Zpos (XO (XO XH)))
  then ((Z0, (Some Proto_ErrShortBuffer)), b)
  else let b0 = put_le32 b v in (((Zpos (XO (XO XH))), None), b0)

(** val proto_encodeLE64 : bytes -> z -> (z * proto_error option) * bytes **)

let proto_encodeLE64 b v =
  if Z.ltb (len b) (Zpos (XO (XO (XO XH))))
  then ((Z0, (Some Proto_ErrShortBuffer)), b)
  else let b0 = put_le64 b v in (((Zpos (XO (XO (XO XH)))), None), b0)

(** val proto_encodeTag :
    bytes -> z -> z -> (z * proto_error option) * bytes **)

let proto_encodeTag b f t =
  proto_encodeVarint b (or64 (shl64 f (Zpos (XI XH))) t)

(** val proto_decodeVarint : bytes -> (z * z) * proto_error option **)

let proto_decodeVarint b =
  if (&&) (negb (Z.eqb (len b) Z0))
       (Z.ltb (at_ b Z0) (Zpos (XO (XO (XO (XO (XO (XO (XO XH)))))))))
  then (((at_ b Z0), (Zpos XH)), None)
  else let x = Z0 in
       let s = Z0 in
       let k1_ = fun x0 _ -> ((x0, (len b)), (Some Proto_ErrUnexpectedEOF)) in
       let rec loop2_ l3_ i4_ x0 s0 =
         match l3_ with
         | [] -> k1_ x0 s0
         | h5_ :: t6_ ->
           if Z.ltb h5_ (Zpos (XO (XO (XO (XO (XO (XO (XO XH))))))))
           then if (||) (Z.gtb i4_ (Zpos (XI (XO (XO XH)))))
                     ((&&) (Z.eqb i4_ (Zpos (XI (XO (XO XH)))))
                       (Z.gtb h5_ (Zpos XH)))
                then ((Z0, i4_), (Some Proto_errVarintOverflow))
                else (((or64 x0 (shl64 h5_ s0)), (addi64 i4_ (Zpos XH))),
                       None)
           else let x1 =
                  or64 x0
                    (shl64 (and8 h5_ (Zpos (XI (XI (XI (XI (XI (XI XH))))))))
                      s0)
                in
                let s1 = add64 s0 (Zpos (XI (XI XH))) in
                loop2_ t6_ (Z.add i4_ (Zpos XH)) x1 s1
       in loop2_ b Z0 x s

(** val proto_decodeLE32 : bytes -> (z * z) * proto_error option **)

let proto_decodeLE32 b =
  if Z.ltb (len b) (Zpos (XO (XO XH)))
  then ((Z0, Z0), (Some Proto_ErrUnexpectedEOF))
  else (((le32 b), (Zpos (XO (XO XH)))), None)

(** val proto_decodeLE64 : bytes -> (z * z) * proto_error option **)

let proto_decodeLE64 b =
  if Z.ltb (len b) (Zpos (XO (XO (XO XH))))
  then ((Z0, Z0), (Some Proto_ErrUnexpectedEOF))
  else (((le64 b), (Zpos (XO (XO (XO XH))))), None)

(** val proto_decodeTag : bytes -> ((z * z) * z) * proto_error option **)

let proto_decodeTag b =
  let (p, err) = proto_decodeVarint b in
  let (v, n0) = p in
  ((((shr64 v (Zpos (XI XH))), (and64 v (Zpos (XI (XI XH))))), n0), err)

(** val proto_decodeVarlen : bytes -> (bytes * z) * proto_error option **)

let proto_decodeVarlen b =
  let (p, err) = proto_decodeVarint b in
  let (v, n0) = p in
  if negb (isnil err)
  then (([], n0), err)
  else if Z.gtb v (w64 (subi64 (len b) n0))
       then (([], n0), (Some Proto_ErrUnexpectedEOF))
       else (((slice b n0 (addi64 n0 (s64 v))), (addi64 n0 (s64 v))), None)

(** val proto_flags_has : z -> z -> bool **)

let proto_flags_has f x =
  negb (Z.eqb (and64 f x) Z0)

(** val proto_flags_with : z -> z -> z **)

let proto_flags_with =
  or64

(** val proto_flags_without : z -> z -> z **)

let proto_flags_without f x =
  and64 f (not64 x)

(** val proto_flags_uint64 : z -> z -> z **)

let proto_flags_uint64 f i =
  if proto_flags_has f proto_zigzag then proto_encodeZigZag64 i else w64 i

(** val proto_flags_int64 : z -> z -> z **)

let proto_flags_int64 f u =
  if proto_flags_has f proto_zigzag then proto_decodeZigZag64 u else s64 u

type 'a res =
| Ok of 'a
| Panic
| OutOfFuel

(** val rbind : 'a1 res -> ('a1 -> 'a2 res) -> 'a2 res **)

let rbind r f =
  match r with
  | Ok a -> f a
  | Panic -> Panic
  | OutOfFuel -> OutOfFuel

(** val cfrom : bytes -> z -> bytes res **)

let cfrom b i =
  if (&&) (Z.leb Z0 i) (Z.leb i (len b)) then Ok (slice_from b i) else Panic

(** val cslice : bytes -> z -> z -> bytes res **)

let cslice b i j =
  if (&&) ((&&) (Z.leb Z0 i) (Z.leb i j)) (Z.leb j (len b))
  then Ok (slice b i j)
  else Panic

type ptag = { tag_wire : z; tag_number : z; tag_repeated : bool;
              tag_zigzag : bool }

type gty =
| TBool
| TInt
| TInt32
| TInt64
| TUint
| TUint32
| TUint64
| TFloat32
| TFloat64
| TString
| TBytes
| TByteArray of nat
| TPtr of gty
| TStruct of gfield list
| TSlice of gty
| TMap of gty * gty
| TRawMessage
and gfield =
| GField of bool * ptag option * gty

type val0 =
| VBool of bool
| VInt of z
| VStr of bytes
| VBytes of bool * bytes
| VArr of bytes
| VPtr of val0 option
| VStruct of val0 list
| VSlice of val0 list
| VMap of bool * (val0 * val0) list
| VRaw of bool * bytes

type codec =
| CBool
| CInt
| CInt32
| CInt64
| CUint
| CUint32
| CUint64
| CFixed32
| CFixed64
| CFloat32
| CFloat64
| CString
| CBytes
| CByteArray of nat
| CPtr of gty * codec
| CStruct of bool * sfield list
| CSlice of z * z * bool * gty * codec
| CMap of z * z * z * gty * gty * codec * codec
| CMessage
| CUnsupported
and sfield =
| SField of z * z * z * gty * codec

(** val wire : codec -> z **)

let rec wire = function
| CBool -> proto_varint
| CInt -> proto_varint
| CInt32 -> proto_varint
| CInt64 -> proto_varint
| CUint -> proto_varint
| CUint32 -> proto_varint
| CUint64 -> proto_varint
| CFixed32 -> proto_fixed32
| CFixed64 -> proto_fixed64
| CFloat32 -> proto_fixed32
| CFloat64 -> proto_fixed64
| CPtr (_, c') -> wire c'
| CSlice (_, wt, _, _, _) -> wt
| _ -> proto_varlen

(** val base_ty : gty -> gty **)

let rec base_ty t = match t with
| TPtr t' -> base_ty t'
| _ -> t

(** val is_struct : gty -> bool **)

let is_struct = function
| TStruct _ -> true
| _ -> false

(** val inlined_ty : gty -> bool **)

let rec inlined_ty = function
| TPtr _ -> true
| TStruct fs ->
  (match fs with
   | [] -> false
   | g :: l ->
     let GField (_, _, ft) = g in
     (match l with
      | [] -> inlined_ty ft
      | _ :: _ -> false))
| TMap (_, _) -> true
| _ -> false

(** val zero_val : gty -> val0 **)

let rec zero_val = function
| TBool -> VBool false
| TString -> VStr []
| TBytes -> VBytes (false, [])
| TByteArray n0 -> VArr (repeat Z0 n0)
| TPtr _ -> VPtr None
| TStruct fs ->
  VStruct
    (let rec zs = function
     | [] -> []
     | g :: r -> let GField (_, _, t0) = g in (zero_val t0) :: (zs r)
     in zs fs)
| TSlice _ -> VSlice []
| TMap (_, _) -> VMap (false, [])
| TRawMessage -> VRaw (false, [])
| _ -> VInt Z0

(** val pointers_to : gty -> codec -> codec **)

let rec pointers_to t c =
  match t with
  | TPtr t' -> CPtr (t', (pointers_to t' c))
  | _ -> c

(** val codec_of : gty -> codec **)

let rec codec_of t = match t with
| TBool -> CBool
| TInt -> CInt
| TInt32 -> CInt32
| TInt64 -> CInt64
| TUint -> CUint
| TUint32 -> CUint32
| TUint64 -> CUint64
| TFloat32 -> CFloat32
| TFloat64 -> CFloat64
| TString -> CString
| TBytes -> CBytes
| TByteArray n0 -> CByteArray n0
| TPtr t' -> CPtr (t', (codec_of t'))
| TStruct fs ->
  CStruct ((inlined_ty t),
    (let rec go fs0 number =
       match fs0 with
       | [] -> []
       | g :: r ->
         let GField (exported, tag, ft) = g in
         if exported
         then let num0 = w16 number in
              let (p, forced) =
                match tag with
                | Some tg ->
                  let fl =
                    Z.add (if tg.tag_repeated then proto_repeated else Z0)
                      (if tg.tag_zigzag then proto_zigzag else Z0)
                  in
                  let forced =
                    if Z.eqb tg.tag_wire proto_fixed32
                    then (match base_ty ft with
                          | TBool -> None
                          | TInt -> None
                          | TInt32 -> None
                          | TInt64 -> None
                          | TUint -> None
                          | TUint32 -> Some (pointers_to ft CFixed32)
                          | TFloat32 -> Some (pointers_to ft CFloat32)
                          | _ -> None)
                    else if Z.eqb tg.tag_wire proto_fixed64
                         then (match base_ty ft with
                               | TUint64 -> Some (pointers_to ft CFixed64)
                               | TFloat64 -> Some (pointers_to ft CFloat64)
                               | _ -> None)
                         else None
                  in
                  (((w16 tg.tag_number), fl), forced)
                | None -> ((num0, Z0), None)
              in
              let (num, fl0) = p in
              let (fl, c) =
                match forced with
                | Some c -> (fl0, c)
                | None ->
                  (match ft with
                   | TSlice et ->
                     let emb = is_struct (base_ty et) in
                     let fl1 =
                       Z.coq_lor
                         (if emb then Z.coq_lor fl0 proto_embedded else fl0)
                         proto_repeated
                     in
                     let ec = codec_of et in
                     (fl1, (CSlice (num, (wire ec), emb, et, ec)))
                   | TMap (kt, vt) ->
                     let kf =
                       if is_struct (base_ty kt) then proto_embedded else Z0
                     in
                     let vf =
                       if is_struct (base_ty vt) then proto_embedded else Z0
                     in
                     ((Z.coq_lor fl0
                        (Z.coq_lor proto_embedded proto_repeated)), (CMap
                     (num, kf, vf, kt, vt, (codec_of kt), (codec_of vt))))
                   | _ ->
                     if is_struct (base_ty ft)
                     then ((Z.coq_lor fl0 proto_embedded), (codec_of ft))
                     else (fl0, (codec_of ft)))
              in
              (SField (num, (w8 (proto_sizeOfTag num (wire c))), fl, ft,
              c)) :: (go r (Z.add number (Zpos XH)))
         else go r number
     in go fs (Zpos XH)))
| TRawMessage -> CMessage
| _ -> CUnsupported

(** val sf_number : sfield -> z **)

let sf_number = function
| SField (n0, _, _, _, _) -> n0

(** val sf_tagsize : sfield -> z **)

let sf_tagsize = function
| SField (_, ts, _, _, _) -> ts

(** val sf_flags : sfield -> z **)

let sf_flags = function
| SField (_, _, fl, _, _) -> fl

(** val sf_ty : sfield -> gty **)

let sf_ty = function
| SField (_, _, _, t, _) -> t

(** val sf_codec : sfield -> codec **)

let sf_codec = function
| SField (_, _, _, _, c) -> c

(** val sf_embedded : sfield -> bool **)

let sf_embedded f =
  negb (Z.eqb (Z.coq_land (sf_flags f) proto_embedded) Z0)

(** val sf_repeated : sfield -> bool **)

let sf_repeated f =
  negb (Z.eqb (Z.coq_land (sf_flags f) proto_repeated) Z0)

(** val make_flags : sfield -> z -> z **)

let make_flags f base =
  Z.coq_lor base (Z.coq_land (sf_flags f) proto_zigzag)

(** val has : z -> z -> bool **)

let has =
  proto_flags_has

(** val without : z -> z -> z **)

let without =
  proto_flags_without

(** val with_ : z -> z -> z **)

let with_ =
  proto_flags_with

(** val all_zero : bytes -> bool **)

let all_zero s =
  forallb (fun b -> Z.eqb b Z0) s

(** val f32_nonzero : z -> bool **)

let f32_nonzero bits =
  negb
    (Z.eqb
      (Z.coq_land bits (Zpos (XI (XI (XI (XI (XI (XI (XI (XI (XI (XI (XI (XI
        (XI (XI (XI (XI (XI (XI (XI (XI (XI (XI (XI (XI (XI (XI (XI (XI (XI
        (XI XH)))))))))))))))))))))))))))))))) Z0)

(** val f64_nonzero : z -> bool **)

let f64_nonzero bits =
  negb
    (Z.eqb
      (Z.coq_land bits (Zpos (XI (XI (XI (XI (XI (XI (XI (XI (XI (XI (XI (XI
        (XI (XI (XI (XI (XI (XI (XI (XI (XI (XI (XI (XI (XI (XI (XI (XI (XI
        (XI (XI (XI (XI (XI (XI (XI (XI (XI (XI (XI (XI (XI (XI (XI (XI (XI
        (XI (XI (XI (XI (XI (XI (XI (XI (XI (XI (XI (XI (XI (XI (XI (XI
        XH)))))))))))))))))))))))))))))))))))))))))))))))))))))))))))))))) Z0)

(** val f32_signbit : z -> bool **)

let f32_signbit bits =
  Z.leb (Zpos (XO (XO (XO (XO (XO (XO (XO (XO (XO (XO (XO (XO (XO (XO (XO (XO
    (XO (XO (XO (XO (XO (XO (XO (XO (XO (XO (XO (XO (XO (XO (XO
    XH)))))))))))))))))))))))))))))))) bits

(** val f64_signbit : z -> bool **)

let f64_signbit bits =
  Z.leb (Zpos (XO (XO (XO (XO (XO (XO (XO (XO (XO (XO (XO (XO (XO (XO (XO (XO
    (XO (XO (XO (XO (XO (XO (XO (XO (XO (XO (XO (XO (XO (XO (XO (XO (XO (XO
    (XO (XO (XO (XO (XO (XO (XO (XO (XO (XO (XO (XO (XO (XO (XO (XO (XO (XO
    (XO (XO (XO (XO (XO (XO (XO (XO (XO (XO (XO
    XH)))))))))))))))))))))))))))))))))))))))))))))))))))))))))))))))) bits

(** val size_of : codec -> val0 option -> z -> z **)

let rec size_of c ov flags =
  match c with
  | CBool ->
    (match ov with
     | Some v ->
       (match v with
        | VBool x -> if (||) x (has flags proto_wantzero) then Zpos XH else Z0
        | _ -> Z0)
     | None -> Z0)
  | CInt ->
    (match ov with
     | Some v0 ->
       (match v0 with
        | VInt v ->
          if (||) (negb (Z.eqb v Z0)) (has flags proto_wantzero)
          then proto_sizeOfVarint (proto_flags_uint64 flags v)
          else Z0
        | _ -> Z0)
     | None -> Z0)
  | CInt32 ->
    (match ov with
     | Some v0 ->
       (match v0 with
        | VInt v ->
          if (||) (negb (Z.eqb v Z0)) (has flags proto_wantzero)
          then proto_sizeOfVarint (proto_flags_uint64 flags v)
          else Z0
        | _ -> Z0)
     | None -> Z0)
  | CInt64 ->
    (match ov with
     | Some v0 ->
       (match v0 with
        | VInt v ->
          if (||) (negb (Z.eqb v Z0)) (has flags proto_wantzero)
          then proto_sizeOfVarint (proto_flags_uint64 flags v)
          else Z0
        | _ -> Z0)
     | None -> Z0)
  | CFixed32 ->
    (match ov with
     | Some v0 ->
       (match v0 with
        | VInt v ->
          if (||) (negb (Z.eqb v Z0)) (has flags proto_wantzero)
          then Zpos (XO (XO XH))
          else Z0
        | _ -> Z0)
     | None -> Z0)
  | CFixed64 ->
    (match ov with
     | Some v0 ->
       (match v0 with
        | VInt v ->
          if (||) (negb (Z.eqb v Z0)) (has flags proto_wantzero)
          then Zpos (XO (XO (XO XH)))
          else Z0
        | _ -> Z0)
     | None -> Z0)
  | CFloat32 ->
    (match ov with
     | Some v0 ->
       (match v0 with
        | VInt v ->
          if (||) ((||) (f32_nonzero v) (has flags proto_wantzero))
               (f32_signbit v)
          then Zpos (XO (XO XH))
          else Z0
        | _ -> Z0)
     | None -> Z0)
  | CFloat64 ->
    (match ov with
     | Some v0 ->
       (match v0 with
        | VInt v ->
          if (||) ((||) (f64_nonzero v) (has flags proto_wantzero))
               (f64_signbit v)
          then Zpos (XO (XO (XO XH)))
          else Z0
        | _ -> Z0)
     | None -> Z0)
  | CString ->
    (match ov with
     | Some v ->
       (match v with
        | VStr s ->
          if (||) (negb (Z.eqb (len s) Z0)) (has flags proto_wantzero)
          then proto_sizeOfVarlen (len s)
          else Z0
        | _ -> Z0)
     | None -> Z0)
  | CBytes ->
    (match ov with
     | Some v ->
       (match v with
        | VBytes (nn, s) ->
          if (||) nn (has flags proto_wantzero)
          then proto_sizeOfVarlen (len s)
          else Z0
        | _ -> Z0)
     | None -> Z0)
  | CByteArray n0 ->
    (match ov with
     | Some v ->
       (match v with
        | VArr s ->
          if (||) (has flags proto_wantzero) (negb (all_zero s))
          then proto_sizeOfVarlen (Z.of_nat n0)
          else Z0
        | _ -> Z0)
     | None -> Z0)
  | CPtr (_, c') ->
    (match ov with
     | Some v ->
       (match v with
        | VPtr o ->
          size_of c' o (with_ (without flags proto_inline) proto_wantzero)
        | _ -> Z0)
     | None -> Z0)
  | CStruct (inl_, fields) ->
    (match ov with
     | Some v ->
       (match v with
        | VStruct vs ->
          let flags0 =
            if inl_
            then without flags proto_toplevel
            else without flags (Z.coq_lor proto_inline proto_toplevel)
          in
          let pass =
            let rec pass rep fs vs0 flags1 n0 =
              match fs with
              | [] -> (flags1, n0)
              | f :: fr ->
                (match vs0 with
                 | [] -> (flags1, n0)
                 | v0 :: vr ->
                   if eqb (sf_repeated f) rep
                   then let size0 =
                          size_of (sf_codec f) (Some v0) (make_flags f flags1)
                        in
                        if Z.gtb size0 Z0
                        then let n' =
                               if rep
                               then Z.add n0 size0
                               else Z.add
                                      (Z.add (Z.add n0 (sf_tagsize f)) size0)
                                      (if sf_embedded f
                                       then proto_sizeOfVarint size0
                                       else Z0)
                             in
                             pass rep fr vr (without flags1 proto_wantzero) n'
                        else pass rep fr vr flags1 n0
                   else pass rep fr vr flags1 n0)
            in pass
          in
          let (flags1, n1) = pass false fields vs flags0 Z0 in
          let (_, n2) = pass true fields vs flags1 n1 in n2
        | _ -> Z0)
     | None -> Z0)
  | CSlice (number, wt, emb, _, c') ->
    (match ov with
     | Some v ->
       (match v with
        | VSlice es ->
          let tagSize = proto_sizeOfTag number wt in
          fold_left (fun n0 e ->
            let size0 = size_of c' (Some e) proto_wantzero in
            Z.add (Z.add (Z.add n0 tagSize) size0)
              (if emb then proto_sizeOfVarint size0 else Z0)) es Z0
        | _ -> Z0)
     | None -> Z0)
  | CMap (number, kf, vf, _, _, kc, vc) ->
    (match ov with
     | Some v ->
       (match v with
        | VMap (_, es) ->
          let mapTagSize = proto_sizeOfTag number proto_varlen in
          let keyTagSize = proto_sizeOfTag (Zpos XH) (wire kc) in
          let valTagSize = proto_sizeOfTag (Zpos (XO XH)) (wire vc) in
          let n0 =
            fold_left (fun n0 kv ->
              let keySize = size_of kc (Some (fst kv)) proto_wantzero in
              let valSize = size_of vc (Some (snd kv)) proto_wantzero in
              let elemSize = Z0 in
              let elemSize0 =
                if Z.gtb keySize Z0
                then Z.add (Z.add (Z.add elemSize keyTagSize) keySize)
                       (if negb (Z.eqb (Z.coq_land kf proto_embedded) Z0)
                        then proto_sizeOfVarint keySize
                        else Z0)
                else elemSize
              in
              let elemSize1 =
                if Z.gtb valSize Z0
                then Z.add (Z.add (Z.add elemSize0 valTagSize) valSize)
                       (if negb (Z.eqb (Z.coq_land vf proto_embedded) Z0)
                        then proto_sizeOfVarint valSize
                        else Z0)
                else elemSize0
              in
              Z.add
                (Z.add (Z.add n0 mapTagSize) (proto_sizeOfVarint elemSize1))
                elemSize1) es Z0
          in
          if Z.eqb n0 Z0 then Z.add mapTagSize proto_zeroSize else n0
        | _ -> Z0)
     | None -> Z0)
  | CMessage ->
    (match ov with
     | Some v ->
       (match v with
        | VRaw (_, s) ->
          if has flags proto_toplevel
          then len s
          else proto_sizeOfVarlen (len s)
        | _ -> Z0)
     | None -> Z0)
  | CUnsupported -> Z0
  | _ ->
    (match ov with
     | Some v0 ->
       (match v0 with
        | VInt v ->
          if (||) (negb (Z.eqb v Z0)) (has flags proto_wantzero)
          then proto_sizeOfVarint v
          else Z0
        | _ -> Z0)
     | None -> Z0)

type eres = ((z * proto_error option) * bytes) res

(** val ret : z -> proto_error option -> bytes -> eres **)

let ret n0 e b =
  Ok ((n0, e), b)

(** val in_from : bytes -> z -> (bytes -> eres) -> eres **)

let in_from b off f =
  rbind (cfrom b off) (fun w ->
    rbind (f w) (fun pat ->
      let (p, w') = pat in let (n0, e) = p in Ok ((n0, e), (splice b off w'))))

(** val in_window : bytes -> z -> z -> (bytes -> eres) -> eres **)

let in_window b off size0 f =
  rbind (cslice b off (Z.add off size0)) (fun w ->
    rbind (f w) (fun pat ->
      let (p, w') = pat in let (n0, e) = p in Ok ((n0, e), (splice b off w'))))

(** val lift3 : ((z * proto_error option) * bytes) -> eres **)

let lift3 r =
  Ok r

(** val copy_at : bytes -> z -> bytes -> (z * bytes) res **)

let copy_at b off src =
  rbind (cfrom b off) (fun w ->
    let n0 = Z.min (len w) (len src) in
    Ok (n0, (splice b off (slice_to src n0))))

(** val encode_varlen_bytes : bytes -> bytes -> eres **)

let encode_varlen_bytes b s =
  let (p, b0) = proto_encodeVarint b (w64 (len s)) in
  let (n0, err) = p in
  (match err with
   | Some _ -> ret n0 err b0
   | None ->
     rbind (copy_at b0 n0 s) (fun pat ->
       let (c, b1) = pat in
       ret (Z.add n0 c)
         (if Z.ltb c (len s) then Some Proto_ErrShortBuffer else None) b1))

(** val encode : codec -> bytes -> val0 option -> z -> eres **)

let rec encode c b ov flags =
  match c with
  | CBool ->
    (match ov with
     | Some v ->
       (match v with
        | VBool x ->
          if (||) x (has flags proto_wantzero)
          then if Z.eqb (len b) Z0
               then ret Z0 (Some Proto_ErrShortBuffer) b
               else ret (Zpos XH) None (upd b Z0 (if x then Zpos XH else Z0))
          else ret Z0 None b
        | _ -> ret Z0 None b)
     | None -> ret Z0 None b)
  | CInt ->
    (match ov with
     | Some v0 ->
       (match v0 with
        | VInt v ->
          if (||) (negb (Z.eqb v Z0)) (has flags proto_wantzero)
          then lift3 (proto_encodeVarint b (proto_flags_uint64 flags v))
          else ret Z0 None b
        | _ -> ret Z0 None b)
     | None -> ret Z0 None b)
  | CInt32 ->
    (match ov with
     | Some v0 ->
       (match v0 with
        | VInt v ->
          if (||) (negb (Z.eqb v Z0)) (has flags proto_wantzero)
          then lift3 (proto_encodeVarint b (proto_flags_uint64 flags v))
          else ret Z0 None b
        | _ -> ret Z0 None b)
     | None -> ret Z0 None b)
  | CInt64 ->
    (match ov with
     | Some v0 ->
       (match v0 with
        | VInt v ->
          if (||) (negb (Z.eqb v Z0)) (has flags proto_wantzero)
          then lift3 (proto_encodeVarint b (proto_flags_uint64 flags v))
          else ret Z0 None b
        | _ -> ret Z0 None b)
     | None -> ret Z0 None b)
  | CFixed32 ->
    (match ov with
     | Some v0 ->
       (match v0 with
        | VInt v ->
          if (||) (negb (Z.eqb v Z0)) (has flags proto_wantzero)
          then lift3 (proto_encodeLE32 b v)
          else ret Z0 None b
        | _ -> ret Z0 None b)
     | None -> ret Z0 None b)
  | CFixed64 ->
    (match ov with
     | Some v0 ->
       (match v0 with
        | VInt v ->
          if (||) (negb (Z.eqb v Z0)) (has flags proto_wantzero)
          then lift3 (proto_encodeLE64 b v)
          else ret Z0 None b
        | _ -> ret Z0 None b)
     | None -> ret Z0 None b)
  | CFloat32 ->
    (match ov with
     | Some v0 ->
       (match v0 with
        | VInt v ->
          if (||) ((||) (f32_nonzero v) (has flags proto_wantzero))
               (f32_signbit v)
          then lift3 (proto_encodeLE32 b v)
          else ret Z0 None b
        | _ -> ret Z0 None b)
     | None -> ret Z0 None b)
  | CFloat64 ->
    (match ov with
     | Some v0 ->
       (match v0 with
        | VInt v ->
          if (||) ((||) (f64_nonzero v) (has flags proto_wantzero))
               (f64_signbit v)
          then lift3 (proto_encodeLE64 b v)
          else ret Z0 None b
        | _ -> ret Z0 None b)
     | None -> ret Z0 None b)
  | CString ->
    (match ov with
     | Some v ->
       (match v with
        | VStr s ->
          if (||) (negb (Z.eqb (len s) Z0)) (has flags proto_wantzero)
          then encode_varlen_bytes b s
          else ret Z0 None b
        | _ -> ret Z0 None b)
     | None -> ret Z0 None b)
  | CBytes ->
    (match ov with
     | Some v ->
       (match v with
        | VBytes (nn, s) ->
          if (||) nn (has flags proto_wantzero)
          then encode_varlen_bytes b s
          else ret Z0 None b
        | _ -> ret Z0 None b)
     | None -> ret Z0 None b)
  | CByteArray _ ->
    (match ov with
     | Some v ->
       (match v with
        | VArr s ->
          if (||) (has flags proto_wantzero) (negb (all_zero s))
          then encode_varlen_bytes b s
          else ret Z0 None b
        | _ -> ret Z0 None b)
     | None -> ret Z0 None b)
  | CPtr (_, c') ->
    (match ov with
     | Some v ->
       (match v with
        | VPtr o ->
          encode c' b o (with_ (without flags proto_inline) proto_wantzero)
        | _ -> ret Z0 None b)
     | None -> ret Z0 None b)
  | CStruct (inl_, fields) ->
    (match ov with
     | Some v ->
       (match v with
        | VStruct vs ->
          let flags0 =
            if inl_
            then without flags proto_toplevel
            else without flags (Z.coq_lor proto_inline proto_toplevel)
          in
          let uniq =
            let rec uniq fs vs0 flags1 offset b0 k =
              match fs with
              | [] -> k flags1 offset b0
              | f :: fr ->
                (match vs0 with
                 | [] -> k flags1 offset b0
                 | v0 :: vr ->
                   if sf_repeated f
                   then uniq fr vr flags1 offset b0 k
                   else let fieldFlags = make_flags f flags1 in
                        let size0 = size_of (sf_codec f) (Some v0) fieldFlags
                        in
                        if Z.gtb size0 Z0
                        then rbind
                               (in_from b0 offset (fun w ->
                                 lift3
                                   (proto_encodeTag w (sf_number f)
                                     (wire (sf_codec f))))) (fun pat ->
                               let (p, b1) = pat in
                               let (n0, err) = p in
                               let offset0 = Z.add offset n0 in
                               (match err with
                                | Some _ -> ret offset0 err b1
                                | None ->
                                  rbind
                                    (if sf_embedded f
                                     then rbind
                                            (in_from b1 offset0 (fun w ->
                                              lift3
                                                (proto_encodeVarint w
                                                  (w64 size0)))) (fun pat0 ->
                                            let (p0, b2) = pat0 in
                                            let (n1, err0) = p0 in
                                            Ok (((Z.add offset0 n1), err0),
                                            b2))
                                     else Ok ((offset0, None), b1))
                                    (fun pat0 ->
                                    let (p0, b2) = pat0 in
                                    let (offset1, err0) = p0 in
                                    (match err0 with
                                     | Some _ -> ret offset1 err0 b2
                                     | None ->
                                       if Z.ltb (Z.sub (len b2) offset1) size0
                                       then ret (len b2) (Some
                                              Proto_ErrShortBuffer) b2
                                       else rbind
                                              (in_window b2 offset1 size0
                                                (fun w ->
                                                encode (sf_codec f) w (Some
                                                  v0) fieldFlags))
                                              (fun pat1 ->
                                              let (p1, b3) = pat1 in
                                              let (n1, err1) = p1 in
                                              let offset2 = Z.add offset1 n1
                                              in
                                              (match err1 with
                                               | Some _ -> ret offset2 err1 b3
                                               | None ->
                                                 uniq fr vr
                                                   (without flags1
                                                     proto_wantzero) offset2
                                                   b3 k))))))
                        else uniq fr vr flags1 offset b0 k)
            in uniq
          in
          let reps =
            let rec reps fs vs0 flags1 offset b0 =
              match fs with
              | [] -> ret offset None b0
              | f :: fr ->
                (match vs0 with
                 | [] -> ret offset None b0
                 | v0 :: vr ->
                   if negb (sf_repeated f)
                   then reps fr vr flags1 offset b0
                   else rbind
                          (in_from b0 offset (fun w ->
                            encode (sf_codec f) w (Some v0)
                              (make_flags f flags1))) (fun pat ->
                          let (p, b1) = pat in
                          let (n0, err) = p in
                          let offset0 = Z.add offset n0 in
                          (match err with
                           | Some _ -> ret offset0 err b1
                           | None ->
                             reps fr vr
                               (if Z.gtb n0 Z0
                                then without flags1 proto_wantzero
                                else flags1) offset0 b1)))
            in reps
          in
          uniq fields vs flags0 Z0 b (fun flags1 offset b0 ->
            reps fields vs flags1 offset b0)
        | _ -> ret Z0 None b)
     | None -> ret Z0 None b)
  | CSlice (number, wt, emb, _, c') ->
    (match ov with
     | Some v ->
       (match v with
        | VSlice es ->
          let tagSize = proto_sizeOfTag number wt in
          let (_, tagData) =
            proto_encodeTag (repeat Z0 (Z.to_nat tagSize)) number wt
          in
          let rec go es0 offset b0 =
            match es0 with
            | [] -> ret offset None b0
            | e :: er ->
              let size0 = size_of c' (Some e) proto_wantzero in
              rbind (copy_at b0 offset tagData) (fun pat ->
                let (n0, b1) = pat in
                let offset0 = Z.add offset n0 in
                if Z.ltb n0 (len tagData)
                then ret offset0 (Some Proto_ErrShortBuffer) b1
                else rbind
                       (if emb
                        then rbind
                               (in_from b1 offset0 (fun w ->
                                 lift3 (proto_encodeVarint w (w64 size0))))
                               (fun pat0 ->
                               let (p, b2) = pat0 in
                               let (n1, err) = p in
                               Ok (((Z.add offset0 n1), err), b2))
                        else Ok ((offset0, None), b1)) (fun pat0 ->
                       let (p, b2) = pat0 in
                       let (offset1, err) = p in
                       (match err with
                        | Some _ -> ret offset1 err b2
                        | None ->
                          if Z.ltb (Z.sub (len b2) offset1) size0
                          then ret (len b2) (Some Proto_ErrShortBuffer) b2
                          else rbind
                                 (in_window b2 offset1 size0 (fun w ->
                                   encode c' w (Some e) proto_wantzero))
                                 (fun pat1 ->
                                 let (p0, b3) = pat1 in
                                 let (n1, err0) = p0 in
                                 let offset2 = Z.add offset1 n1 in
                                 (match err0 with
                                  | Some _ -> ret offset2 err0 b3
                                  | None -> go er offset2 b3)))))
          in go es Z0 b
        | _ -> ret Z0 None b)
     | None -> ret Z0 None b)
  | CMap (number, kf, vf, _, _, kc, vc) ->
    (match ov with
     | Some v ->
       (match v with
        | VMap (_, es) ->
          let (_, keyTag) = proto_encodeTag (Z0 :: []) (Zpos XH) (wire kc) in
          let (_, valTag) =
            proto_encodeTag (Z0 :: []) (Zpos (XO XH)) (wire vc)
          in
          let tagsz = proto_sizeOfTag number proto_varlen in
          let (_, zero) =
            proto_encodeTag
              (repeat Z0 (Z.to_nat (Z.add tagsz proto_zeroSize))) number
              proto_varlen
          in
          let mapTag = slice_to zero (Z.sub (len zero) (Zpos XH)) in
          let part = fun tg embf pc pv psize offset b0 short_ret_n ->
            if Z.gtb psize Z0
            then rbind (copy_at b0 offset tg) (fun pat ->
                   let (n0, b1) = pat in
                   let offset' = Z.add offset n0 in
                   if Z.ltb n0 (len tg)
                   then Ok (((if short_ret_n then n0 else offset'), (Some
                          Proto_ErrShortBuffer)), b1)
                   else rbind
                          (if embf
                           then rbind
                                  (in_from b1 offset' (fun w ->
                                    lift3 (proto_encodeVarint w (w64 psize))))
                                  (fun pat0 ->
                                  let (p, b2) = pat0 in
                                  let (n1, err) = p in
                                  Ok (((Z.add offset' n1), err), b2))
                           else Ok ((offset', None), b1)) (fun pat0 ->
                          let (p, b2) = pat0 in
                          let (offset'0, err) = p in
                          (match err with
                           | Some _ -> Ok ((offset'0, err), b2)
                           | None ->
                             if Z.ltb (Z.sub (len b2) offset'0) psize
                             then Ok (((len b2), (Some
                                    Proto_ErrShortBuffer)), b2)
                             else rbind
                                    (in_window b2 offset'0 psize (fun w ->
                                      encode pc w (Some pv) proto_wantzero))
                                    (fun pat1 ->
                                    let (p0, b3) = pat1 in
                                    let (n1, err0) = p0 in
                                    Ok (((Z.add offset'0 n1), err0), b3)))))
            else Ok ((offset, None), b0)
          in
          let rec go es0 offset b0 =
            match es0 with
            | [] ->
              if Z.eqb offset Z0
              then rbind (copy_at b0 Z0 zero) (fun pat ->
                     let (n0, b1) = pat in
                     if Z.ltb n0 (len zero)
                     then ret n0 (Some Proto_ErrShortBuffer) b1
                     else ret n0 None b1)
              else ret offset None b0
            | p :: er ->
              let (k, v0) = p in
              let keySize = size_of kc (Some k) proto_wantzero in
              let valSize = size_of vc (Some v0) proto_wantzero in
              let elemSize = Z.add keySize valSize in
              let elemSize0 =
                if Z.gtb keySize Z0
                then Z.add (Z.add elemSize (len keyTag))
                       (if negb (Z.eqb (Z.coq_land kf proto_embedded) Z0)
                        then proto_sizeOfVarint keySize
                        else Z0)
                else elemSize
              in
              let elemSize1 =
                if Z.gtb valSize Z0
                then Z.add (Z.add elemSize0 (len valTag))
                       (if negb (Z.eqb (Z.coq_land vf proto_embedded) Z0)
                        then proto_sizeOfVarint valSize
                        else Z0)
                else elemSize0
              in
              rbind (copy_at b0 offset mapTag) (fun pat ->
                let (n0, b1) = pat in
                let offset0 = Z.add offset n0 in
                if Z.ltb n0 (len mapTag)
                then ret offset0 (Some Proto_ErrShortBuffer) b1
                else rbind
                       (in_from b1 offset0 (fun w ->
                         lift3 (proto_encodeVarint w (w64 elemSize1))))
                       (fun pat0 ->
                       let (p0, b2) = pat0 in
                       let (n1, err) = p0 in
                       let offset1 = Z.add offset0 n1 in
                       (match err with
                        | Some _ -> ret offset1 err b2
                        | None ->
                          rbind
                            (part keyTag
                              (negb (Z.eqb (Z.coq_land kf proto_embedded) Z0))
                              kc k keySize offset1 b2 false) (fun pat1 ->
                            let (p1, b3) = pat1 in
                            let (offset2, err0) = p1 in
                            (match err0 with
                             | Some _ -> ret offset2 err0 b3
                             | None ->
                               rbind
                                 (part valTag
                                   (negb
                                     (Z.eqb (Z.coq_land vf proto_embedded) Z0))
                                   vc v0 valSize offset2 b3 true)
                                 (fun pat2 ->
                                 let (p2, b4) = pat2 in
                                 let (offset3, err1) = p2 in
                                 (match err1 with
                                  | Some _ -> ret offset3 err1 b4
                                  | None -> go er offset3 b4)))))))
          in go es Z0 b
        | _ -> ret Z0 None b)
     | None -> ret Z0 None b)
  | CMessage ->
    (match ov with
     | Some v ->
       (match v with
        | VRaw (_, s) ->
          let size0 = len s in
          if has flags proto_toplevel
          then if Z.ltb (len b) size0
               then ret Z0 (Some Proto_ErrShortBuffer) b
               else rbind (copy_at b Z0 s) (fun pat ->
                      let (_, b0) = pat in ret size0 None b0)
          else let vlen = proto_sizeOfVarlen size0 in
               if Z.ltb (len b) vlen
               then ret Z0 (Some Proto_ErrShortBuffer) b
               else let (p, b0) = proto_encodeVarint b (w64 size0) in
                    let (n0, err) = p in
                    (match err with
                     | Some _ -> ret n0 err b0
                     | None ->
                       rbind (copy_at b0 n0 s) (fun pat ->
                         let (_, b1) = pat in ret vlen None b1))
        | _ -> ret Z0 None b)
     | None -> ret Z0 None b)
  | CUnsupported -> ret Z0 None b
  | _ ->
    (match ov with
     | Some v0 ->
       (match v0 with
        | VInt v ->
          if (||) (negb (Z.eqb v Z0)) (has flags proto_wantzero)
          then lift3 (proto_encodeVarint b v)
          else ret Z0 None b
        | _ -> ret Z0 None b)
     | None -> ret Z0 None b)

type dres = ((z * proto_error option) * val0) res

(** val dret : z -> proto_error option -> val0 -> dres **)

let dret n0 e v =
  Ok ((n0, e), v)

(** val err_overflow : proto_error option **)

let err_overflow =
  Some Proto_errVarintOverflow

(** val err_mismatch : proto_error option **)

let err_mismatch =
  Some Proto_ErrWireTypeUnknown

(** val val_eqb : val0 -> val0 -> bool **)

let rec val_eqb a b =
  match a with
  | VBool x -> (match b with
                | VBool y -> eqb x y
                | _ -> false)
  | VInt x -> (match b with
               | VInt y -> Z.eqb x y
               | _ -> false)
  | VStr x -> (match b with
               | VStr y -> bytes_eqb x y
               | _ -> false)
  | VBytes (_, x) ->
    (match b with
     | VBytes (_, y) -> bytes_eqb x y
     | _ -> false)
  | VArr x -> (match b with
               | VArr y -> bytes_eqb x y
               | _ -> false)
  | VPtr o ->
    (match o with
     | Some x ->
       (match b with
        | VPtr o0 -> (match o0 with
                      | Some y -> val_eqb x y
                      | None -> false)
        | _ -> false)
     | None ->
       (match b with
        | VPtr o0 -> (match o0 with
                      | Some _ -> false
                      | None -> true)
        | _ -> false))
  | VStruct xs ->
    (match b with
     | VStruct ys ->
       let rec go xs0 ys0 =
         match xs0 with
         | [] -> (match ys0 with
                  | [] -> true
                  | _ :: _ -> false)
         | x :: xr ->
           (match ys0 with
            | [] -> false
            | y :: yr -> (&&) (val_eqb x y) (go xr yr))
       in go xs ys
     | _ -> false)
  | _ -> false

(** val map_assign :
    (val0 * val0) list -> val0 -> val0 -> (val0 * val0) list **)

let rec map_assign es k v =
  match es with
  | [] -> (k, v) :: []
  | p :: r ->
    let (k', v') = p in
    if val_eqb k' k then (k', v) :: r else (k', v') :: (map_assign r k v)

(** val nth_field : sfield list -> val0 list -> z -> (nat * sfield) option **)

let nth_field fields _ number =
  let rec go fs i acc =
    match fs with
    | [] -> acc
    | f :: r ->
      go r (S i) (if Z.eqb (sf_number f) number then Some (i, f) else acc)
  in go fields O None

(** val max_number : sfield list -> z **)

let max_number fields =
  fold_left (fun m f -> Z.max m (sf_number f)) fields Z0

(** val set_nth : val0 list -> nat -> val0 -> val0 list **)

let rec set_nth vs i v =
  match vs with
  | [] -> []
  | x :: r -> (match i with
               | O -> v :: r
               | S i' -> x :: (set_nth r i' v))

(** val decode : nat -> codec -> bytes -> val0 -> z -> dres **)

let rec decode fuel c b old flags =
  match fuel with
  | O -> OutOfFuel
  | S fuel' ->
    (match c with
     | CBool ->
       if Z.eqb (len b) Z0
       then dret Z0 (Some Proto_ErrUnexpectedEOF) old
       else dret (Zpos XH) None (VBool (negb (Z.eqb (at_ b Z0) Z0)))
     | CInt ->
       let (p, err) = proto_decodeVarint b in
       let (v, n0) = p in dret n0 err (VInt (proto_flags_int64 flags v))
     | CInt32 ->
       let (p, err) = proto_decodeVarint b in
       let (u, n0) = p in
       let v = proto_flags_int64 flags u in
       if (||)
            (Z.ltb v (Zneg (XO (XO (XO (XO (XO (XO (XO (XO (XO (XO (XO (XO
              (XO (XO (XO (XO (XO (XO (XO (XO (XO (XO (XO (XO (XO (XO (XO (XO
              (XO (XO (XO XH)))))))))))))))))))))))))))))))))
            (Z.gtb v (Zpos (XI (XI (XI (XI (XI (XI (XI (XI (XI (XI (XI (XI
              (XI (XI (XI (XI (XI (XI (XI (XI (XI (XI (XI (XI (XI (XI (XI (XI
              (XI (XI XH))))))))))))))))))))))))))))))))
       then dret n0 err_overflow old
       else dret n0 err (VInt v)
     | CInt64 ->
       let (p, err) = proto_decodeVarint b in
       let (v, n0) = p in dret n0 err (VInt (proto_flags_int64 flags v))
     | CUint ->
       let (p, err) = proto_decodeVarint b in
       let (v, n0) = p in dret n0 err (VInt v)
     | CUint32 ->
       let (p, err) = proto_decodeVarint b in
       let (v, n0) = p in
       if Z.gtb v (Zpos (XI (XI (XI (XI (XI (XI (XI (XI (XI (XI (XI (XI (XI
            (XI (XI (XI (XI (XI (XI (XI (XI (XI (XI (XI (XI (XI (XI (XI (XI
            (XI (XI XH))))))))))))))))))))))))))))))))
       then dret n0 err_overflow old
       else dret n0 err (VInt v)
     | CUint64 ->
       let (p, err) = proto_decodeVarint b in
       let (v, n0) = p in dret n0 err (VInt v)
     | CFixed32 ->
       let (p, err) = proto_decodeLE32 b in
       let (v, n0) = p in dret n0 err (VInt v)
     | CFloat32 ->
       let (p, err) = proto_decodeLE32 b in
       let (v, n0) = p in dret n0 err (VInt v)
     | CString ->
       let (p, err) = proto_decodeVarlen b in
       let (v, n0) = p in dret n0 err (VStr v)
     | CBytes ->
       let (p, err) = proto_decodeVarlen b in
       let (v, n0) = p in dret n0 err (VBytes (true, v))
     | CByteArray sz ->
       let (p, err) = proto_decodeVarlen b in
       let (v, r) = p in
       (match err with
        | Some _ -> dret r err old
        | None ->
          let oldb = match old with
                     | VArr s -> s
                     | _ -> repeat Z0 sz in
          let cnt = Z.min (Z.of_nat sz) (len v) in
          let newv = VArr (app (slice_to v cnt) (slice_from oldb cnt)) in
          if negb (Z.eqb cnt (Z.of_nat sz))
          then dret r err_mismatch newv
          else dret r None newv)
     | CPtr (t, c') ->
       let cur =
         match old with
         | VPtr o -> (match o with
                      | Some x -> x
                      | None -> zero_val t)
         | _ -> zero_val t
       in
       rbind (decode fuel' c' b cur flags) (fun pat ->
         let (p, v) = pat in let (n0, err) = p in dret n0 err (VPtr (Some v)))
     | CStruct (_, fields) ->
       let vs =
         match old with
         | VBool _ -> []
         | VInt _ -> []
         | VStr _ -> []
         | VBytes (_, _) -> []
         | VArr _ -> []
         | VPtr _ -> []
         | VStruct vs -> vs
         | _ -> []
       in
       let flags0 = without flags proto_toplevel in
       let maxn = max_number fields in
       let rec loop fuel0 offset vs0 =
         match fuel0 with
         | O -> OutOfFuel
         | S fuel'' ->
           if negb (Z.ltb offset (len b))
           then dret offset None (VStruct vs0)
           else rbind (cfrom b offset) (fun w ->
                  let (p, err) = proto_decodeTag w in
                  let (p0, n0) = p in
                  let (fieldNumber, wireType) = p0 in
                  let offset0 = Z.add offset n0 in
                  (match err with
                   | Some _ -> dret offset0 err (VStruct vs0)
                   | None ->
                     let fo =
                       if (&&)
                            ((&&) (Z.leb Z0 fieldNumber)
                              (Z.ltb fieldNumber (Z.add maxn (Zpos XH))))
                            (Z.ltb fieldNumber
                              (Z.pow (Zpos (XO XH)) (Zpos (XI (XI (XI (XI (XI
                                XH))))))))
                       then nth_field fields vs0 fieldNumber
                       else None
                     in
                     (match fo with
                      | Some p1 ->
                        let (i, f) = p1 in
                        if negb (Z.eqb wireType (wire (sf_codec f)))
                        then dret offset0 err_mismatch (VStruct vs0)
                        else rbind (cfrom b offset0) (fun w0 ->
                               let win =
                                 if Z.eqb wireType proto_varint
                                 then let (p2, e) = proto_decodeVarint w0 in
                                      let (_, n1) = p2 in
                                      (match e with
                                       | Some _ -> Ok ((None, offset0), e)
                                       | None ->
                                         Ok (((Some (offset0,
                                           (Z.add offset0 n1))), offset0),
                                           None))
                                 else if Z.eqb wireType proto_varlen
                                      then let (p2, e) = proto_decodeVarint w0
                                           in
                                           let (l, n1) = p2 in
                                           (match e with
                                            | Some _ ->
                                              Ok ((None, (Z.add offset0 n1)),
                                                e)
                                            | None ->
                                              if Z.gtb l
                                                   (w64
                                                     (Z.sub (len b)
                                                       (Z.add offset0 n1)))
                                              then Ok ((None, (len b)), (Some
                                                     Proto_ErrUnexpectedEOF))
                                              else if sf_embedded f
                                                   then Ok (((Some
                                                          ((Z.add offset0 n1),
                                                          (Z.add
                                                            (Z.add offset0 n1)
                                                            (s64 l)))),
                                                          (Z.add offset0 n1)),
                                                          None)
                                                   else Ok (((Some (offset0,
                                                          (Z.add
                                                            (Z.add offset0 n1)
                                                            (s64 l)))),
                                                          offset0), None))
                                      else if Z.eqb wireType proto_fixed32
                                           then if Z.gtb
                                                     (Z.add offset0 (Zpos (XO
                                                       (XO XH)))) (len b)
                                                then Ok ((None, (len b)),
                                                       (Some
                                                       Proto_ErrUnexpectedEOF))
                                                else Ok (((Some (offset0,
                                                       (Z.add offset0 (Zpos
                                                         (XO (XO XH)))))),
                                                       offset0), None)
                                           else if Z.eqb wireType
                                                     proto_fixed64
                                                then if Z.gtb
                                                          (Z.add offset0
                                                            (Zpos (XO (XO (XO
                                                            XH))))) (len b)
                                                     then Ok ((None,
                                                            (len b)), (Some
                                                            Proto_ErrUnexpectedEOF))
                                                     else Ok (((Some
                                                            (offset0,
                                                            (Z.add offset0
                                                              (Zpos (XO (XO
                                                              (XO XH))))))),
                                                            offset0), None)
                                                else Ok ((None, offset0),
                                                       (Some
                                                       Proto_ErrWireTypeUnknown))
                               in
                               rbind win (fun pat ->
                                 let (p2, err0) = pat in
                                 let (range, offset1) = p2 in
                                 (match range with
                                  | Some p3 ->
                                    let (lo, hi) = p3 in
                                    rbind (cslice b lo hi) (fun data ->
                                      let oldf =
                                        nth i vs0 (zero_val (sf_ty f))
                                      in
                                      rbind
                                        (decode fuel' (sf_codec f) data oldf
                                          (make_flags f flags0)) (fun pat0 ->
                                        let (p4, newf) = pat0 in
                                        let (n1, err1) = p4 in
                                        let offset2 = Z.add offset1 n1 in
                                        let vs1 = set_nth vs0 i newf in
                                        (match err1 with
                                         | Some _ ->
                                           dret offset2 err1 (VStruct vs1)
                                         | None -> loop fuel'' offset2 vs1)))
                                  | None -> dret offset1 err0 (VStruct vs0))))
                      | None ->
                        rbind (cfrom b offset0) (fun w0 ->
                          if Z.eqb wireType proto_varint
                          then let (p1, e) = proto_decodeVarint w0 in
                               let (_, s) = p1 in
                               if Z.leb (s64 (Z.add offset0 s)) (len b)
                               then let offset1 = s64 (Z.add offset0 s) in
                                    (match e with
                                     | Some _ -> dret offset1 e (VStruct vs0)
                                     | None -> loop fuel'' offset1 vs0)
                               else let offset1 = len b in
                                    let err0 = Some Proto_ErrUnexpectedEOF in
                                    (match err0 with
                                     | Some _ ->
                                       dret offset1 err0 (VStruct vs0)
                                     | None -> loop fuel'' offset1 vs0)
                          else if Z.eqb wireType proto_varlen
                               then let (p1, e) = proto_decodeVarint w0 in
                                    let (size0, s) = p1 in
                                    (match e with
                                     | Some _ ->
                                       if Z.leb (s64 (Z.add offset0 s))
                                            (len b)
                                       then let offset1 =
                                              s64 (Z.add offset0 s)
                                            in
                                            (match e with
                                             | Some _ ->
                                               dret offset1 e (VStruct vs0)
                                             | None -> loop fuel'' offset1 vs0)
                                       else let offset1 = len b in
                                            let err0 = Some
                                              Proto_ErrUnexpectedEOF
                                            in
                                            (match err0 with
                                             | Some _ ->
                                               dret offset1 err0 (VStruct vs0)
                                             | None -> loop fuel'' offset1 vs0)
                                     | None ->
                                       if Z.gtb size0 (w64 (Z.sub (len b) s))
                                       then let err0 = Some
                                              Proto_ErrUnexpectedEOF
                                            in
                                            if Z.leb (s64 (Z.add offset0 s))
                                                 (len b)
                                            then let offset1 =
                                                   s64 (Z.add offset0 s)
                                                 in
                                                 (match err0 with
                                                  | Some _ ->
                                                    dret offset1 err0
                                                      (VStruct vs0)
                                                  | None ->
                                                    loop fuel'' offset1 vs0)
                                            else let offset1 = len b in
                                                 let err1 = Some
                                                   Proto_ErrUnexpectedEOF
                                                 in
                                                 (match err1 with
                                                  | Some _ ->
                                                    dret offset1 err1
                                                      (VStruct vs0)
                                                  | None ->
                                                    loop fuel'' offset1 vs0)
                                       else let skip = Z.add s (s64 size0) in
                                            let err0 = None in
                                            if Z.leb
                                                 (s64 (Z.add offset0 skip))
                                                 (len b)
                                            then let offset1 =
                                                   s64 (Z.add offset0 skip)
                                                 in
                                                 (match err0 with
                                                  | Some _ ->
                                                    dret offset1 err0
                                                      (VStruct vs0)
                                                  | None ->
                                                    loop fuel'' offset1 vs0)
                                            else let offset1 = len b in
                                                 let err1 = Some
                                                   Proto_ErrUnexpectedEOF
                                                 in
                                                 (match err1 with
                                                  | Some _ ->
                                                    dret offset1 err1
                                                      (VStruct vs0)
                                                  | None ->
                                                    loop fuel'' offset1 vs0))
                               else if Z.eqb wireType proto_fixed32
                                    then let (p1, e) = proto_decodeLE32 w0 in
                                         let (_, s) = p1 in
                                         if Z.leb (s64 (Z.add offset0 s))
                                              (len b)
                                         then let offset1 =
                                                s64 (Z.add offset0 s)
                                              in
                                              (match e with
                                               | Some _ ->
                                                 dret offset1 e (VStruct vs0)
                                               | None ->
                                                 loop fuel'' offset1 vs0)
                                         else let offset1 = len b in
                                              let err0 = Some
                                                Proto_ErrUnexpectedEOF
                                              in
                                              (match err0 with
                                               | Some _ ->
                                                 dret offset1 err0 (VStruct
                                                   vs0)
                                               | None ->
                                                 loop fuel'' offset1 vs0)
                                    else if Z.eqb wireType proto_fixed64
                                         then let (p1, e) =
                                                proto_decodeLE64 w0
                                              in
                                              let (_, s) = p1 in
                                              if Z.leb
                                                   (s64 (Z.add offset0 s))
                                                   (len b)
                                              then let offset1 =
                                                     s64 (Z.add offset0 s)
                                                   in
                                                   (match e with
                                                    | Some _ ->
                                                      dret offset1 e (VStruct
                                                        vs0)
                                                    | None ->
                                                      loop fuel'' offset1 vs0)
                                              else let offset1 = len b in
                                                   let err0 = Some
                                                     Proto_ErrUnexpectedEOF
                                                   in
                                                   (match err0 with
                                                    | Some _ ->
                                                      dret offset1 err0
                                                        (VStruct vs0)
                                                    | None ->
                                                      loop fuel'' offset1 vs0)
                                         else let skip = Z0 in
                                              let err0 = Some
                                                Proto_ErrWireTypeUnknown
                                              in
                                              if Z.leb
                                                   (s64 (Z.add offset0 skip))
                                                   (len b)
                                              then let offset1 =
                                                     s64 (Z.add offset0 skip)
                                                   in
                                                   (match err0 with
                                                    | Some _ ->
                                                      dret offset1 err0
                                                        (VStruct vs0)
                                                    | None ->
                                                      loop fuel'' offset1 vs0)
                                              else let offset1 = len b in
                                                   let err1 = Some
                                                     Proto_ErrUnexpectedEOF
                                                   in
                                                   (match err1 with
                                                    | Some _ ->
                                                      dret offset1 err1
                                                        (VStruct vs0)
                                                    | None ->
                                                      loop fuel'' offset1 vs0)))))
       in loop fuel' Z0 vs
     | CSlice (_, _, _, et, c') ->
       let es =
         match old with
         | VBool _ -> []
         | VInt _ -> []
         | VStr _ -> []
         | VBytes (_, _) -> []
         | VArr _ -> []
         | VPtr _ -> []
         | VStruct _ -> []
         | VSlice es -> es
         | _ -> []
       in
       rbind (decode fuel' c' b (zero_val et) proto_noflags) (fun pat ->
         let (p, v) = pat in
         let (n0, err) = p in
         (match err with
          | Some _ -> dret n0 err old
          | None -> dret n0 None (VSlice (app es (v :: [])))))
     | CMap (_, _, _, kt, vt, _, _) ->
       let es =
         match old with
         | VBool _ -> []
         | VInt _ -> []
         | VStr _ -> []
         | VBytes (_, _) -> []
         | VArr _ -> []
         | VPtr _ -> []
         | VStruct _ -> []
         | VSlice _ -> []
         | VMap (_, es) -> es
         | VRaw (_, _) -> []
       in
       if Z.eqb (len b) Z0
       then dret Z0 None (VMap (true, es))
       else let st = TStruct ((GField (true, None, kt)) :: ((GField (true,
              None, vt)) :: []))
            in
            rbind (decode fuel' (codec_of st) b (zero_val st) proto_noflags)
              (fun pat ->
              let (p, kv) = pat in
              let (n0, err) = p in
              (match err with
               | Some _ -> dret n0 err (VMap (true, es))
               | None ->
                 (match kv with
                  | VStruct fs ->
                    (match fs with
                     | [] -> dret n0 err (VMap (true, es))
                     | k :: l ->
                       (match l with
                        | [] -> dret n0 err (VMap (true, es))
                        | v :: l0 ->
                          (match l0 with
                           | [] ->
                             dret n0 None (VMap (true, (map_assign es k v)))
                           | _ :: _ -> dret n0 err (VMap (true, es)))))
                  | _ -> dret n0 err (VMap (true, es)))))
     | CMessage ->
       if has flags proto_toplevel
       then dret (len b) None (VRaw (true, b))
       else let (p, err) = proto_decodeVarlen b in
            let (v, n0) = p in
            (match err with
             | Some _ -> dret n0 err old
             | None -> dret n0 None (VRaw (true, v)))
     | CUnsupported -> Panic
     | _ ->
       let (p, err) = proto_decodeLE64 b in
       let (v, n0) = p in dret n0 err (VInt v))

(** val top_flags : z **)

let top_flags =
  Z.coq_lor proto_inline proto_toplevel

(** val marshal : gty -> val0 -> bytes option res **)

let marshal t v =
  let c = codec_of t in
  let n0 = size_of c (Some v) top_flags in
  if Z.ltb n0 Z0
  then Panic
  else rbind (encode c (repeat Z0 (Z.to_nat n0)) (Some v) top_flags)
         (fun pat ->
         let (p, b) = pat in
         let (_, err) = p in
         (match err with
          | Some _ -> Ok None
          | None -> Ok (Some b)))

(** val unmarshal : nat -> gty -> bytes -> val0 -> val0 option res **)

let unmarshal fuel t b old =
  if Z.eqb (len b) Z0
  then Ok (Some (zero_val t))
  else rbind (decode fuel (codec_of t) b old proto_toplevel) (fun pat ->
         let (p, v) = pat in
         let (n0, err) = p in
         (match err with
          | Some _ -> Ok None
          | None -> if Z.ltb n0 (len b) then Ok None else Ok (Some v)))

(** val varint_fuel : nat -> z -> bytes **)

let rec varint_fuel fuel v =
  match fuel with
  | O -> []
  | S f ->
    if Z.ltb v (Zpos (XO (XO (XO (XO (XO (XO (XO XH))))))))
    then v :: []
    else (Z.add (Z.modulo v (Zpos (XO (XO (XO (XO (XO (XO (XO XH)))))))))
           (Zpos (XO (XO (XO (XO (XO (XO (XO XH))))))))) :: (varint_fuel f
                                                              (Z.div v (Zpos
                                                                (XO (XO (XO
                                                                (XO (XO (XO
                                                                (XO
                                                                XH))))))))))

(** val varint : z -> bytes **)

let varint v =
  varint_fuel (S (S (S (S (S (S (S (S (S (S O)))))))))) v

(** val zigzag : z -> z **)

let zigzag v =
  if Z.leb Z0 v
  then Z.mul (Zpos (XO XH)) v
  else Z.sub (Z.mul (Zneg (XO XH)) v) (Zpos XH)

(** val unzigzag : z -> z **)

let unzigzag u =
  if Z.even u
  then Z.div u (Zpos (XO XH))
  else Z.opp (Z.div (Z.add u (Zpos XH)) (Zpos (XO XH)))

(** val elem_ok : gty -> bool **)

let rec elem_ok = function
| TPtr t' -> elem_ok t'
| TStruct fs ->
  let rec go = function
  | [] -> true
  | g :: r ->
    let GField (e, _, ft) = g in
    (&&)
      ((&&) e
        (match ft with
         | TSlice et -> elem_ok et
         | TMap (kt, vt) ->
           (&&)
             (match kt with
              | TBool -> true
              | TInt -> true
              | TInt32 -> true
              | TInt64 -> true
              | TUint -> true
              | TUint32 -> true
              | TUint64 -> true
              | TString -> true
              | _ -> false) (elem_ok vt)
         | _ -> elem_ok ft)) (go r)
  in go fs
| TSlice _ -> false
| TMap (_, _) -> false
| _ -> true

(** val type_ok : gty -> bool **)

let type_ok =
  elem_ok

(** val distinct : z list -> bool **)

let rec distinct = function
| [] -> true
| x :: r -> (&&) (negb (existsb (Z.eqb x) r)) (distinct r)

(** val numbers_ok : codec -> bool **)

let rec numbers_ok = function
| CPtr (_, c') -> numbers_ok c'
| CStruct (_, fs) ->
  (&&) (distinct (map sf_number fs))
    (let rec go = function
     | [] -> true
     | s :: r ->
       let SField (n0, _, _, _, c') = s in
       (&&)
         ((&&)
           ((&&) (Z.leb (Zpos XH) n0)
             (Z.ltb n0 (Z.pow (Zpos (XO XH)) (Zpos (XO (XO (XO (XO XH))))))))
           (numbers_ok c')) (go r)
     in go fs)
| CSlice (n0, _, _, _, c') ->
  (&&)
    ((&&) (Z.leb (Zpos XH) n0)
      (Z.ltb n0 (Z.pow (Zpos (XO XH)) (Zpos (XO (XO (XO (XO XH))))))))
    (numbers_ok c')
| CMap (n0, _, _, _, _, k, v) ->
  (&&)
    ((&&)
      ((&&) (Z.leb (Zpos XH) n0)
        (Z.ltb n0 (Z.pow (Zpos (XO XH)) (Zpos (XO (XO (XO (XO XH))))))))
      (numbers_ok k)) (numbers_ok v)
| CUnsupported -> false
| _ -> true

(** val lim : z **)

let lim =
  Z.pow (Zpos (XO XH)) (Zpos (XI (XI (XI (XI XH)))))

(** val wf_val : gty -> val0 -> bool **)

let rec wf_val t v =
  match t with
  | TBool -> (match v with
              | VBool _ -> true
              | _ -> false)
  | TInt ->
    (match v with
     | VInt z0 ->
       (&&)
         (Z.leb
           (Z.opp (Z.pow (Zpos (XO XH)) (Zpos (XI (XI (XI (XI (XI XH))))))))
           z0)
         (Z.ltb z0 (Z.pow (Zpos (XO XH)) (Zpos (XI (XI (XI (XI (XI XH))))))))
     | _ -> false)
  | TInt32 ->
    (match v with
     | VInt z0 ->
       (&&)
         (Z.leb (Z.opp (Z.pow (Zpos (XO XH)) (Zpos (XI (XI (XI (XI XH)))))))
           z0) (Z.ltb z0 (Z.pow (Zpos (XO XH)) (Zpos (XI (XI (XI (XI XH)))))))
     | _ -> false)
  | TInt64 ->
    (match v with
     | VInt z0 ->
       (&&)
         (Z.leb
           (Z.opp (Z.pow (Zpos (XO XH)) (Zpos (XI (XI (XI (XI (XI XH))))))))
           z0)
         (Z.ltb z0 (Z.pow (Zpos (XO XH)) (Zpos (XI (XI (XI (XI (XI XH))))))))
     | _ -> false)
  | TUint32 ->
    (match v with
     | VInt z0 ->
       (&&) (Z.leb Z0 z0)
         (Z.ltb z0 (Z.pow (Zpos (XO XH)) (Zpos (XO (XO (XO (XO (XO XH))))))))
     | _ -> false)
  | TFloat32 ->
    (match v with
     | VInt z0 ->
       (&&) (Z.leb Z0 z0)
         (Z.ltb z0 (Z.pow (Zpos (XO XH)) (Zpos (XO (XO (XO (XO (XO XH))))))))
     | _ -> false)
  | TString ->
    (match v with
     | VStr s -> (&&) (wfb s) (Z.ltb (len s) lim)
     | _ -> false)
  | TBytes ->
    (match v with
     | VBytes (nn, s) ->
       (&&) ((&&) (wfb s) (Z.ltb (len s) lim)) ((||) nn (Z.eqb (len s) Z0))
     | _ -> false)
  | TByteArray n0 ->
    (match v with
     | VArr s ->
       (&&) ((&&) (wfb s) (Z.eqb (len s) (Z.of_nat n0))) (Z.ltb (len s) lim)
     | _ -> false)
  | TPtr t' ->
    (match v with
     | VPtr o -> (match o with
                  | Some x -> wf_val t' x
                  | None -> true)
     | _ -> false)
  | TStruct fs ->
    (match v with
     | VStruct vs ->
       let rec go fs0 vs0 =
         match fs0 with
         | [] -> (match vs0 with
                  | [] -> true
                  | _ :: _ -> false)
         | g :: fr ->
           let GField (_, _, ft) = g in
           (match vs0 with
            | [] -> false
            | x :: vr -> (&&) (wf_val ft x) (go fr vr))
       in go fs vs
     | _ -> false)
  | TSlice et ->
    (match v with
     | VSlice es ->
       (&&) (Z.ltb (len es) lim)
         (let rec go = function
          | [] -> true
          | x :: r -> (&&) (wf_val et x) (go r)
          in go es)
     | _ -> false)
  | TMap (kt, vt) ->
    (match v with
     | VMap (nn, es) ->
       (&&) ((&&) (Z.ltb (len es) lim) ((||) nn (Z.eqb (len es) Z0)))
         (let rec go = function
          | [] -> true
          | p :: r ->
            let (k, x) = p in (&&) ((&&) (wf_val kt k) (wf_val vt x)) (go r)
          in go es)
     | _ -> false)
  | TRawMessage ->
    (match v with
     | VRaw (nn, s) ->
       (&&) ((&&) (wfb s) (Z.ltb (len s) lim)) ((||) nn (Z.eqb (len s) Z0))
     | _ -> false)
  | _ ->
    (match v with
     | VInt z0 ->
       (&&) (Z.leb Z0 z0)
         (Z.ltb z0
           (Z.pow (Zpos (XO XH)) (Zpos (XO (XO (XO (XO (XO (XO XH)))))))))
     | _ -> false)

(** val norm : val0 -> val0 **)

let rec norm v = match v with
| VBytes (_, s) -> VBytes (true, s)
| VPtr o -> (match o with
             | Some x -> VPtr (Some (norm x))
             | None -> v)
| VStruct vs -> VStruct (map norm vs)
| VSlice es -> VSlice (map norm es)
| VMap (_, es) ->
  VMap (true, (map (fun kv -> ((norm (fst kv)), (norm (snd kv)))) es))
| VRaw (_, s) -> VRaw (true, s)
| _ -> v

type pscalar =
| PInt32
| PInt64
| PUint32
| PUint64
| PSint32
| PSint64
| PBool
| PFixed32
| PFixed64
| PSfixed32
| PSfixed64
| PFloat
| PDouble
| PString
| PBytes

type plabel =
| LOpt
| LRep
| LMap of pscalar

type ptype =
| PSc of pscalar
| PMsg of pfield list
and pfield =
| PField of z * plabel * ptype

(** val pf_num : pfield -> z **)

let pf_num = function
| PField (n0, _, _) -> n0

(** val pf_lab : pfield -> plabel **)

let pf_lab = function
| PField (_, l, _) -> l

type pval =
| PVInt of z
| PVBool of bool
| PVBytes of bytes
| PVMsg of fval list
and fval =
| FAbsent
| FOne of pval
| FRep of pval list
| FMapv of (pval * pval) list

(** val default_scalar : pscalar -> pval **)

let default_scalar = function
| PBool -> PVBool false
| PString -> PVBytes []
| PBytes -> PVBytes []
| _ -> PVInt Z0

(** val default_fval : plabel -> fval **)

let default_fval = function
| LOpt -> FAbsent
| LRep -> FRep []
| LMap _ -> FMapv []

(** val default_msg : pfield list -> fval list **)

let default_msg fs =
  map (fun f -> default_fval (pf_lab f)) fs

(** val default_pval : ptype -> pval **)

let default_pval = function
| PSc s -> default_scalar s
| PMsg fs -> PVMsg (default_msg fs)

(** val wt_of : pscalar -> z **)

let wt_of = function
| PFixed32 -> Zpos (XI (XO XH))
| PFixed64 -> Zpos XH
| PSfixed32 -> Zpos (XI (XO XH))
| PSfixed64 -> Zpos XH
| PFloat -> Zpos (XI (XO XH))
| PDouble -> Zpos XH
| PString -> Zpos (XO XH)
| PBytes -> Zpos (XO XH)
| _ -> Z0

type wval =
| WVarint of z * z
| WFix64 of z
| WLen of bytes
| WFix32 of z

(** val get_varint_k : nat -> bytes -> ((z * z) * bytes) option **)

let rec get_varint_k k b =
  match k with
  | O -> None
  | S k' ->
    (match b with
     | [] -> None
     | c :: r ->
       if Z.ltb c (Zpos (XO (XO (XO (XO (XO (XO (XO XH))))))))
       then if (&&) (Nat.eqb k' O) (Z.ltb (Zpos XH) c)
            then None
            else Some ((c, (Zpos XH)), r)
       else (match get_varint_k k' r with
             | Some p ->
               let (p0, r') = p in
               let (v, n0) = p0 in
               Some
               (((Z.add
                   (Z.sub c (Zpos (XO (XO (XO (XO (XO (XO (XO XH)))))))))
                   (Z.mul (Zpos (XO (XO (XO (XO (XO (XO (XO XH)))))))) v)),
               (Z.add n0 (Zpos XH))), r')
             | None -> None))

(** val get_varint : bytes -> ((z * z) * bytes) option **)

let get_varint b =
  get_varint_k (S (S (S (S (S (S (S (S (S (S O)))))))))) b

(** val le_val : bytes -> z **)

let rec le_val = function
| [] -> Z0
| c :: r ->
  Z.add c (Z.mul (Zpos (XO (XO (XO (XO (XO (XO (XO (XO XH))))))))) (le_val r))

(** val max_field_number : z **)

let max_field_number =
  Z.sub (Z.pow (Zpos (XO XH)) (Zpos (XI (XO (XI (XI XH)))))) (Zpos XH)

(** val get_record : bytes -> ((z * wval) * bytes) option **)

let get_record b =
  match get_varint b with
  | Some p ->
    let (p0, r) = p in
    let (tg, _) = p0 in
    let num = Z.div tg (Zpos (XO (XO (XO XH)))) in
    if (||) (Z.ltb num (Zpos XH)) (Z.ltb max_field_number num)
    then None
    else let wt = Z.modulo tg (Zpos (XO (XO (XO XH)))) in
         if Z.eqb wt Z0
         then (match get_varint r with
               | Some p1 ->
                 let (p2, r') = p1 in
                 let (z0, n0) = p2 in Some ((num, (WVarint (z0, n0))), r')
               | None -> None)
         else if Z.eqb wt (Zpos XH)
              then if Z.ltb (len r) (Zpos (XO (XO (XO XH))))
                   then None
                   else Some ((num, (WFix64
                          (le_val
                            (firstn (S (S (S (S (S (S (S (S O)))))))) r)))),
                          (skipn (S (S (S (S (S (S (S (S O)))))))) r))
              else if Z.eqb wt (Zpos (XO XH))
                   then (match get_varint r with
                         | Some p1 ->
                           let (p2, r') = p1 in
                           let (l, _) = p2 in
                           if Z.ltb (len r') l
                           then None
                           else Some ((num, (WLen (firstn (Z.to_nat l) r'))),
                                  (skipn (Z.to_nat l) r'))
                         | None -> None)
                   else if Z.eqb wt (Zpos (XI (XO XH)))
                        then if Z.ltb (len r) (Zpos (XO (XO XH)))
                             then None
                             else Some ((num, (WFix32
                                    (le_val (firstn (S (S (S (S O)))) r)))),
                                    (skipn (S (S (S (S O)))) r))
                        else None
  | None -> None

(** val parse_records : nat -> bytes -> (z * wval) list option **)

let rec parse_records fuel b = match b with
| [] -> Some []
| _ :: _ ->
  (match fuel with
   | O -> None
   | S f ->
     (match get_record b with
      | Some p ->
        let (p0, r) = p in
        (match parse_records f r with
         | Some l -> Some (p0 :: l)
         | None -> None)
      | None -> None))

(** val records : bytes -> (z * wval) list option **)

let records b =
  parse_records (length b) b

type dialect = { strict_bool : bool; strict_32 : bool; strict_wire : 
                 bool; drop_empty_entry : bool }

(** val std : dialect **)

let std =
  { strict_bool = false; strict_32 = false; strict_wire = false;
    drop_empty_entry = false }

(** val pkgd : dialect **)

let pkgd =
  { strict_bool = true; strict_32 = true; strict_wire = true;
    drop_empty_entry = true }

type 'a res3 =
| Upd of 'a
| Unk
| Bad

(** val in_i32 : z -> bool **)

let in_i32 z0 =
  (&&)
    (Z.leb (Z.opp (Z.pow (Zpos (XO XH)) (Zpos (XI (XI (XI (XI XH))))))) z0)
    (Z.ltb z0 (Z.pow (Zpos (XO XH)) (Zpos (XI (XI (XI (XI XH)))))))

(** val mismatch : dialect -> 'a1 res3 **)

let mismatch d =
  if d.strict_wire then Bad else Unk

(** val dec_scalar : dialect -> pscalar -> wval -> pval res3 **)

let dec_scalar d s w =
  match s with
  | PInt32 ->
    (match w with
     | WVarint (z0, _) ->
       if (&&) d.strict_32 (negb (in_i32 (s64 z0)))
       then Bad
       else Upd (PVInt (s32 z0))
     | _ -> mismatch d)
  | PInt64 ->
    (match w with
     | WVarint (z0, _) -> Upd (PVInt (s64 z0))
     | _ -> mismatch d)
  | PUint32 ->
    (match w with
     | WVarint (z0, _) ->
       if (&&) d.strict_32
            (negb
              (Z.ltb z0
                (Z.pow (Zpos (XO XH)) (Zpos (XO (XO (XO (XO (XO XH)))))))))
       then Bad
       else Upd (PVInt (w32 z0))
     | _ -> mismatch d)
  | PUint64 ->
    (match w with
     | WVarint (z0, _) -> Upd (PVInt z0)
     | _ -> mismatch d)
  | PSint32 ->
    (match w with
     | WVarint (z0, _) ->
       if (&&) d.strict_32
            (negb
              (Z.ltb z0
                (Z.pow (Zpos (XO XH)) (Zpos (XO (XO (XO (XO (XO XH)))))))))
       then Bad
       else Upd (PVInt (unzigzag (w32 z0)))
     | _ -> mismatch d)
  | PSint64 ->
    (match w with
     | WVarint (z0, _) -> Upd (PVInt (unzigzag z0))
     | _ -> mismatch d)
  | PBool ->
    (match w with
     | WVarint (z0, n0) ->
       if (&&) d.strict_bool (negb (Z.eqb n0 (Zpos XH)))
       then Bad
       else Upd (PVBool (negb (Z.eqb z0 Z0)))
     | _ -> mismatch d)
  | PFixed32 -> (match w with
                 | WFix32 z0 -> Upd (PVInt z0)
                 | _ -> mismatch d)
  | PFixed64 -> (match w with
                 | WFix64 z0 -> Upd (PVInt z0)
                 | _ -> mismatch d)
  | PSfixed32 ->
    (match w with
     | WFix32 z0 -> Upd (PVInt (s32 z0))
     | _ -> mismatch d)
  | PSfixed64 ->
    (match w with
     | WFix64 z0 -> Upd (PVInt (s64 z0))
     | _ -> mismatch d)
  | PFloat -> (match w with
               | WFix32 z0 -> Upd (PVInt z0)
               | _ -> mismatch d)
  | PDouble -> (match w with
                | WFix64 z0 -> Upd (PVInt z0)
                | _ -> mismatch d)
  | _ -> (match w with
          | WLen s0 -> Upd (PVBytes s0)
          | _ -> mismatch d)

(** val packable : ptype -> pscalar option **)

let packable = function
| PSc s -> (match s with
            | PString -> None
            | PBytes -> None
            | _ -> Some s)
| PMsg _ -> None

(** val unpack : nat -> dialect -> pscalar -> bytes -> pval list option **)

let rec unpack fuel d s b = match b with
| [] -> Some []
| _ :: _ ->
  (match fuel with
   | O -> None
   | S f ->
     let one =
       if Z.eqb (wt_of s) Z0
       then (match get_varint b with
             | Some p ->
               let (p0, r) = p in
               let (z0, n0) = p0 in Some ((WVarint (z0, n0)), r)
             | None -> None)
       else if Z.eqb (wt_of s) (Zpos XH)
            then if Z.ltb (len b) (Zpos (XO (XO (XO XH))))
                 then None
                 else Some ((WFix64
                        (le_val (firstn (S (S (S (S (S (S (S (S O)))))))) b))),
                        (skipn (S (S (S (S (S (S (S (S O)))))))) b))
            else if Z.ltb (len b) (Zpos (XO (XO XH)))
                 then None
                 else Some ((WFix32 (le_val (firstn (S (S (S (S O)))) b))),
                        (skipn (S (S (S (S O)))) b))
     in
     (match one with
      | Some p ->
        let (w, r) = p in
        (match dec_scalar d s w with
         | Upd v ->
           (match unpack f d s r with
            | Some l -> Some (v :: l)
            | None -> None)
         | _ -> None)
      | None -> None))

(** val pval_eqb : pval -> pval -> bool **)

let pval_eqb a b =
  match a with
  | PVInt x -> (match b with
                | PVInt y -> Z.eqb x y
                | _ -> false)
  | PVBool x -> (match b with
                 | PVBool y -> eqb x y
                 | _ -> false)
  | PVBytes x -> (match b with
                  | PVBytes y -> bytes_eqb x y
                  | _ -> false)
  | PVMsg _ -> false

(** val map_set : (pval * pval) list -> pval -> pval -> (pval * pval) list **)

let rec map_set es k v =
  match es with
  | [] -> (k, v) :: []
  | p :: r ->
    let (k', v') = p in
    if pval_eqb k' k then (k', v) :: r else (k', v') :: (map_set r k v)

(** val entry_fold :
    dialect -> pscalar -> (wval -> pval option -> pval res3) -> (z * wval)
    list -> pval option -> pval option -> (pval option * pval option) option **)

let rec entry_fold d k dv recs ok ov =
  match recs with
  | [] -> Some (ok, ov)
  | p :: rr ->
    let (num, w) = p in
    if Z.eqb num (Zpos XH)
    then (match dec_scalar d k w with
          | Upd v -> entry_fold d k dv rr (Some v) ov
          | Unk -> entry_fold d k dv rr ok ov
          | Bad -> None)
    else if Z.eqb num (Zpos (XO XH))
         then (match dv w ov with
               | Upd v -> entry_fold d k dv rr ok (Some v)
               | Unk -> entry_fold d k dv rr ok ov
               | Bad -> None)
         else entry_fold d k dv rr ok ov

(** val dec_field :
    dialect -> plabel -> ptype -> (wval -> pval option -> pval res3) -> wval
    -> fval -> fval res3 **)

let dec_field d lab ft dv w c =
  match lab with
  | LOpt ->
    (match dv w (match c with
                 | FAbsent -> None
                 | FOne v -> Some v
                 | _ -> None) with
     | Upd v -> Upd (FOne v)
     | Unk -> Unk
     | Bad -> Bad)
  | LRep ->
    let vs =
      match c with
      | FAbsent -> []
      | FOne _ -> []
      | FRep vs -> vs
      | FMapv _ -> []
    in
    (match packable ft with
     | Some s ->
       (match w with
        | WVarint (_, _) ->
          (match dv w None with
           | Upd v -> Upd (FRep (app vs (v :: [])))
           | Unk -> Unk
           | Bad -> Bad)
        | WFix64 _ ->
          (match dv w None with
           | Upd v -> Upd (FRep (app vs (v :: [])))
           | Unk -> Unk
           | Bad -> Bad)
        | WLen payload ->
          if d.strict_wire
          then Bad
          else (match unpack (length payload) d s payload with
                | Some l -> Upd (FRep (app vs l))
                | None -> Bad)
        | WFix32 _ ->
          (match dv w None with
           | Upd v -> Upd (FRep (app vs (v :: [])))
           | Unk -> Unk
           | Bad -> Bad))
     | None ->
       (match dv w None with
        | Upd v -> Upd (FRep (app vs (v :: [])))
        | Unk -> Unk
        | Bad -> Bad))
  | LMap k ->
    let es =
      match c with
      | FAbsent -> []
      | FOne _ -> []
      | FRep _ -> []
      | FMapv es -> es
    in
    (match w with
     | WLen payload ->
       if (&&) d.drop_empty_entry (Z.eqb (len payload) Z0)
       then Upd (FMapv es)
       else (match records payload with
             | Some recs ->
               (match entry_fold d k dv recs None None with
                | Some p ->
                  let (ok, ov) = p in
                  let key =
                    match ok with
                    | Some x -> x
                    | None -> default_scalar k
                  in
                  let val1 =
                    match ov with
                    | Some x -> x
                    | None -> default_pval ft
                  in
                  Upd (FMapv (map_set es key val1))
                | None -> Bad)
             | None -> Bad)
     | _ -> mismatch d)

(** val dec_value : dialect -> ptype -> wval -> pval option -> pval res3 **)

let rec dec_value d t w old =
  match t with
  | PSc s -> dec_scalar d s w
  | PMsg fs ->
    (match w with
     | WLen payload ->
       (match records payload with
        | Some recs ->
          let cur =
            match old with
            | Some p -> (match p with
                         | PVMsg c -> c
                         | _ -> default_msg fs)
            | None -> default_msg fs
          in
          (match let rec go recs0 cur0 =
                   match recs0 with
                   | [] -> Some cur0
                   | p :: rr ->
                     let (num, w') = p in
                     (match let rec upd0 fs0 cur1 =
                              match fs0 with
                              | [] -> Unk
                              | p0 :: fr ->
                                let PField (n0, lab, ft) = p0 in
                                (match cur1 with
                                 | [] -> Unk
                                 | c :: cr ->
                                   if Z.eqb n0 num
                                   then (match dec_field d lab ft
                                                 (dec_value d ft) w' c with
                                         | Upd c' -> Upd (c' :: cr)
                                         | Unk -> Unk
                                         | Bad -> Bad)
                                   else (match upd0 fr cr with
                                         | Upd cr' -> Upd (c :: cr')
                                         | x -> x))
                            in upd0 fs cur0 with
                      | Upd cur' -> go rr cur'
                      | Unk -> go rr cur0
                      | Bad -> None)
                 in go recs cur with
           | Some c' -> Upd (PVMsg c')
           | None -> Bad)
        | None -> Bad)
     | _ -> mismatch d)

(** val spec_decode : dialect -> pfield list -> bytes -> fval list option **)

let spec_decode d fs b =
  match dec_value d (PMsg fs) (WLen b) None with
  | Upd a -> (match a with
              | PVMsg m -> Some m
              | _ -> None)
  | _ -> None

(** val enc_scalar : pscalar -> pval -> bytes **)

let enc_scalar s v =
  match s with
  | PInt32 -> (match v with
               | PVInt z0 -> varint (w64 z0)
               | _ -> [])
  | PInt64 -> (match v with
               | PVInt z0 -> varint (w64 z0)
               | _ -> [])
  | PUint32 -> (match v with
                | PVInt z0 -> varint z0
                | _ -> [])
  | PUint64 -> (match v with
                | PVInt z0 -> varint z0
                | _ -> [])
  | PSint32 -> (match v with
                | PVInt z0 -> varint (zigzag z0)
                | _ -> [])
  | PSint64 -> (match v with
                | PVInt z0 -> varint (zigzag z0)
                | _ -> [])
  | PBool ->
    (match v with
     | PVBool b -> (if b then Zpos XH else Z0) :: []
     | _ -> [])
  | PFixed32 ->
    (match v with
     | PVInt z0 -> le_bytes (S (S (S (S O)))) z0
     | _ -> [])
  | PFixed64 ->
    (match v with
     | PVInt z0 -> le_bytes (S (S (S (S (S (S (S (S O)))))))) z0
     | _ -> [])
  | PSfixed32 ->
    (match v with
     | PVInt z0 -> le_bytes (S (S (S (S O)))) (w32 z0)
     | _ -> [])
  | PSfixed64 ->
    (match v with
     | PVInt z0 -> le_bytes (S (S (S (S (S (S (S (S O)))))))) (w64 z0)
     | _ -> [])
  | PFloat ->
    (match v with
     | PVInt z0 -> le_bytes (S (S (S (S O)))) z0
     | _ -> [])
  | PDouble ->
    (match v with
     | PVInt z0 -> le_bytes (S (S (S (S (S (S (S (S O)))))))) z0
     | _ -> [])
  | _ -> (match v with
          | PVBytes s0 -> app (varint (len s0)) s0
          | _ -> [])

(** val scalar_wf : pscalar -> pval -> bool **)

let scalar_wf s v =
  match s with
  | PInt32 -> (match v with
               | PVInt z0 -> in_i32 z0
               | _ -> false)
  | PInt64 ->
    (match v with
     | PVInt z0 ->
       (&&)
         (Z.leb
           (Z.opp (Z.pow (Zpos (XO XH)) (Zpos (XI (XI (XI (XI (XI XH))))))))
           z0)
         (Z.ltb z0 (Z.pow (Zpos (XO XH)) (Zpos (XI (XI (XI (XI (XI XH))))))))
     | _ -> false)
  | PUint32 ->
    (match v with
     | PVInt z0 ->
       (&&) (Z.leb Z0 z0)
         (Z.ltb z0 (Z.pow (Zpos (XO XH)) (Zpos (XO (XO (XO (XO (XO XH))))))))
     | _ -> false)
  | PSint32 -> (match v with
                | PVInt z0 -> in_i32 z0
                | _ -> false)
  | PSint64 ->
    (match v with
     | PVInt z0 ->
       (&&)
         (Z.leb
           (Z.opp (Z.pow (Zpos (XO XH)) (Zpos (XI (XI (XI (XI (XI XH))))))))
           z0)
         (Z.ltb z0 (Z.pow (Zpos (XO XH)) (Zpos (XI (XI (XI (XI (XI XH))))))))
     | _ -> false)
  | PBool -> (match v with
              | PVBool _ -> true
              | _ -> false)
  | PFixed32 ->
    (match v with
     | PVInt z0 ->
       (&&) (Z.leb Z0 z0)
         (Z.ltb z0 (Z.pow (Zpos (XO XH)) (Zpos (XO (XO (XO (XO (XO XH))))))))
     | _ -> false)
  | PSfixed32 -> (match v with
                  | PVInt z0 -> in_i32 z0
                  | _ -> false)
  | PSfixed64 ->
    (match v with
     | PVInt z0 ->
       (&&)
         (Z.leb
           (Z.opp (Z.pow (Zpos (XO XH)) (Zpos (XI (XI (XI (XI (XI XH))))))))
           z0)
         (Z.ltb z0 (Z.pow (Zpos (XO XH)) (Zpos (XI (XI (XI (XI (XI XH))))))))
     | _ -> false)
  | PFloat ->
    (match v with
     | PVInt z0 ->
       (&&) (Z.leb Z0 z0)
         (Z.ltb z0 (Z.pow (Zpos (XO XH)) (Zpos (XO (XO (XO (XO (XO XH))))))))
     | _ -> false)
  | PString ->
    (match v with
     | PVBytes s0 ->
       (&&) (wfb s0)
         (Z.ltb (len s0) (Z.pow (Zpos (XO XH)) (Zpos (XI (XI (XI (XI XH)))))))
     | _ -> false)
  | PBytes ->
    (match v with
     | PVBytes s0 ->
       (&&) (wfb s0)
         (Z.ltb (len s0) (Z.pow (Zpos (XO XH)) (Zpos (XI (XI (XI (XI XH)))))))
     | _ -> false)
  | _ ->
    (match v with
     | PVInt z0 ->
       (&&) (Z.leb Z0 z0)
         (Z.ltb z0
           (Z.pow (Zpos (XO XH)) (Zpos (XO (XO (XO (XO (XO (XO XH)))))))))
     | _ -> false)

(** val tagv : z -> z -> bytes **)

let tagv num wt =
  varint (Z.add (Z.mul num (Zpos (XO (XO (XO XH))))) wt)

(** val enc_msg : ptype -> pval -> bytes **)

let rec enc_msg t v =
  match t with
  | PSc _ -> []
  | PMsg fs ->
    (match v with
     | PVMsg m ->
       let rec go fs0 m0 =
         match fs0 with
         | [] -> []
         | p :: fr ->
           let PField (n0, lab, ft) = p in
           (match m0 with
            | [] -> []
            | c :: mr ->
              let one = fun v0 ->
                match ft with
                | PSc s -> app (tagv n0 (wt_of s)) (enc_scalar s v0)
                | PMsg _ ->
                  let p0 = enc_msg ft v0 in
                  app (tagv n0 (Zpos (XO XH))) (app (varint (len p0)) p0)
              in
              app
                (match lab with
                 | LOpt -> (match c with
                            | FOne v0 -> one v0
                            | _ -> [])
                 | LRep -> (match c with
                            | FRep vs -> flat_map one vs
                            | _ -> [])
                 | LMap k ->
                   (match c with
                    | FMapv es ->
                      flat_map (fun kv ->
                        let p0 =
                          app (tagv (Zpos XH) (wt_of k))
                            (app (enc_scalar k (fst kv))
                              (match ft with
                               | PSc s ->
                                 app (tagv (Zpos (XO XH)) (wt_of s))
                                   (enc_scalar s (snd kv))
                               | PMsg _ ->
                                 let q = enc_msg ft (snd kv) in
                                 app (tagv (Zpos (XO XH)) (Zpos (XO XH)))
                                   (app (varint (len q)) q)))
                        in
                        app (tagv n0 (Zpos (XO XH)))
                          (app (varint (len p0)) p0)) es
                    | _ -> [])) (go fr mr))
       in go fs m
     | _ -> [])

(** val spec_encode : pfield list -> fval list -> bytes **)

let spec_encode fs m =
  enc_msg (PMsg fs) (PVMsg m)

(** val distinct_keys : (pval * pval) list -> bool **)

let rec distinct_keys = function
| [] -> true
| p :: r ->
  let (k, _) = p in
  (&&) (negb (existsb (fun kv -> pval_eqb (fst kv) k) r)) (distinct_keys r)

(** val msg_wf : ptype -> pval -> bool **)

let rec msg_wf t v =
  match t with
  | PSc s -> scalar_wf s v
  | PMsg fs ->
    (match v with
     | PVMsg m ->
       let rec go fs0 m0 =
         match fs0 with
         | [] -> (match m0 with
                  | [] -> true
                  | _ :: _ -> false)
         | p :: fr ->
           let PField (_, lab, ft) = p in
           (match m0 with
            | [] -> false
            | c :: mr ->
              (&&)
                (match lab with
                 | LOpt ->
                   (match c with
                    | FAbsent -> true
                    | FOne v0 -> msg_wf ft v0
                    | _ -> false)
                 | LRep ->
                   (match c with
                    | FRep vs -> forallb (msg_wf ft) vs
                    | _ -> false)
                 | LMap k ->
                   (match c with
                    | FMapv es ->
                      (&&)
                        (forallb (fun kv ->
                          (&&) (scalar_wf k (fst kv)) (msg_wf ft (snd kv)))
                          es) (distinct_keys es)
                    | _ -> false)) (go fr mr))
       in go fs m
     | _ -> false)

(** val key_ok : pscalar -> bool **)

let key_ok = function
| PFloat -> false
| PDouble -> false
| PBytes -> false
| _ -> true

(** val desc_wf : ptype -> bool **)

let rec desc_wf = function
| PSc _ -> true
| PMsg fs ->
  (&&) (distinct (map pf_num fs))
    (let rec go = function
     | [] -> true
     | p :: fr ->
       let PField (n0, lab, ft) = p in
       (&&)
         ((&&)
           ((&&) ((&&) (Z.leb (Zpos XH) n0) (Z.leb n0 max_field_number))
             (desc_wf ft)) (match lab with
                            | LMap k -> key_ok k
                            | _ -> true)) (go fr)
     in go fs)

(** val tag_zz : ptag option -> bool **)

let tag_zz = function
| Some tg -> tg.tag_zigzag
| None -> false

(** val tag_fx32 : ptag option -> bool **)

let tag_fx32 = function
| Some tg -> Z.eqb tg.tag_wire proto_fixed32
| None -> false

(** val tag_fx64 : ptag option -> bool **)

let tag_fx64 = function
| Some tg -> Z.eqb tg.tag_wire proto_fixed64
| None -> false

(** val scalar_of : gty -> ptag option -> pscalar **)

let scalar_of bt tag =
  match bt with
  | TBool -> PBool
  | TInt -> if tag_zz tag then PSint64 else PInt64
  | TInt32 -> if tag_zz tag then PSint32 else PInt32
  | TInt64 -> if tag_zz tag then PSint64 else PInt64
  | TUint -> PUint64
  | TUint32 -> if tag_fx32 tag then PFixed32 else PUint32
  | TUint64 -> if tag_fx64 tag then PFixed64 else PUint64
  | TFloat32 -> PFloat
  | TFloat64 -> PDouble
  | TString -> PString
  | _ -> PBytes

(** val ptype_of : gty -> ptag option -> ptype **)

let rec ptype_of t tag =
  match t with
  | TPtr t' -> ptype_of t' tag
  | TStruct gfs ->
    PMsg
      (let rec go gfs0 number =
         match gfs0 with
         | [] -> []
         | g :: r ->
           let GField (exported, ftag, ft) = g in
           if exported
           then let num =
                  match ftag with
                  | Some tg -> tg.tag_number
                  | None -> number
                in
                (match ft with
                 | TSlice et -> PField (num, LRep, (ptype_of et ftag))
                 | TMap (kt, vt) ->
                   PField (num, (LMap (scalar_of kt None)),
                     (ptype_of vt None))
                 | _ -> PField (num, LOpt, (ptype_of ft ftag))) :: (go r
                                                                    (Z.add
                                                                    number
                                                                    (Zpos XH)))
           else go r number
       in go gfs (Zpos XH))
  | _ -> PSc (scalar_of t tag)

(** val fields_of : gty -> pfield list **)

let fields_of t =
  match ptype_of t None with
  | PSc _ -> []
  | PMsg fs -> fs

(** val omap : ('a1 -> 'a2 option) -> 'a1 list -> 'a2 list option **)

let rec omap f = function
| [] -> Some []
| x :: r ->
  (match f x with
   | Some y -> (match omap f r with
                | Some ys -> Some (y :: ys)
                | None -> None)
   | None -> None)

(** val of_pval : gty -> pval -> val0 option **)

let rec of_pval t pv =
  match t with
  | TBool -> (match pv with
              | PVBool b -> Some (VBool b)
              | _ -> None)
  | TString -> (match pv with
                | PVBytes s -> Some (VStr s)
                | _ -> None)
  | TBytes -> (match pv with
               | PVBytes s -> Some (VBytes (true, s))
               | _ -> None)
  | TByteArray n0 ->
    (match pv with
     | PVBytes s ->
       if Z.eqb (len s) (Z.of_nat n0) then Some (VArr s) else None
     | _ -> None)
  | TPtr t' ->
    (match of_pval t' pv with
     | Some x -> Some (VPtr (Some x))
     | None -> None)
  | TStruct gfs ->
    (match pv with
     | PVMsg m ->
       (match let rec go gfs0 m0 =
                match gfs0 with
                | [] -> Some []
                | g :: r ->
                  let GField (exported, _, ft) = g in
                  if exported
                  then (match m0 with
                        | [] -> None
                        | c :: mr ->
                          let ov =
                            match ft with
                            | TSlice et ->
                              (match c with
                               | FRep vs ->
                                 (match omap (of_pval et) vs with
                                  | Some l -> Some (VSlice l)
                                  | None -> None)
                               | _ -> None)
                            | TMap (kt, vt) ->
                              (match c with
                               | FMapv es ->
                                 (match omap (fun kv ->
                                          match of_pval kt (fst kv) with
                                          | Some k ->
                                            (match of_pval vt (snd kv) with
                                             | Some x -> Some (k, x)
                                             | None -> None)
                                          | None -> None) es with
                                  | Some l -> Some (VMap (true, l))
                                  | None -> None)
                               | _ -> None)
                            | _ ->
                              (match c with
                               | FAbsent -> Some (zero_val ft)
                               | FOne x -> of_pval ft x
                               | _ -> None)
                          in
                          (match ov with
                           | Some v ->
                             (match go r mr with
                              | Some vs -> Some (v :: vs)
                              | None -> None)
                           | None -> None))
                  else (match go r m0 with
                        | Some vs -> Some ((zero_val ft) :: vs)
                        | None -> None)
              in go gfs m with
        | Some vs -> Some (VStruct vs)
        | None -> None)
     | _ -> None)
  | TSlice _ -> None
  | TMap (_, _) -> None
  | TRawMessage ->
    (match pv with
     | PVBytes s -> Some (VRaw (true, s))
     | _ -> None)
  | _ -> (match pv with
          | PVInt z0 -> Some (VInt z0)
          | _ -> None)

(** val of_msg : gty -> fval list -> val0 option **)

let of_msg t m =
  of_pval t (PVMsg m)

(** val tag_sane : ptag option -> gty -> bool **)

let tag_sane tag ft =
  match tag with
  | Some tg ->
    (&&)
      ((&&) (Z.leb (Zpos XH) tg.tag_number)
        (Z.ltb tg.tag_number
          (Z.pow (Zpos (XO XH)) (Zpos (XO (XO (XO (XO XH))))))))
      (negb
        ((&&)
          ((||) ((||) tg.tag_zigzag (Z.eqb tg.tag_wire proto_fixed32))
            (Z.eqb tg.tag_wire proto_fixed64))
          (match ft with
           | TSlice _ -> true
           | _ -> false)))
  | None -> true

(** val tags_sane : gty -> bool **)

let rec tags_sane = function
| TPtr t' -> tags_sane t'
| TStruct fs ->
  let rec go = function
  | [] -> true
  | g :: r ->
    let GField (_, tag, ft) = g in
    (&&) ((&&) (tag_sane tag ft) (tags_sane ft)) (go r)
  in go fs
| TSlice t' -> tags_sane t'
| TMap (k, v) -> (&&) (tags_sane k) (tags_sane v)
| _ -> true

(** val plain : gty -> bool **)

let rec plain = function
| TByteArray _ -> false
| TPtr t' -> plain t'
| TStruct fs ->
  let rec go = function
  | [] -> true
  | g :: r -> let GField (_, _, ft) = g in (&&) (plain ft) (go r)
  in go fs
| TSlice t' -> plain t'
| TMap (k, v) ->
  (&&) ((&&) (plain k) (plain v)) (match v with
                                   | TPtr _ -> false
                                   | _ -> true)
| TRawMessage -> false
| _ -> true
