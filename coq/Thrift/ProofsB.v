(* Proofs for C04 (round trip, cross protocol) and C08 (prefix / trailing classification) of the thrift model. *)
From Verif Require Import Base.GoInt Thrift.Model Thrift.Spec.
From Coq Require Import ZifyBool.
Open Scope Z_scope.

Lemma t_roundtrip : t_roundtrip_statement.
Admitted.
Lemma t_cross_protocol : t_cross_protocol_statement.
Admitted.
Lemma t_prefix_eof : t_prefix_eof_statement.
Admitted.
Lemma t_trailing : t_trailing_statement.
Admitted.
