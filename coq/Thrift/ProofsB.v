(* Proofs for C04 (round trip, cross protocol) and C08 (prefix / trailing classification) of the thrift model.

   Architecture: every reader R is specified against the bytes w its writer produces by a three-way
   specification (rspec): on firstn j (w ++ rest) the reader fails with io.EOF (j = 0) / ErrUnexpectedEOF
   (0 < j < |w|) when the cut falls inside w, and otherwise returns the value and the rest.  The main
   theorem main_all proves rspec for dec against enc for every type of the universe, with the decoded
   value given as a function (dval); dval_norm shows it equals the original up to tnorm.  The four
   statements are corollaries (rest = [] / proper prefix / non-empty rest). *)
From Verif Require Import Base.GoInt Thrift.Model Thrift.Spec.
From Coq Require Import ZifyBool.
Open Scope Z_scope.

(* ====================================================================== *)
Local Ltac dmlia := Z.div_mod_to_equations; lia.

(* ---------- three-way reader specification ---------- *)
Definition eofc (k : nat) : terr := if (k =? 0)%nat then EEOF else EUnexpectedEOF.
Definition res3 {A} (j n : nat) (a : A) (rest : bytes) : tres (A * bytes) :=
  if (j <? n)%nat then TErr (eofc j) else TOk (a, firstn (j - n) rest).
Definition rspec {A} (R : bytes -> tres (A * bytes)) (w : bytes) (a : A) : Prop :=
  forall j rest, R (firstn j (w ++ rest)) = res3 j (length w) a rest.

Lemma firstn_app_lt {A} (j : nat) (w rest : list A) : (j < length w)%nat -> firstn j (w ++ rest) = firstn j w.
Proof.
  intros H. rewrite firstn_app. replace (j - length w)%nat with O by lia. simpl. apply app_nil_r.
Qed.
Lemma firstn_app_ge {A} (j : nat) (w rest : list A) : (length w <= j)%nat -> firstn j (w ++ rest) = w ++ firstn (j - length w) rest.
Proof.
  intros H. rewrite firstn_app. rewrite firstn_all2 by lia. reflexivity.
Qed.

Lemma rspec_intro {A} (R : bytes -> tres (A * bytes)) w a :
  (forall rest, R (w ++ rest) = TOk (a, rest)) ->
  (forall j, (j < length w)%nat -> R (firstn j w) = TErr (eofc j)) -> rspec R w a.
Proof.
  intros HA HB j rest. unfold res3. destruct (Nat.ltb_spec j (length w)).
  - rewrite firstn_app_lt by lia. auto.
  - rewrite firstn_app_ge by lia. auto.
Qed.
Lemma rspec_full {A} (R : bytes -> tres (A * bytes)) w a rest : rspec R w a -> R (w ++ rest) = TOk (a, rest).
Proof.
  intros H. specialize (H (length w + length rest)%nat rest). unfold res3 in H.
  rewrite firstn_all2 in H by (rewrite app_length; lia).
  replace (length w + length rest <? length w)%nat with false in H by (symmetry; apply Nat.ltb_ge; lia).
  rewrite firstn_all2 in H by lia. exact H.
Qed.
Lemma rspec_prefix {A} (R : bytes -> tres (A * bytes)) w a j : rspec R w a -> (j < length w)%nat -> R (firstn j w) = TErr (eofc j).
Proof.
  intros H Hj. specialize (H j []). unfold res3 in H. rewrite app_nil_r in H.
  replace (j <? length w)%nat with true in H by (symmetry; apply Nat.ltb_lt; lia). exact H.
Qed.

Lemma res3_lt {A} j n (a : A) rest : (j < n)%nat -> res3 j n a rest = TErr (eofc j).
Proof. intros. unfold res3. replace (j <? n)%nat with true by (symmetry; apply Nat.ltb_lt; lia). reflexivity. Qed.
Lemma res3_ge {A} j n (a : A) rest : (n <= j)%nat -> res3 j n a rest = TOk (a, firstn (j - n) rest).
Proof. intros. unfold res3. replace (j <? n)%nat with false by (symmetry; apply Nat.ltb_ge; lia). reflexivity. Qed.
Lemma eofc_pos j : (0 < j)%nat -> eofc j = EUnexpectedEOF.
Proof. intros. unfold eofc. destruct j; [lia | reflexivity]. Qed.
Lemma dee_eofc {A} j : @dont_expect_eof A (TErr (eofc j)) = TErr EUnexpectedEOF.
Proof. unfold eofc. destruct (j =? 0)%nat; reflexivity. Qed.

(* ---------- r_byte, r_full ---------- *)
Lemma r_byte_spec x : rspec r_byte [x] x.
Proof.
  apply rspec_intro.
  - reflexivity.
  - intros j Hj. simpl in Hj. replace j with O by lia. reflexivity.
Qed.

Lemma r_full_spec n w : length w = n -> n <> O -> rspec (r_full n) w w.
Proof.
  intros Hl Hn. apply rspec_intro.
  - intros rest. unfold r_full. replace (n =? 0)%nat with false by (symmetry; apply Nat.eqb_neq; lia).
    destruct (w ++ rest) eqn:E.
    + destruct w; simpl in *; [lia | discriminate].
    + rewrite <- E. replace (length (w ++ rest) <? n)%nat with false by (symmetry; apply Nat.ltb_ge; rewrite app_length; lia).
      rewrite <- Hl. rewrite firstn_app, Nat.sub_diag, firstn_all. simpl. rewrite app_nil_r.
      rewrite skipn_app, Nat.sub_diag, skipn_all. reflexivity.
  - intros j Hj. unfold r_full. replace (n =? 0)%nat with false by (symmetry; apply Nat.eqb_neq; lia).
    destruct (firstn j w) eqn:E.
    + assert (length (firstn j w) = j) by (apply firstn_length_le; lia). rewrite E in H. simpl in H. subst j. reflexivity.
    + rewrite <- E. assert (length (firstn j w) = j) by (apply firstn_length_le; lia). rewrite H.
      replace (j <? n)%nat with true by (symmetry; apply Nat.ltb_lt; lia).
      rewrite eofc_pos; [reflexivity|]. rewrite E in H. simpl in H. lia.
Qed.

Lemma be_bytes_length n v : length (be_bytes n v) = n.
Proof. induction n; simpl; auto. Qed.

Lemma be_val_eq b : be_val b = fold_left (fun acc x => acc * 256 + x) b 0.
Proof. destruct b; reflexivity. Qed.

Lemma be_fold n : forall v acc, fold_left (fun acc x => acc * 256 + x) (be_bytes n v) acc = acc * 256 ^ Z.of_nat n + v mod 256 ^ Z.of_nat n.
Proof.
  induction n; intros v acc.
  - simpl. rewrite Z.mod_1_r. lia.
  - cbn [be_bytes fold_left]. rewrite IHn.
    rewrite Nat2Z.inj_succ, Z.pow_succ_r by lia.
    assert (0 < 256 ^ Z.of_nat n) by (apply Z.pow_pos_nonneg; lia).
    rewrite (Z.mul_comm 256 (256 ^ Z.of_nat n)).
    rewrite (Z.rem_mul_r v (256 ^ Z.of_nat n) 256) by lia. lia.
Qed.
Lemma be_val_be_bytes n v : be_val (be_bytes n v) = v mod 256 ^ Z.of_nat n.
Proof. rewrite be_val_eq, be_fold. lia. Qed.

(* ---------- zigzag ---------- *)
Lemma unzz_zz64 v : unzz (zz64 v) = v.
Proof.
  unfold unzz, zz64. destruct (0 <=? v) eqn:E.
  - rewrite Z.even_mul. change (Z.even 2) with true. cbn [orb]. rewrite Z.mul_comm, Z.div_mul by lia. reflexivity.
  - replace (-2 * v - 1) with (1 + 2 * (- v - 1)) by lia. rewrite Z.even_add_mul_2. change (Z.even 1) with false. cbv iota.
    replace (1 + 2 * (- v - 1) + 1) with ((- v) * 2) by lia. rewrite Z.div_mul by lia. lia.
Qed.
Lemma zz64_range v : - 2 ^ 63 <= v < 2 ^ 63 -> 0 <= zz64 v < 2 ^ 64.
Proof. unfold zz64. intros. destruct (0 <=? v) eqn:E; lia. Qed.

(* ---------- uvarint ---------- *)
Lemma lor_disjoint x c s : 0 <= s -> 0 <= x < 2 ^ s -> 0 <= c -> Z.lor x (c * 2 ^ s) = x + c * 2 ^ s.
Proof.
  intros Hs Hx Hc.
  assert (Z.land x (c * 2 ^ s) = 0).
  { apply Z.bits_inj'. intros n Hn. rewrite Z.land_spec, Z.bits_0.
    rewrite <- Z.shiftl_mul_pow2 by lia.
    destruct (Z.lt_ge_cases n s).
    - rewrite Z.shiftl_spec_low by lia. apply andb_false_r.
    - replace x with (x mod 2 ^ s) by (apply Z.mod_small; lia).
      rewrite Z.mod_pow2_bits_high by lia. reflexivity. }
  rewrite <- Z.lxor_lor by assumption. symmetry. apply Z.add_nocarry_lxor. assumption.
Qed.

Lemma land127 c : 0 <= c -> Z.land c 127 = c mod 128.
Proof. intros. change 127 with (Z.ones 7). rewrite Z.land_ones by lia. reflexivity. Qed.

Lemma uvarint_fuel_length n u : (1 <= n)%nat -> (1 <= length (uvarint_fuel n u) <= n)%nat.
Proof.
  revert u. induction n; intros u Hn; [lia|].
  simpl. destruct (u <? 128); simpl; [lia|].
  destruct n; simpl; [lia|]. specialize (IHn (u / 128)). simpl in IHn. lia.
Qed.

Lemma uvarint_loop_ok n : forall i x s u rest,
  (1 <= n)%nat -> i + Z.of_nat n = 10 -> s = 7 * i -> 0 <= i -> 0 <= x < 2 ^ s -> 0 <= u -> x + u * 2 ^ s < 2 ^ 64 ->
  r_uvarint_loop n i x s (uvarint_fuel n u ++ rest) = TOk (x + u * 2 ^ s, rest).
Proof.
  induction n; intros i x s u rest Hn Hi Hs Hi0 Hx Hu Hb; [lia|].
  assert (Hp : 0 < 2 ^ s) by (apply Z.pow_pos_nonneg; lia).
  cbn [uvarint_fuel]. destruct (u <? 128) eqn:E.
  - cbn [app r_uvarint_loop]. rewrite E.
    replace ((i =? 9) && (u >? 1)) with false.
    + rewrite Z.shiftl_mul_pow2 by lia. unfold w64. rewrite Z.mod_small by nia.
      rewrite lor_disjoint by lia. reflexivity.
    + symmetry. apply andb_false_iff. destruct (Z.eqb_spec i 9); [right | left; reflexivity].
      subst i s. change (2 ^ (7 * 9)) with (2 ^ 63) in *. change (2 ^ 64) with (2 * 2 ^ 63) in Hb. 
      rewrite Z.gtb_ltb. apply Z.ltb_ge. nia.
  - cbn [app r_uvarint_loop].
    replace (u mod 128 + 128 <? 128) with false by (symmetry; apply Z.ltb_ge; dmlia).
    rewrite land127 by dmlia.
    replace ((u mod 128 + 128) mod 128) with (u mod 128) by dmlia.
    rewrite Z.shiftl_mul_pow2 by lia.
    assert (Hs7 : 2 ^ (s + 7) = 128 * 2 ^ s) by (rewrite Z.pow_add_r by lia; lia).
    assert (Hu128 : 128 <= u) by lia.
    assert (Hlt : s + 7 < 64).
    { destruct (Z.lt_ge_cases (s + 7) 64); auto. exfalso.
      assert (2 ^ 64 <= 2 ^ (s + 7)) by (apply Z.pow_le_mono_r; lia). nia. }
    unfold w64. rewrite Z.mod_small.
    2:{ split; [dmlia|]. assert (u mod 128 < 128) by dmlia. nia. }
    rewrite lor_disjoint by (try lia; dmlia).
    rewrite IHn.
    + f_equal. f_equal. rewrite Hs7. dmlia.
    + destruct n; [lia | lia].
    + lia.
    + lia.
    + lia.
    + rewrite Hs7. split; [dmlia|]. assert (u mod 128 < 128) by dmlia. nia.
    + dmlia.
    + rewrite Hs7. assert (u = 128 * (u / 128) + u mod 128) by dmlia. nia.
Qed.

Lemma uvarint_loop_prefix n : forall i x s u k, 0 <= i -> 0 <= u ->
  (k < length (uvarint_fuel n u))%nat ->
  r_uvarint_loop n i x s (firstn k (uvarint_fuel n u)) = TErr (if (i =? 0) && (k =? 0)%nat then EEOF else EUnexpectedEOF).
Proof.
  induction n; intros i x s u k Hi Hu Hk; [simpl in Hk; lia|].
  cbn [uvarint_fuel] in *. destruct (u <? 128) eqn:E.
  - simpl in Hk. replace k with O by lia. simpl. rewrite andb_true_r. reflexivity.
  - destruct k.
    + simpl. rewrite andb_true_r. reflexivity.
    + cbn [firstn r_uvarint_loop].
      replace (u mod 128 + 128 <? 128) with false by (symmetry; apply Z.ltb_ge; dmlia).
      simpl in Hk. rewrite IHn by (try lia; dmlia).
      replace (i + 1 =? 0) with false by lia. cbn [andb Nat.eqb]. rewrite andb_false_r. reflexivity.
Qed.

Lemma uvarint_length u : (1 <= length (uvarint u) <= 10)%nat.
Proof. unfold uvarint. apply uvarint_fuel_length. lia. Qed.

Lemma uvarint_loop_spec u : 0 <= u < 2 ^ 64 -> rspec (r_uvarint_loop 10 0 0 0) (uvarint u) u.
Proof.
  intros Hu. apply rspec_intro.
  - intros rest. unfold uvarint. unfold w64. rewrite Z.mod_small by lia.
    rewrite uvarint_loop_ok; try lia. f_equal. f_equal. simpl. lia.
  - intros j Hj. unfold uvarint in *. rewrite uvarint_loop_prefix; try lia.
    + unfold eofc. reflexivity.
    + unfold w64. dmlia.
Qed.

(* ====================================================================== *)
Lemma tbind_res3 {A B} j n (a : A) rest (k : A * bytes -> tres B) :
  tbind (res3 j n a rest) k = if (j <? n)%nat then TErr (eofc j) else k (a, firstn (j - n) rest).
Proof. unfold res3. destruct (j <? n)%nat; reflexivity. Qed.
Lemma dee_res3 {A} j n (a : A) rest :
  dont_expect_eof (res3 j n a rest) = if (j <? n)%nat then TErr EUnexpectedEOF else TOk (a, firstn (j - n) rest).
Proof. unfold res3. destruct (j <? n)%nat; [apply dee_eofc | reflexivity]. Qed.

(* ---------- integers ---------- *)
Lemma r_uvarint_spec max u : 0 <= u < 2 ^ 64 -> u <= max -> rspec (r_uvarint max) (uvarint u) u.
Proof.
  intros Hu Hm j rest. unfold r_uvarint. rewrite (uvarint_loop_spec u Hu j rest), tbind_res3.
  unfold res3. destruct (j <? _)%nat; [reflexivity|].
  replace (u >? max) with false by lia. reflexivity.
Qed.
Lemma r_varint_spec lo hi v : - 2 ^ 63 <= v < 2 ^ 63 -> lo <= v <= hi -> rspec (r_varint lo hi) (varint v) v.
Proof.
  intros Hv Hr j rest. unfold r_varint, varint. rewrite (uvarint_loop_spec _ (zz64_range v Hv) j rest), tbind_res3.
  unfold res3. destruct (j <? _)%nat; [reflexivity|]. rewrite unzz_zz64.
  replace ((v <? lo) || (v >? hi)) with false by lia. reflexivity.
Qed.

Lemma s8_w8 v : - 2 ^ 7 <= v < 2 ^ 7 -> s8 (w8 v) = v.
Proof. unfold s8, w8. change (2 ^ 8) with 256. change (2 ^ 7) with 128. intros. destruct (_ <? _) eqn:E; dmlia. Qed.
Lemma s16_w16 v : - 2 ^ 15 <= v < 2 ^ 15 -> s16 (w16 v mod 256 ^ Z.of_nat 2) = v.
Proof. unfold s16, w16. change (256 ^ Z.of_nat 2) with 65536. change (2 ^ 16) with 65536. change (2 ^ 15) with 32768. intros. destruct (_ <? _) eqn:E; dmlia. Qed.
Lemma s32_w32 v : - 2 ^ 31 <= v < 2 ^ 31 -> s32 (w32 v mod 256 ^ Z.of_nat 4) = v.
Proof. unfold s32, w32. change (256 ^ Z.of_nat 4) with 4294967296. change (2 ^ 32) with 4294967296. change (2 ^ 31) with 2147483648. intros. destruct (_ <? _) eqn:E; dmlia. Qed.
Lemma s64_w64 v : - 2 ^ 63 <= v < 2 ^ 63 -> s64 (w64 v mod 256 ^ Z.of_nat 8) = v.
Proof. unfold s64, w64. change (256 ^ Z.of_nat 8) with 18446744073709551616. change (2 ^ 64) with 18446744073709551616. change (2 ^ 63) with 9223372036854775808. intros. destruct (_ <? _) eqn:E; dmlia. Qed.
Lemma s32_id v : - 2 ^ 31 <= v < 2 ^ 31 -> s32 v = v.
Proof. unfold s32, w32. change (2 ^ 32) with 4294967296. change (2 ^ 31) with 2147483648. intros. destruct (_ <? _) eqn:E; dmlia. Qed.
Lemma s16_id v : - 2 ^ 15 <= v < 2 ^ 15 -> s16 v = v.
Proof. unfold s16, w16. change (2 ^ 16) with 65536. change (2 ^ 15) with 32768. intros. destruct (_ <? _) eqn:E; dmlia. Qed.

Lemma r_i16_spec p v : - 2 ^ 15 <= v < 2 ^ 15 -> rspec (r_i16 p) (w_i16 p v) v.
Proof.
  intros Hv. destruct p.
  - intros j rest. unfold r_i16, w_i16.
    rewrite (r_full_spec 2 (be_bytes 2 (w16 v)) (be_bytes_length _ _) ltac:(lia) j rest), tbind_res3.
    unfold res3. destruct (j <? _)%nat; [reflexivity|]. rewrite be_val_be_bytes, s16_w16 by lia. reflexivity.
  - apply r_varint_spec; lia.
Qed.
Lemma r_i32_spec p v : - 2 ^ 31 <= v < 2 ^ 31 -> rspec (r_i32 p) (w_i32 p v) v.
Proof.
  intros Hv. destruct p.
  - intros j rest. unfold r_i32, w_i32.
    rewrite (r_full_spec 4 (be_bytes 4 (w32 v)) (be_bytes_length _ _) ltac:(lia) j rest), tbind_res3.
    unfold res3. destruct (j <? _)%nat; [reflexivity|]. rewrite be_val_be_bytes, s32_w32 by lia. reflexivity.
  - apply r_varint_spec; lia.
Qed.
Lemma r_i64_spec p v : - 2 ^ 63 <= v < 2 ^ 63 -> rspec (r_i64 p) (w_i64 p v) v.
Proof.
  intros Hv. destruct p.
  - intros j rest. unfold r_i64, w_i64.
    rewrite (r_full_spec 8 (be_bytes 8 (w64 v)) (be_bytes_length _ _) ltac:(lia) j rest), tbind_res3.
    unfold res3. destruct (j <? _)%nat; [reflexivity|]. rewrite be_val_be_bytes, s64_w64 by lia. reflexivity.
  - apply r_varint_spec; lia.
Qed.
Lemma r_f64_spec p z : 0 <= z < 2 ^ 64 -> rspec (r_f64 p) (w_f64 p z) z.
Proof.
  intros Hz j rest. unfold r_f64, w_f64.
  rewrite (r_full_spec 8 (be_bytes 8 z) (be_bytes_length _ _) ltac:(lia) j rest), tbind_res3.
  unfold res3. destruct (j <? _)%nat; [reflexivity|]. rewrite be_val_be_bytes.
  change (256 ^ Z.of_nat 8) with (2 ^ 64). rewrite Z.mod_small by lia. reflexivity.
Qed.
Lemma r_len_spec p n : 0 <= n < 2 ^ 31 -> rspec (r_len p) (w_len p n) n.
Proof.
  intros Hn. destruct p.
  - intros j rest. unfold r_len, w_len.
    rewrite (r_full_spec 4 (be_bytes 4 n) (be_bytes_length _ _) ltac:(lia) j rest), tbind_res3.
    unfold res3. destruct (j <? _)%nat; [reflexivity|]. rewrite be_val_be_bytes.
    change (256 ^ Z.of_nat 4) with (2 ^ 32). rewrite Z.mod_small by lia.
    replace (n >? 2 ^ 31 - 1) with false by lia. reflexivity.
  - apply r_uvarint_spec; lia.
Qed.
Lemma w_len_length p n : (1 <= length (w_len p n))%nat.
Proof. destruct p; simpl; [lia|]. pose proof (uvarint_length n). lia. Qed.

Lemma r_bytes_spec p s : len s < 2 ^ 31 -> rspec (r_bytes p) (w_bytes p s) s.
Proof.
  intros Hs j rest. unfold r_bytes, w_bytes. rewrite <- app_assoc.
  assert (Hn : 0 <= len s < 2 ^ 31) by (unfold len in *; lia).
  rewrite (r_len_spec p (len s) Hn j (s ++ rest)), tbind_res3.
  pose proof (w_len_length p (len s)) as Hl. rewrite app_length.
  destruct (Nat.ltb_spec j (length (w_len p (len s)))).
  - rewrite res3_lt by lia. reflexivity.
  - set (h := length (w_len p (len s))) in *.
    destruct (Nat.ltb_spec (j - h) (length s)).
    + rewrite firstn_app_lt by lia. unfold len at 1. rewrite firstn_length_le by lia.
      replace (Z.of_nat (j - h) <? len s) with true by (unfold len; lia).
      rewrite res3_lt by lia. rewrite eofc_pos by lia. reflexivity.
    + rewrite firstn_app_ge by lia. unfold len at 1. rewrite app_length.
      replace (Z.of_nat _ <? len s) with false by (unfold len; lia).
      rewrite res3_ge by lia. unfold slice_to, slice_from, len. rewrite Nat2Z.id.
      rewrite firstn_app, Nat.sub_diag, firstn_all. simpl. rewrite app_nil_r.
      rewrite skipn_app, Nat.sub_diag, skipn_all. simpl.
      do 3 f_equal. lia.
Qed.

(* ---------- nibble packing ---------- *)
Lemma nib d t : 0 <= d < 16 -> 0 <= t < 16 ->
  Z.lor (w8 (d * 16)) (w8 t) = t + d * 16.
Proof.
  intros Hd Ht. unfold w8. rewrite !Z.mod_small by (change (2 ^ 8) with 256; lia).
  rewrite Z.lor_comm. change 16 with (2 ^ 4) at 1. rewrite lor_disjoint by (change (2 ^ 4) with 16; lia). reflexivity.
Qed.
Lemma nib_hi d t : 0 <= d < 16 -> 0 <= t < 16 -> Z.shiftr (t + d * 16) 4 = d.
Proof. intros. rewrite Z.shiftr_div_pow2 by lia. change (2 ^ 4) with 16. dmlia. Qed.
Lemma nib_lo d t : 0 <= d < 16 -> 0 <= t < 16 -> Z.land (t + d * 16) 15 = t.
Proof. intros. change 15 with (Z.ones 4). rewrite Z.land_ones by lia. change (2 ^ 4) with 16. dmlia. Qed.

(* ---------- field headers ---------- *)
Definition fhdr (p : proto) (last id ty : Z) : bytes :=
  w_field p (match p with PCompact => if s16 (id - last) <=? 15 then s16 (id - last) else id | PBinary => id end) ty.
Definition fhdr_res (p : proto) (last id ty : Z) : Z * Z * bool :=
  match p with
  | PBinary => (id, ty, false)
  | PCompact => if id - last <=? 15 then (id - last, ty, true) else (id, ty, false)
  end.
Lemma fhdr_res_id p last id ty : 0 <= last < id -> id < 2 ^ 15 ->
  let '(rid, rty, isd) := fhdr_res p last id ty in (if isd then s16 (rid + last) else rid) = id /\ rty = ty.
Proof.
  intros. unfold fhdr_res. destruct p; [auto|]. destruct (_ <=? _); [|auto].
  split; [|auto]. replace (id - last + last) with id by lia. apply s16_id. lia.
Qed.

Lemma r_field_spec p last id ty : 0 <= last < id -> id < 2 ^ 15 -> 1 <= ty <= 12 ->
  rspec (r_field p) (fhdr p last id ty) (fhdr_res p last id ty).
Proof.
  intros Hl Hid Hty. unfold fhdr, fhdr_res. destruct p.
  - intros j rest. unfold w_field, r_field. rewrite <- app_assoc.
    rewrite (r_byte_spec (w8 ty) j), tbind_res3. rewrite app_length. cbn [length].
    destruct (Nat.ltb_spec j 1); [rewrite res3_lt by (rewrite be_bytes_length; lia); reflexivity|].
    rewrite (r_i16_spec PBinary id ltac:(lia) (j - 1)%nat rest : r_i16 PBinary (firstn (j - 1) (be_bytes 2 (w16 id) ++ rest)) = _).
    rewrite dee_res3. cbn [w_i16]. rewrite be_bytes_length.
    destruct (Nat.ltb_spec (j - 1) 2).
    + rewrite res3_lt by lia. rewrite eofc_pos by lia. reflexivity.
    + rewrite res3_ge by lia. cbn [tbind]. rewrite s8_w8 by lia. do 3 f_equal. lia.
  - rewrite s16_id by lia. unfold w_field. replace (ty =? c_STOP) with false by (unfold c_STOP; lia).
    destruct (id - last <=? 15) eqn:E.
    + rewrite E. rewrite nib by lia.
      intros j rest. unfold r_field. rewrite (r_byte_spec _ j rest), tbind_res3. cbn [length].
      unfold res3. destruct (j <? 1)%nat; [reflexivity|].
      replace (ty + (id - last) * 16 =? c_STOP) with false by (unfold c_STOP; lia).
      rewrite nib_hi, nib_lo by lia. replace (id - last =? 0) with false by lia. reflexivity.
    + replace (id <=? 15) with false by lia.
      intros j rest. unfold r_field. rewrite <- app_assoc.
      rewrite (r_byte_spec (w8 ty) j), tbind_res3. rewrite app_length. cbn [length].
      destruct (Nat.ltb_spec j 1); [rewrite res3_lt by lia; reflexivity|].
      assert (Hw : w8 ty = ty) by (unfold w8; change (2 ^ 8) with 256; dmlia). rewrite Hw.
      replace (ty =? c_STOP) with false by (unfold c_STOP; lia).
      replace (Z.shiftr ty 4) with 0 by (rewrite Z.shiftr_div_pow2 by lia; change (2 ^ 4) with 16; dmlia).
      cbn [Z.eqb negb].
      rewrite (r_i16_spec PCompact id ltac:(lia) (j - 1)%nat rest : r_i16 PCompact (firstn (j - 1) (varint id ++ rest)) = _).
      rewrite dee_res3. cbn [w_i16].
      destruct (Nat.ltb_spec (j - 1) (length (varint id))).
      * rewrite res3_lt by lia. rewrite eofc_pos by lia. reflexivity.
      * rewrite res3_ge by lia. cbn [tbind]. rewrite <- Hw at 1. rewrite s8_w8 by lia. do 3 f_equal. lia.
Qed.

Lemma r_field_stop_spec p : rspec (r_field p) (w_field p 0 c_STOP) (0, 0, false).
Proof.
  apply rspec_intro.
  - intros rest. destruct p; reflexivity.
  - intros j Hj. destruct p; simpl in Hj.
    + destruct j as [|[|[|]]]; try lia; reflexivity.
    + destruct j; try lia; reflexivity.
Qed.
Lemma fhdr_length p last id ty : (1 <= length (fhdr p last id ty))%nat.
Proof.
  unfold fhdr, w_field. destruct p; [simpl; lia|].
  destruct (ty =? c_STOP); [simpl; lia|]. destruct (_ <=? 15); simpl; lia.
Qed.
Lemma stop_length p : (1 <= length (w_field p 0 c_STOP))%nat.
Proof. destruct p; simpl; lia. Qed.

(* ---------- list and map headers ---------- *)
Lemma r_list_spec p size ty : 0 <= size < 2 ^ 31 -> 1 <= ty <= 12 -> rspec (r_list p) (w_list p size ty) (size, ty).
Proof.
  intros Hs Hty. assert (Hw : w8 ty = ty) by (unfold w8; change (2 ^ 8) with 256; dmlia). destruct p.
  - intros j rest. unfold w_list, r_list. rewrite <- app_assoc.
    rewrite (r_byte_spec (w8 ty) j), tbind_res3. rewrite app_length. cbn [length].
    destruct (Nat.ltb_spec j 1); [rewrite res3_lt by lia; reflexivity|].
    rewrite (r_i32_spec PBinary size ltac:(lia) (j - 1)%nat rest : r_i32 PBinary (firstn (j - 1) (be_bytes 4 (w32 size) ++ rest)) = _).
    rewrite dee_res3. cbn [w_i32]. rewrite be_bytes_length.
    destruct (Nat.ltb_spec (j - 1) 4).
    + rewrite res3_lt by lia. rewrite eofc_pos by lia. reflexivity.
    + rewrite res3_ge by lia. cbn [tbind]. replace (size <? 0) with false by lia. rewrite s8_w8 by lia. do 3 f_equal. lia.
  - unfold w_list. destruct (size <=? 14) eqn:E.
    + rewrite nib by lia. intros j rest. unfold r_list. rewrite (r_byte_spec _ j rest), tbind_res3. cbn [length].
      unfold res3. destruct (j <? 1)%nat; [reflexivity|].
      rewrite nib_hi, nib_lo by lia. replace (size =? 15) with false by lia. reflexivity.
    + change 240 with (w8 (15 * 16)). rewrite nib by lia.
      intros j rest. unfold r_list. rewrite <- app_assoc.
      rewrite (r_byte_spec _ j), tbind_res3. rewrite app_length. cbn [length].
      destruct (Nat.ltb_spec j 1); [rewrite res3_lt by lia; reflexivity|].
      rewrite nib_hi, nib_lo by lia. cbn [Z.eqb negb Pos.eqb].
      rewrite (r_uvarint_spec (2 ^ 31 - 1) size ltac:(lia) ltac:(lia) (j - 1)%nat rest).
      rewrite dee_res3.
      destruct (Nat.ltb_spec (j - 1) (length (uvarint size))).
      * rewrite res3_lt by lia. rewrite eofc_pos by lia. reflexivity.
      * rewrite res3_ge by lia. cbn [tbind]. do 3 f_equal. lia.
Qed.
Lemma w_list_length p size ty : (1 <= length (w_list p size ty))%nat.
Proof. unfold w_list. destruct p; [simpl; lia|]. destruct (_ <=? _); simpl; lia. Qed.

Definition map_res (p : proto) (size k v : Z) : Z * Z * Z :=
  match p with PBinary => (size, k, v) | PCompact => if size =? 0 then (0, 0, 0) else (size, k, v) end.
Lemma r_map_spec p size k v : 0 <= size < 2 ^ 31 -> 1 <= k <= 12 -> 1 <= v <= 12 ->
  rspec (r_map p) (w_map p size k v) (map_res p size k v).
Proof.
  intros Hs Hk Hv.
  assert (Hwk : w8 k = k) by (unfold w8; change (2 ^ 8) with 256; dmlia).
  assert (Hwv : w8 v = v) by (unfold w8; change (2 ^ 8) with 256; dmlia).
  destruct p.
  - intros j rest. unfold w_map, r_map, map_res.
    change (([w8 k; w8 v] ++ be_bytes 4 (w32 size)) ++ rest) with ([w8 k] ++ ([w8 v] ++ (be_bytes 4 (w32 size) ++ rest))).
    rewrite (r_byte_spec (w8 k) j), tbind_res3. rewrite app_length, be_bytes_length. cbn [length].
    destruct (Nat.ltb_spec j 1); [rewrite res3_lt by lia; reflexivity|].
    rewrite (r_byte_spec (w8 v) (j - 1)%nat), dee_res3. cbn [length].
    destruct (Nat.ltb_spec (j - 1) 1); [rewrite res3_lt by lia; rewrite eofc_pos by lia; reflexivity|].
    cbn [tbind].
    rewrite (r_i32_spec PBinary size ltac:(lia) (j - 1 - 1)%nat rest : r_i32 PBinary (firstn (j - 1 - 1) (be_bytes 4 (w32 size) ++ rest)) = _).
    rewrite dee_res3. cbn [w_i32]. rewrite be_bytes_length.
    destruct (Nat.ltb_spec (j - 1 - 1) 4).
    + rewrite res3_lt by lia. rewrite eofc_pos by lia. reflexivity.
    + rewrite res3_ge by lia. cbn [tbind]. replace (size <? 0) with false by lia. rewrite !s8_w8 by lia. do 3 f_equal. lia.
  - intros j rest. unfold w_map, r_map, map_res. rewrite <- app_assoc.
    rewrite (r_uvarint_spec (2 ^ 31 - 1) size ltac:(lia) ltac:(lia) j), tbind_res3. rewrite app_length.
    pose proof (uvarint_length size) as Hul.
    destruct (Nat.ltb_spec j (length (uvarint size))); [rewrite res3_lt by lia; reflexivity|].
    destruct (size =? 0) eqn:E.
    + cbn [app length]. rewrite res3_ge by lia. do 3 f_equal. lia.
    + rewrite nib by lia. rewrite (r_byte_spec _ (j - length (uvarint size))%nat rest), dee_res3. cbn [length].
      destruct (Nat.ltb_spec (j - length (uvarint size)) 1).
      * rewrite res3_lt by lia. rewrite eofc_pos by lia. reflexivity.
      * rewrite res3_ge by lia. cbn [tbind]. rewrite nib_hi, nib_lo by lia. do 3 f_equal. lia.
Qed.
Lemma w_map_length p size k v : (1 <= length (w_map p size k v))%nat.
Proof. unfold w_map. destruct p; [simpl; lia|]. rewrite app_length. pose proof (uvarint_length size). lia. Qed.

(* ====================================================================== *)
(* ---------- induction principle for the nested type ---------- *)
Lemma tty_ind' (P : tty -> Prop)
  (Hbool : P ThBool) (Hi8 : P ThI8) (Hi16 : P ThI16) (Hi32 : P ThI32) (Hi64 : P ThI64) (Hf64 : P ThF64)
  (Hstr : P ThStr) (Hbytes : P ThBytes)
  (Hlist : forall t, P t -> P (ThList t)) (Hset : forall t, P t -> P (ThSet t))
  (Hmap : forall k v, P k -> P v -> P (ThMap k v))
  (Hstruct : forall fs, Forall (fun f => P (fld_ty f)) fs -> P (ThStruct fs))
  (Hptr : forall t, P t -> P (ThPtr t)) : forall t, P t.
Proof.
  fix IH 1. intros [ | | | | | | | | t | t | k v | fs | t].
  - exact Hbool. - exact Hi8. - exact Hi16. - exact Hi32. - exact Hi64. - exact Hf64. - exact Hstr. - exact Hbytes.
  - apply Hlist, IH. - apply Hset, IH. - apply Hmap; apply IH.
  - apply Hstruct. induction fs as [|[id fl ft] r IHr]; constructor; [apply IH | apply IHr].
  - apply Hptr, IH.
Qed.

(* ---------- named versions of the local fixpoints of enc ---------- *)
Definition enc_elems (p : proto) (et : tty) := fix go (es : list tval) : bytes :=
  match es with [] => [] | x :: r => enc p et x ++ go r end.
Definition enc_pairs (p : proto) (kt vt : tty) := fix go (es : list (tval * tval)) : bytes :=
  match es with [] => [] | (k, x) :: r => enc p kt k ++ enc p vt x ++ go r end.
Lemma enc_elems_cons p et x r : enc_elems p et (x :: r) = enc p et x ++ enc_elems p et r.
Proof. reflexivity. Qed.
Lemma enc_pairs_cons p kt vt k x r : enc_pairs p kt vt ((k, x) :: r) = enc p kt k ++ enc p vt x ++ enc_pairs p kt vt r.
Proof. reflexivity. Qed.
Definition nilp (x : tval) : bool := match x with TvPtr None => true | _ => false end.
Definition fbody (p : proto) (f : tfield) (x : tval) : bytes :=
  match f with TField _ fl ft =>
    if has_flag fl f_enum then
      match ft, x with
      | (ThI8 | ThI16 | ThI32 | ThI64), TvInt z => w_i32 p (s32 z)
      | _, _ => enc p ft x
      end
    else enc p ft x end.
Definition mk_encs (p : proto) := fix mk (fs : list tfield) (vs : list tval) : list (tfield * (tval * bytes)) :=
  match fs, vs with f :: fr, x :: vr => (f, (x, fbody p f x)) :: mk fr vr | _, _ => [] end.
Lemma mk_encs_cons p f fr x vr : mk_encs p (f :: fr) (x :: vr) = (f, (x, fbody p f x)) :: mk_encs p fr vr.
Proof. reflexivity. Qed.
Definition fskip (f : tfield) (x : tval) : bool :=
  nilp x || (negb (has_flag (fld_flags f) f_required) && is_zero_t (fld_ty f) x).
Definition coalesce (p : proto) (ty : Z) : bool := match p with PCompact => ty =? c_BOOL | PBinary => false end.
Definition enc_go (p : proto) := fix go (l : list (tfield * (tval * bytes))) (last : Z) : bytes :=
  match l with
  | [] => w_field p 0 c_STOP
  | (f, (x, body)) :: r =>
      if fskip f x then go r last else
      let ty := type_of (fld_ty f) in
      let wty := if coalesce p ty && deref_bool x then c_TRUE else ty in
      fhdr p last (fld_id f) wty ++ (if coalesce p ty then [] else body) ++ go r (fld_id f)
  end.
Lemma enc_go_nil p last : enc_go p [] last = w_field p 0 c_STOP.
Proof. reflexivity. Qed.
Lemma enc_go_cons p f x body r last : enc_go p ((f, (x, body)) :: r) last =
      if fskip f x then enc_go p r last else
      let ty := type_of (fld_ty f) in
      let wty := if coalesce p ty && deref_bool x then c_TRUE else ty in
      fhdr p last (fld_id f) wty ++ (if coalesce p ty then [] else body) ++ enc_go p r (fld_id f).
Proof. reflexivity. Qed.

Lemma enc_list_eq p et nn es : enc p (ThList et) (TvList nn es) = w_list p (len es) (type_of et) ++ enc_elems p et es.
Proof. reflexivity. Qed.
Lemma enc_set_eq p kt nn ks : enc p (ThSet kt) (TvSet nn ks) = w_list p (len ks) (type_of kt) ++ enc_elems p kt ks.
Proof. reflexivity. Qed.
Lemma enc_map_eq p kt vt nn es : enc p (ThMap kt vt) (TvMap nn es) = w_map p (len es) (type_of kt) (type_of vt) ++ enc_pairs p kt vt es.
Proof. reflexivity. Qed.
Lemma enc_struct_eq p fs vs : enc p (ThStruct fs) (TvStruct vs) = enc_go p (sort_by_id (mk_encs p fs vs)) 0.
Proof. reflexivity. Qed.

(* ---------- named versions of the local fixpoints of dec ---------- *)
Definition lloop (f : nat) (p : proto) (et : tty) (flags : Z) :=
  fix go (k : nat) (cnt : Z) (acc : list tval) (r : bytes) : tres (tval * bytes) :=
    if cnt <=? 0 then TOk (TvList true (rev acc), r) else
    match k with
    | O => TOutOfFuel
    | S k' => tlet (x, r) <- dont_expect_eof (dec f p et (Z.land flags f_strict) (zero_of et) r) in go k' (cnt - 1) (x :: acc) r
    end.
Definition stloop (f : nat) (p : proto) (kt : tty) (flags : Z) :=
  fix go (k : nat) (cnt : Z) (acc : list tval) (r : bytes) : tres (tval * bytes) :=
    if cnt <=? 0 then TOk (TvSet true acc, r) else
    match k with
    | O => TOutOfFuel
    | S k' => tlet (x, r) <- dont_expect_eof (dec f p kt (Z.land flags f_strict) (zero_of kt) r) in go k' (cnt - 1) (set_add acc x) r
    end.
Definition mloop (f : nat) (p : proto) (kt vt : tty) (flags : Z) :=
  fix go (k : nat) (cnt : Z) (acc : list (tval * tval)) (r : bytes) : tres (tval * bytes) :=
    if cnt <=? 0 then TOk (TvMap true acc, r) else
    match k with
    | O => TOutOfFuel
    | S k' =>
        tlet (x, r) <- dont_expect_eof (dec f p kt (Z.land flags f_strict) (zero_of kt) r) in
        tlet (y, r) <- dont_expect_eof (dec f p vt (Z.land flags f_strict) (zero_of vt) r) in
        go k' (cnt - 1) (map_set acc x y) r
    end.

Lemma dec_list_eq f p et flags old b :
  dec (S f) p (ThList et) flags old b =
  tlet (h, r) <- r_list p b in
  let '(n, lt) := h in
  let lt := if lt =? c_TRUE then c_BOOL else lt in
  if negb (type_of et =? lt) then (if has_flag flags f_strict then TErr EMismatch else tlet r <- skip_items f p lt n r in TOk (old, r)) else
  if n <? 0 then TErr EOther else lloop f p et flags (S (length r)) n [] r.
Proof. reflexivity. Qed.
Lemma dec_set_eq f p kt flags old b :
  dec (S f) p (ThSet kt) flags old b =
  tlet (h, r) <- r_list p b in
  let '(n, lt) := h in
  let lt := if lt =? c_TRUE then c_BOOL else lt in
  if n <? 0 then TErr EOther else
  if n =? 0 then TOk (TvSet true [], r) else
  if negb (type_of kt =? lt) then (if has_flag flags f_strict then TErr EMismatch else tlet r <- skip_items f p lt n r in TOk (TvSet true [], r)) else
  stloop f p kt flags (S (length r)) n [] r.
Proof. reflexivity. Qed.
Lemma dec_map_eq f p kt vt flags old b :
  dec (S f) p (ThMap kt vt) flags old b =
  tlet (h, r) <- r_map p b in
  let '(n, mk, mv) := h in
  if n <? 0 then TErr EOther else
  if n =? 0 then TOk (TvMap true [], r) else
  if negb (type_of kt =? mk) then (if has_flag flags f_strict then TErr EMismatch else tlet r <- skip_entries f p mk mv n r in TOk (TvMap true [], r)) else
  if negb (type_of vt =? mv) then (if has_flag flags f_strict then TErr EMismatch else tlet r <- skip_entries f p mk mv n r in TOk (TvMap true [], r)) else
  mloop f p kt vt flags (S (length r)) n [] r.
Proof. reflexivity. Qed.

Definition s_minID (fs : list tfield) : Z := fold_left (fun m i => if (i <? m) || (m =? 0) then i else m) (map fld_id fs) 0.
Definition s_maxID (fs : list tfield) : Z := fold_left Z.max (map fld_id fs) 0.
Definition lookup_go (id : Z) := fix go (fs : list tfield) (i : nat) : option (nat * tfield) :=
  match fs with [] => None | fd :: r => if fld_id fd =? id then Some (i, fd) else go r (S i) end.
Lemma lookup_go_cons id fd r i : lookup_go id (fd :: r) i = if fld_id fd =? id then Some (i, fd) else lookup_go id r (S i).
Proof. reflexivity. Qed.
Definition fdec (f : nat) (p : proto) (fd : tfield) (fl : Z) (oldf : tval) (r : bytes) : tres (tval * bytes) :=
  if has_flag (fld_flags fd) f_enum then
    match fld_ty fd with
    | ThI8 | ThI16 | ThI32 | ThI64 => tlet (z, r) <- r_i32 p r in TOk (TvInt z, r)
    | ft => dec f p ft fl oldf r
    end
  else dec f p (fld_ty fd) fl oldf r.
Definition smissing (fs : list tfield) (seen : list Z) : bool :=
  existsb (fun fd => has_flag (fld_flags fd) f_required && negb (existsb (Z.eqb (fld_id fd - s_minID fs)) seen)) fs.
Definition is_compact (p : proto) : bool := match p with PCompact => true | PBinary => false end.

Definition sloop (f : nat) (p : proto) (fs : list tfield) (flags : Z) :=
  fix loop (k : nat) (r : bytes) (last : Z) (nfields : Z) (vs : list tval) (seen : list Z) : tres (tval * bytes) :=
    match k with O => TOutOfFuel | S k' =>
      match r_field p r with
      | TErr e => TErr (if (nfields >? 0) && (match e with EEOF => true | _ => false end) then EUnexpectedEOF else e)
      | TPanic => TPanic | TOutOfFuel => TOutOfFuel
      | TOk ((id, fty, isdelta), r) =>
          if fty =? c_STOP then
            if smissing fs seen then TErr EMissing else TOk (TvStruct vs, r)
          else
          let id := if isdelta then s16 (id + last) else id in
          let slot := id - s_minID fs in
          let nslots := s_maxID fs - s_minID fs + 1 in
          let known := if (slot <? 0) || (slot >=? nslots) then None else lookup_go id fs O in
          match known with
          | None =>
              tlet r <- dont_expect_eof
                          (if ((fty =? c_TRUE) || (fty =? c_BOOL)) && is_compact p
                           then TOk r else skip f p fty r) in
              loop k' r id (nfields + 1) vs seen
          | Some (i, fd) =>
              if (slot / 64 >=? nslots / 64 + 1) then TPanic else
              let seen := slot :: seen in
              let fexp := type_of (fld_ty fd) in
              if negb (fty =? fexp) && negb ((fty =? c_TRUE) && (fexp =? c_BOOL)) then
                (if has_flag flags f_strict then TErr EMismatch else
                   tlet r <- dont_expect_eof
                               (if ((fty =? c_TRUE) || (fty =? c_BOOL)) && is_compact p
                                then TOk r else skip f p fty r) in
                   loop k' r id (nfields + 1) vs seen)
              else
              let oldf := nth i vs (zero_of (fld_ty fd)) in
              if is_compact p && ((fty =? c_TRUE) || (fty =? c_BOOL)) then
                loop k' r id (nfields + 1) (set_nth vs i (wrap_ptrs (fld_ty fd) (TvBool (fty =? c_TRUE)))) seen
              else
              let fl := Z.lor (Z.land flags f_strict) (fld_flags fd) in
              tlet (x, r) <- dont_expect_eof (fdec f p fd fl oldf r) in
              loop k' r id (nfields + 1) (set_nth vs i x) seen
          end
      end
    end.

Fixpoint zero_fields (fs : list tfield) : list tval := match fs with [] => [] | TField _ _ ft :: r => zero_of ft :: zero_fields r end.
Lemma zero_struct_eq fs : zero_of (ThStruct fs) = TvStruct (zero_fields fs).
Proof. reflexivity. Qed.

Lemma dec_struct_eq f p fs flags old b :
  dec (S f) p (ThStruct fs) flags old b =
  sloop f p fs flags f b 0 0 (match old with TvStruct vs => vs | _ => zero_fields fs end) [].
Proof. reflexivity. Qed.
Lemma dec_ptr_eq f p t' flags old b :
  dec (S f) p (ThPtr t') flags old b =
  tlet (x, r) <- dec f p t' flags (match old with TvPtr (Some x) => x | _ => zero_of t' end) b in TOk (TvPtr (Some x), r).
Proof. reflexivity. Qed.

Lemma sloop_S f p fs flags k' r last nfields vs seen :
  sloop f p fs flags (S k') r last nfields vs seen =
      match r_field p r with
      | TErr e => TErr (if (nfields >? 0) && (match e with EEOF => true | _ => false end) then EUnexpectedEOF else e)
      | TPanic => TPanic | TOutOfFuel => TOutOfFuel
      | TOk ((id, fty, isdelta), r) =>
          if fty =? c_STOP then
            if smissing fs seen then TErr EMissing else TOk (TvStruct vs, r)
          else
          let id := if isdelta then s16 (id + last) else id in
          let slot := id - s_minID fs in
          let nslots := s_maxID fs - s_minID fs + 1 in
          let known := if (slot <? 0) || (slot >=? nslots) then None else lookup_go id fs O in
          match known with
          | None =>
              tlet r <- dont_expect_eof
                          (if ((fty =? c_TRUE) || (fty =? c_BOOL)) && is_compact p
                           then TOk r else skip f p fty r) in
              sloop f p fs flags k' r id (nfields + 1) vs seen
          | Some (i, fd) =>
              if (slot / 64 >=? nslots / 64 + 1) then TPanic else
              let seen := slot :: seen in
              let fexp := type_of (fld_ty fd) in
              if negb (fty =? fexp) && negb ((fty =? c_TRUE) && (fexp =? c_BOOL)) then
                (if has_flag flags f_strict then TErr EMismatch else
                   tlet r <- dont_expect_eof
                               (if ((fty =? c_TRUE) || (fty =? c_BOOL)) && is_compact p
                                then TOk r else skip f p fty r) in
                   sloop f p fs flags k' r id (nfields + 1) vs seen)
              else
              let oldf := nth i vs (zero_of (fld_ty fd)) in
              if is_compact p && ((fty =? c_TRUE) || (fty =? c_BOOL)) then
                sloop f p fs flags k' r id (nfields + 1) (set_nth vs i (wrap_ptrs (fld_ty fd) (TvBool (fty =? c_TRUE)))) seen
              else
              let fl := Z.lor (Z.land flags f_strict) (fld_flags fd) in
              tlet (x, r) <- dont_expect_eof (fdec f p fd fl oldf r) in
              sloop f p fs flags k' r id (nfields + 1) (set_nth vs i x) seen
          end
      end.
Proof. reflexivity. Qed.
Lemma lloop_eq f p et flags k cnt acc r :
  lloop f p et flags k cnt acc r =
    if cnt <=? 0 then TOk (TvList true (rev acc), r) else
    match k with
    | O => TOutOfFuel
    | S k' => tlet (x, r) <- dont_expect_eof (dec f p et (Z.land flags f_strict) (zero_of et) r) in lloop f p et flags k' (cnt - 1) (x :: acc) r
    end.
Proof. destruct k; reflexivity. Qed.
Lemma stloop_eq f p kt flags k cnt acc r :
  stloop f p kt flags k cnt acc r =
    if cnt <=? 0 then TOk (TvSet true acc, r) else
    match k with
    | O => TOutOfFuel
    | S k' => tlet (x, r) <- dont_expect_eof (dec f p kt (Z.land flags f_strict) (zero_of kt) r) in stloop f p kt flags k' (cnt - 1) (set_add acc x) r
    end.
Proof. destruct k; reflexivity. Qed.
Lemma mloop_eq f p kt vt flags k cnt acc r :
  mloop f p kt vt flags k cnt acc r =
    if cnt <=? 0 then TOk (TvMap true acc, r) else
    match k with
    | O => TOutOfFuel
    | S k' =>
        tlet (x, r) <- dont_expect_eof (dec f p kt (Z.land flags f_strict) (zero_of kt) r) in
        tlet (y, r) <- dont_expect_eof (dec f p vt (Z.land flags f_strict) (zero_of vt) r) in
        mloop f p kt vt flags k' (cnt - 1) (map_set acc x y) r
    end.
Proof. destruct k; reflexivity. Qed.

(* ====================================================================== *)
(* ---------- the decoded value, as a function ---------- *)
Fixpoint dval (t : tty) (v : tval) {struct t} : tval :=
  match t, v with
  | (ThStr | ThBytes), TvBytes _ s => TvBytes true s
  | ThPtr t', TvPtr (Some x) => TvPtr (Some (dval t' x))
  | ThList et, TvList _ es => TvList true (map (dval et) es)
  | ThSet _, TvSet _ ks => TvSet true ks
  | ThMap kt vt, TvMap _ es => TvMap true (map (fun kx => (fst kx, dval vt (snd kx))) es)
  | ThStruct fs, TvStruct vs =>
      TvStruct ((fix go (fs : list tfield) (vs : list tval) : list tval :=
                   match fs, vs with
                   | TField id fl ft :: fr, x :: vr => (if fskip (TField id fl ft) x then zero_of ft else dval ft x) :: go fr vr
                   | _, _ => []
                   end) fs vs)
  | _, _ => v
  end.
Fixpoint cur_of (rem : list Z) (fs : list tfield) (vs : list tval) : list tval :=
  match fs, vs with
  | fd :: fr, x :: vr =>
      (if existsb (Z.eqb (fld_id fd)) rem || fskip fd x then zero_of (fld_ty fd) else dval (fld_ty fd) x) :: cur_of rem fr vr
  | _, _ => []
  end.
Lemma dval_struct_eq fs vs : dval (ThStruct fs) (TvStruct vs) = TvStruct (cur_of [] fs vs).
Proof.
  cbn [dval]. f_equal. revert vs. induction fs as [|[id fl ft] fr IH]; intros [|x vr]; try reflexivity.
  cbn [cur_of existsb orb fld_ty]. rewrite IH. reflexivity.
Qed.

Definition mainP (t : tty) : Prop := forall p v flags fuel, ty_ok t = true -> tval_wf t v = true -> nilp v = false ->
  (length (enc p t v) + tdepth t <= fuel)%nat -> rspec (dec fuel p t flags (zero_of t)) (enc p t v) (dval t v).

(* ---------- simple facts ---------- *)
Lemma type_of_range t : 2 <= type_of t <= 12.
Proof. induction t; cbn [type_of]; unfold c_BOOL, c_I8, c_I16, c_I32, c_I64, c_DOUBLE, c_BINARY, c_LIST, c_SET, c_MAP, c_STRUCT; lia. Qed.
Lemma tdepth_pos t : (1 <= tdepth t)%nat.
Proof. destruct t; simpl; lia. Qed.

Lemma enc_go_len_pos p l : forall last, (1 <= length (enc_go p l last))%nat.
Proof.
  induction l as [|[f [x body]] r IH]; intros last.
  - rewrite enc_go_nil. apply stop_length.
  - rewrite enc_go_cons. destruct (fskip f x); [apply IH|]. cbv zeta. rewrite app_length.
    pose proof (fhdr_length p last (fld_id f) (if coalesce p (type_of (fld_ty f)) && deref_bool x then c_TRUE else type_of (fld_ty f))). lia.
Qed.
Lemma wf_not_ptr t v : tval_wf t v = true -> (match t with ThPtr _ => false | _ => true end) = true -> nilp v = false.
Proof. intros Hwf Ht. destruct v; try reflexivity. destruct t; discriminate. Qed.
Lemma enc_len_pos p t : forall v, ty_ok t = true -> tval_wf t v = true -> nilp v = false -> (1 <= length (enc p t v))%nat.
Proof.
  induction t; intros v Hok Hwf Hn; destruct v; try discriminate Hwf.
  - simpl. lia.
  - simpl. lia.
  - simpl. destruct p; simpl; [lia|]. pose proof (uvarint_length (zz64 z)). unfold varint. lia.
  - simpl. destruct p; simpl; [lia|]. pose proof (uvarint_length (zz64 z)). unfold varint. lia.
  - simpl. destruct p; simpl; [lia|]. pose proof (uvarint_length (zz64 z)). unfold varint. lia.
  - simpl. lia.
  - cbn [enc]. unfold w_bytes. rewrite app_length. pose proof (w_len_length p (len s)). lia.
  - cbn [enc]. unfold w_bytes. rewrite app_length. pose proof (w_len_length p (len s)). lia.
  - rewrite enc_list_eq, app_length. pose proof (w_list_length p (len es) (type_of t)). lia.
  - rewrite enc_set_eq, app_length. pose proof (w_list_length p (len ks) (type_of t)). lia.
  - rewrite enc_map_eq, app_length. pose proof (w_map_length p (len es) (type_of t1) (type_of t2)). lia.
  - rewrite enc_struct_eq. apply enc_go_len_pos.
  - destruct o; [|discriminate Hn]. cbn [enc]. cbn [ty_ok] in Hok. apply andb_true_iff in Hok. destruct Hok as [Hok1 Hok2].
    apply IHt; [exact Hok1 | exact Hwf |]. eapply wf_not_ptr; eauto.
Qed.

(* ---------- scalar cases ---------- *)
Lemma dec_bool_eq f p flags old b : dec (S f) p ThBool flags old b = tlet (x, r) <- r_byte b in TOk (TvBool (negb (x =? 0)), r).
Proof. reflexivity. Qed.
Lemma dec_i8_eq f p flags old b : dec (S f) p ThI8 flags old b = tlet (x, r) <- r_byte b in TOk (TvInt (s8 x), r).
Proof. reflexivity. Qed.
Lemma dec_i16_eq f p flags old b : dec (S f) p ThI16 flags old b = tlet (x, r) <- r_i16 p b in TOk (TvInt x, r).
Proof. reflexivity. Qed.
Lemma dec_i32_eq f p flags old b : dec (S f) p ThI32 flags old b = tlet (x, r) <- r_i32 p b in TOk (TvInt x, r).
Proof. reflexivity. Qed.
Lemma dec_i64_eq f p flags old b : dec (S f) p ThI64 flags old b = tlet (x, r) <- r_i64 p b in TOk (TvInt x, r).
Proof. reflexivity. Qed.
Lemma dec_f64_eq f p flags old b : dec (S f) p ThF64 flags old b = tlet (x, r) <- r_f64 p b in TOk (TvInt x, r).
Proof. reflexivity. Qed.
Lemma dec_str_eq f p flags old b : dec (S f) p ThStr flags old b = tlet (s, r) <- r_bytes p b in TOk (TvBytes true s, r).
Proof. reflexivity. Qed.
Lemma dec_bytes_eq f p flags old b : dec (S f) p ThBytes flags old b = tlet (s, r) <- r_bytes p b in TOk (TvBytes true s, r).
Proof. reflexivity. Qed.


Lemma main_bool : mainP ThBool.
Proof.
  intros p v flags fuel _ Hwf _ Hf. destruct v; try discriminate Hwf. destruct fuel; [simpl in Hf; lia|].
  intros j rest. rewrite dec_bool_eq. cbn [enc dval]. rewrite (r_byte_spec _ j rest), tbind_res3. unfold res3.
  destruct (j <? _)%nat; [reflexivity|]. destruct b; reflexivity.
Qed.
Lemma main_i8 : mainP ThI8.
Proof.
  intros p v flags fuel _ Hwf _ Hf. destruct v; try discriminate Hwf. destruct fuel; [simpl in Hf; lia|].
  intros j rest. rewrite dec_i8_eq. cbn [enc dval]. rewrite (r_byte_spec _ j rest), tbind_res3. unfold res3.
  destruct (j <? _)%nat; [reflexivity|]. cbn [tval_wf] in Hwf. rewrite s8_w8 by lia. reflexivity.
Qed.
Lemma main_i16 : mainP ThI16.
Proof.
  intros p v flags fuel _ Hwf _ Hf. destruct v; try discriminate Hwf. destruct fuel; [simpl in Hf; lia|].
  intros j rest. rewrite dec_i16_eq. cbn [enc dval]. cbn [tval_wf] in Hwf. rewrite (r_i16_spec p z ltac:(lia) j rest), tbind_res3. unfold res3.
  destruct (j <? _)%nat; reflexivity.
Qed.
Lemma main_i32 : mainP ThI32.
Proof.
  intros p v flags fuel _ Hwf _ Hf. destruct v; try discriminate Hwf. destruct fuel; [simpl in Hf; lia|].
  intros j rest. rewrite dec_i32_eq. cbn [enc dval]. cbn [tval_wf] in Hwf. rewrite (r_i32_spec p z ltac:(lia) j rest), tbind_res3. unfold res3.
  destruct (j <? _)%nat; reflexivity.
Qed.
Lemma main_i64 : mainP ThI64.
Proof.
  intros p v flags fuel _ Hwf _ Hf. destruct v; try discriminate Hwf. destruct fuel; [simpl in Hf; lia|].
  intros j rest. rewrite dec_i64_eq. cbn [enc dval]. cbn [tval_wf] in Hwf. rewrite (r_i64_spec p z ltac:(lia) j rest), tbind_res3. unfold res3.
  destruct (j <? _)%nat; reflexivity.
Qed.
Lemma main_f64 : mainP ThF64.
Proof.
  intros p v flags fuel _ Hwf _ Hf. destruct v; try discriminate Hwf. destruct fuel; [simpl in Hf; lia|].
  intros j rest. rewrite dec_f64_eq. cbn [enc dval]. cbn [tval_wf] in Hwf. rewrite (r_f64_spec p z ltac:(lia) j rest), tbind_res3. unfold res3.
  destruct (j <? _)%nat; reflexivity.
Qed.
Lemma main_str : mainP ThStr.
Proof.
  intros p v flags fuel _ Hwf _ Hf. destruct v; try discriminate Hwf. destruct fuel; [simpl in Hf; lia|].
  intros j rest. rewrite dec_str_eq. cbn [enc dval]. cbn [tval_wf] in Hwf. unfold tlim in Hwf.
  rewrite (r_bytes_spec p s ltac:(lia) j rest), tbind_res3. unfold res3.
  destruct (j <? _)%nat; reflexivity.
Qed.
Lemma main_bytes : mainP ThBytes.
Proof.
  intros p v flags fuel _ Hwf _ Hf. destruct v; try discriminate Hwf. destruct fuel; [simpl in Hf; lia|].
  intros j rest. rewrite dec_bytes_eq. cbn [enc dval]. cbn [tval_wf] in Hwf. unfold tlim in Hwf.
  rewrite (r_bytes_spec p s ltac:(lia) j rest), tbind_res3. unfold res3.
  destruct (j <? _)%nat; reflexivity.
Qed.

(* ---------- pointers ---------- *)
Lemma main_ptr t : mainP t -> mainP (ThPtr t).
Proof.
  intros IH p v flags fuel Hok Hwf Hn Hf. destruct v; try discriminate Hwf. destruct o; [|discriminate Hn].
  cbn [ty_ok] in Hok. apply andb_true_iff in Hok. destruct Hok as [Hok1 Hok2].
  destruct fuel; [simpl in Hf; lia|].
  intros j rest. rewrite dec_ptr_eq. cbn [enc dval zero_of]. cbn [tval_wf] in Hwf. cbn [tdepth] in Hf.
  rewrite (IH p t0 flags fuel Hok1 Hwf (wf_not_ptr _ _ Hwf Hok2) ltac:(cbn [enc] in Hf; lia) j rest), tbind_res3.
  unfold res3. destruct (j <? _)%nat; reflexivity.
Qed.

(* ---------- lists ---------- *)
Lemma wf_list_inv et nn es : tval_wf (ThList et) (TvList nn es) = true ->
  len es < tlim /\ Forall (fun x => tval_wf et x = true /\ nilp x = false) es.
Proof.
  cbn [tval_wf]. intros H. apply andb_true_iff in H. destruct H as [H H2]. apply andb_true_iff in H. destruct H as [H0 H1].
  split; [apply Z.ltb_lt in H0; exact H0|]. clear H0 H1. induction es as [|x r IH]; constructor.
  - apply andb_true_iff in H2. destruct H2 as [H2 _]. apply andb_true_iff in H2. destruct H2 as [Ha Hb].
    split; [exact Ha|]. unfold nilp. destruct (match x with TvPtr None => true | _ => false end); [discriminate|reflexivity].
  - apply IH. apply andb_true_iff in H2. apply H2.
Qed.

Lemma firstn_len_step {A} (j a K' : nat) (w1 w2 : list A) :
  length w1 = a -> (1 <= a)%nat -> (a <= j)%nat -> (length (firstn j (w1 ++ w2)) < S K')%nat ->
  (length (firstn (j - a) w2) < K')%nat.
Proof. intros H1 H2 H3. rewrite !firstn_length, app_length. lia. Qed.

Lemma lloop_spec f p et flags : mainP et -> ty_ok et = true -> forall es,
  Forall (fun x => tval_wf et x = true /\ nilp x = false) es ->
  (length (enc_elems p et es) + tdepth et <= f)%nat ->
  forall K acc j rest, (length (firstn j (enc_elems p et es ++ rest)) < K)%nat ->
  lloop f p et flags K (len es) acc (firstn j (enc_elems p et es ++ rest)) =
    if (j <? length (enc_elems p et es))%nat then TErr EUnexpectedEOF
    else TOk (TvList true (rev acc ++ map (dval et) es), firstn (j - length (enc_elems p et es)) rest).
Proof.
  intros IH Hok es. induction es as [|x es' IHes]; intros HF Hf K acc j rest HK.
  - rewrite lloop_eq. cbn. rewrite app_nil_r, Nat.sub_0_r. reflexivity.
  - rewrite lloop_eq. replace (len (x :: es') <=? 0) with false by (unfold len; cbn [length]; lia).
    destruct K as [|K']; [lia|]. inversion HF as [|? ? [Hx1 Hx2] HF']; subst.
    rewrite enc_elems_cons in *. rewrite app_length in *. rewrite <- app_assoc in *.
    pose proof (enc_len_pos p et x Hok Hx1 Hx2) as Hpos.
    rewrite (IH p x (Z.land flags f_strict) f Hok Hx1 Hx2 ltac:(lia) j), dee_res3.
    destruct (Nat.ltb_spec j (length (enc p et x))).
    + replace (j <? _)%nat with true by (symmetry; apply Nat.ltb_lt; lia). reflexivity.
    + cbn [tbind]. replace (len (x :: es') - 1) with (len es') by (unfold len; cbn [length]; lia).
      rewrite IHes; [| exact HF' | lia | eapply firstn_len_step; eauto].
      destruct (Nat.ltb_spec (j - length (enc p et x)) (length (enc_elems p et es'))).
      * replace (j <? _)%nat with true by (symmetry; apply Nat.ltb_lt; lia). reflexivity.
      * replace (j <? _)%nat with false by (symmetry; apply Nat.ltb_ge; lia).
        cbn [rev map]. rewrite <- app_assoc. cbn [app]. do 3 f_equal. lia.
Qed.

Lemma main_list et : mainP et -> mainP (ThList et).
Proof.
  intros IH p v flags fuel Hok Hwf Hn Hf. destruct v; try discriminate Hwf.
  destruct fuel; [simpl in Hf; lia|]. cbn [ty_ok] in Hok. apply wf_list_inv in Hwf. destruct Hwf as [Hlen HF].
  intros j rest. rewrite dec_list_eq, enc_list_eq in *. rewrite <- app_assoc. cbn [dval].
  pose proof (type_of_range et) as Hty. unfold tlim in Hlen.
  rewrite (r_list_spec p (len es) (type_of et) ltac:(unfold len in *; lia) ltac:(lia) j), tbind_res3.
  rewrite app_length in *. pose proof (w_list_length p (len es) (type_of et)) as Hh.
  destruct (Nat.ltb_spec j (length (w_list p (len es) (type_of et)))); [rewrite res3_lt by lia; reflexivity|].
  cbv zeta. replace (type_of et =? c_TRUE) with false by (unfold c_TRUE; lia).
  rewrite Z.eqb_refl. cbn [negb]. replace (len es <? 0) with false by (unfold len; lia).
  cbn [tdepth] in Hf.
  rewrite (lloop_spec fuel p et flags IH Hok es HF ltac:(lia)) by lia. cbn [rev app].
  destruct (Nat.ltb_spec (j - length (w_list p (len es) (type_of et))) (length (enc_elems p et es))).
  - rewrite res3_lt by lia. rewrite eofc_pos by lia. reflexivity.
  - rewrite res3_ge by lia. do 3 f_equal. lia.
Qed.

(* ---------- sets ---------- *)
Lemma key_facts kt v : is_key_ty kt = true -> tval_wf kt v = true -> dval kt v = v /\ nilp v = false /\ ty_ok kt = true.
Proof.
  intros Hk Hwf. destruct kt; try discriminate Hk; destruct v; try discriminate Hwf; repeat split.
  cbn [tval_wf] in Hwf. destruct nonnil; [reflexivity | discriminate Hwf].
Qed.
Fixpoint sdist (kt : tty) (ks : list tval) : Prop :=
  match ks with [] => True | x :: r => tval_wf kt x = true /\ (forall y, In y r -> tval_eqb x y = false) /\ sdist kt r end.
Lemma not_existsb {A} (g : A -> bool) l : negb (existsb g l) = true -> forall y, In y l -> g y = false.
Proof.
  intros H y Hy. destruct (g y) eqn:E; [|reflexivity]. exfalso.
  assert (existsb g l = true) by (apply existsb_exists; eauto). rewrite H0 in H. discriminate.
Qed.
Lemma wf_set_inv kt nn ks : tval_wf (ThSet kt) (TvSet nn ks) = true -> len ks < tlim /\ sdist kt ks.
Proof.
  cbn [tval_wf]. intros H. apply andb_true_iff in H. destruct H as [H H2]. apply andb_true_iff in H. destruct H as [H0 H1].
  split; [apply Z.ltb_lt in H0; exact H0|]. clear H0 H1. induction ks as [|x r IH]; cbn [sdist]; [exact I|].
  apply andb_true_iff in H2. destruct H2 as [H2 H3]. apply andb_true_iff in H2. destruct H2 as [Ha Hb].
  split; [exact Ha|]. split; [apply not_existsb; exact Hb | apply IH; exact H3].
Qed.
Lemma set_add_new acc k : (forall a, In a acc -> tval_eqb a k = false) -> set_add acc k = acc ++ [k].
Proof.
  induction acc as [|a r IH]; intros H; [reflexivity|]. cbn [set_add]. rewrite (H a (or_introl eq_refl)).
  cbn [app]. f_equal. apply IH. intros b Hb. apply H. right. exact Hb.
Qed.

Lemma stloop_spec f p kt flags : mainP kt -> is_key_ty kt = true -> forall ks, sdist kt ks ->
  (length (enc_elems p kt ks) + tdepth kt <= f)%nat ->
  forall K acc j rest, (forall a y, In a acc -> In y ks -> tval_eqb a y = false) ->
  (length (firstn j (enc_elems p kt ks ++ rest)) < K)%nat ->
  stloop f p kt flags K (len ks) acc (firstn j (enc_elems p kt ks ++ rest)) =
    if (j <? length (enc_elems p kt ks))%nat then TErr EUnexpectedEOF
    else TOk (TvSet true (acc ++ ks), firstn (j - length (enc_elems p kt ks)) rest).
Proof.
  intros IH Hkey ks. induction ks as [|x ks' IHks]; intros HD Hf K acc j rest Hacc HK.
  - rewrite stloop_eq. cbn. rewrite app_nil_r, Nat.sub_0_r. reflexivity.
  - rewrite stloop_eq. replace (len (x :: ks') <=? 0) with false by (unfold len; cbn [length]; lia).
    destruct K as [|K']; [lia|]. cbn [sdist] in HD. destruct HD as [Hx1 [Hx3 HD']].
    destruct (key_facts kt x Hkey Hx1) as [Hdv [Hx2 Hok]].
    rewrite enc_elems_cons in *. rewrite app_length in *. rewrite <- app_assoc in *.
    pose proof (enc_len_pos p kt x Hok Hx1 Hx2) as Hpos.
    rewrite (IH p x (Z.land flags f_strict) f Hok Hx1 Hx2 ltac:(lia) j), dee_res3.
    destruct (Nat.ltb_spec j (length (enc p kt x))).
    + replace (j <? _)%nat with true by (symmetry; apply Nat.ltb_lt; lia). reflexivity.
    + cbn [tbind]. replace (len (x :: ks') - 1) with (len ks') by (unfold len; cbn [length]; lia).
      rewrite Hdv. rewrite set_add_new by (intros a Ha; apply Hacc; [exact Ha | left; reflexivity]).
      rewrite IHks; [| exact HD' | lia | | eapply firstn_len_step; eauto].
      * destruct (Nat.ltb_spec (j - length (enc p kt x)) (length (enc_elems p kt ks'))).
        -- replace (j <? _)%nat with true by (symmetry; apply Nat.ltb_lt; lia). reflexivity.
        -- replace (j <? _)%nat with false by (symmetry; apply Nat.ltb_ge; lia).
           rewrite <- app_assoc. cbn [app]. do 3 f_equal. lia.
      * intros a y Ha Hy. apply in_app_or in Ha. destruct Ha as [Ha|[Ha|[]]].
        -- apply Hacc; [exact Ha | right; exact Hy].
        -- subst a. apply Hx3. exact Hy.
Qed.

Lemma main_set kt : mainP kt -> mainP (ThSet kt).
Proof.
  intros IH p v flags fuel Hok Hwf Hn Hf. destruct v; try discriminate Hwf.
  destruct fuel; [simpl in Hf; lia|]. cbn [ty_ok] in Hok. apply wf_set_inv in Hwf. destruct Hwf as [Hlen HD].
  intros j rest. rewrite dec_set_eq, enc_set_eq in *. rewrite <- app_assoc. cbn [dval].
  pose proof (type_of_range kt) as Hty. unfold tlim in Hlen.
  rewrite (r_list_spec p (len ks) (type_of kt) ltac:(unfold len in *; lia) ltac:(lia) j), tbind_res3.
  rewrite app_length in *. pose proof (w_list_length p (len ks) (type_of kt)) as Hh.
  destruct (Nat.ltb_spec j (length (w_list p (len ks) (type_of kt)))); [rewrite res3_lt by lia; reflexivity|].
  cbv zeta. replace (type_of kt =? c_TRUE) with false by (unfold c_TRUE; lia).
  rewrite Z.eqb_refl. cbn [negb]. replace (len ks <? 0) with false by (unfold len; lia).
  destruct (len ks =? 0) eqn:E0.
  - destruct ks; [|unfold len in E0; cbn [length] in E0; lia]. cbn [enc_elems app length].
    rewrite res3_ge by lia. do 3 f_equal. lia.
  - cbn [tdepth] in Hf.
    rewrite (stloop_spec fuel p kt flags IH Hok ks HD ltac:(lia)); [ | intros a y [] | lia]. cbn [app].
    destruct (Nat.ltb_spec (j - length (w_list p (len ks) (type_of kt))) (length (enc_elems p kt ks))).
    + rewrite res3_lt by lia. rewrite eofc_pos by lia. reflexivity.
    + rewrite res3_ge by lia. do 3 f_equal. lia.
Qed.

(* ---------- maps ---------- *)
Fixpoint mdist (kt vt : tty) (es : list (tval * tval)) : Prop :=
  match es with
  | [] => True
  | kx :: r => tval_wf kt (fst kx) = true /\ tval_wf vt (snd kx) = true /\ nilp (snd kx) = false /\
               (forall kv, In kv r -> tval_eqb (fst kx) (fst kv) = false) /\ mdist kt vt r
  end.
Lemma wf_map_inv kt vt nn es : tval_wf (ThMap kt vt) (TvMap nn es) = true -> len es < tlim /\ mdist kt vt es.
Proof.
  cbn [tval_wf]. intros H. apply andb_true_iff in H. destruct H as [H H2]. apply andb_true_iff in H. destruct H as [H0 H1].
  split; [apply Z.ltb_lt in H0; exact H0|]. clear H0 H1. induction es as [|[k x] r IH]; cbn [mdist]; [exact I|].
  apply andb_true_iff in H2. destruct H2 as [H2 H3]. apply andb_true_iff in H2. destruct H2 as [H2 Hd].
  apply andb_true_iff in H2. destruct H2 as [H2 Hc]. apply andb_true_iff in H2. destruct H2 as [Ha Hb].
  cbn [fst snd]. repeat split; try assumption.
  - unfold nilp. destruct (match x with TvPtr None => true | _ => false end); [discriminate|reflexivity].
  - apply (not_existsb (fun kv => tval_eqb k (fst kv))). exact Hd.
  - apply IH. exact H3.
Qed.
Lemma map_set_new acc k y : (forall a, In a acc -> tval_eqb (fst a) k = false) -> map_set acc k y = acc ++ [(k, y)].
Proof.
  induction acc as [|[a b] r IH]; intros H; [reflexivity|]. cbn [map_set]. rewrite (H (a, b) (or_introl eq_refl) : tval_eqb a k = false).
  cbn [app]. f_equal. apply IH. intros c Hc. apply H. right. exact Hc.
Qed.

Definition dpair (vt : tty) (kx : tval * tval) : tval * tval := (fst kx, dval vt (snd kx)).
Lemma mloop_spec f p kt vt flags : mainP kt -> mainP vt -> is_key_ty kt = true -> ty_ok vt = true -> forall es, mdist kt vt es ->
  (length (enc_pairs p kt vt es) + Nat.max (tdepth kt) (tdepth vt) <= f)%nat ->
  forall K acc j rest, (forall a kv, In a acc -> In kv es -> tval_eqb (fst a) (fst kv) = false) ->
  (length (firstn j (enc_pairs p kt vt es ++ rest)) < K)%nat ->
  mloop f p kt vt flags K (len es) acc (firstn j (enc_pairs p kt vt es ++ rest)) =
    if (j <? length (enc_pairs p kt vt es))%nat then TErr EUnexpectedEOF
    else TOk (TvMap true (acc ++ map (dpair vt) es), firstn (j - length (enc_pairs p kt vt es)) rest).
Proof.
  intros IHk IHv Hkey Hokv es. induction es as [|[k x] es' IHes]; intros HD Hf K acc j rest Hacc HK.
  - rewrite mloop_eq. cbn. rewrite app_nil_r, Nat.sub_0_r. reflexivity.
  - rewrite mloop_eq. replace (len ((k, x) :: es') <=? 0) with false by (unfold len; cbn [length]; lia).
    destruct K as [|K']; [lia|]. cbn [mdist fst snd] in HD. destruct HD as [Hk1 [Hx1 [Hx2 [Hk3 HD']]]].
    destruct (key_facts kt k Hkey Hk1) as [Hdv [Hk2 Hokk]].
    rewrite enc_pairs_cons in *. rewrite !app_length in *. rewrite <- !app_assoc in *.
    pose proof (enc_len_pos p kt k Hokk Hk1 Hk2) as Hposk.
    pose proof (enc_len_pos p vt x Hokv Hx1 Hx2) as Hposx.
    rewrite (IHk p k (Z.land flags f_strict) f Hokk Hk1 Hk2 ltac:(lia) j), dee_res3.
    destruct (Nat.ltb_spec j (length (enc p kt k))).
    + replace (j <? _)%nat with true by (symmetry; apply Nat.ltb_lt; lia). reflexivity.
    + cbn [tbind].
      rewrite (IHv p x (Z.land flags f_strict) f Hokv Hx1 Hx2 ltac:(lia) (j - length (enc p kt k))%nat), dee_res3.
      destruct (Nat.ltb_spec (j - length (enc p kt k)) (length (enc p vt x))).
      * replace (j <? _)%nat with true by (symmetry; apply Nat.ltb_lt; lia). reflexivity.
      * cbn [tbind]. replace (len ((k, x) :: es') - 1) with (len es') by (unfold len; cbn [length]; lia).
        rewrite Hdv. rewrite map_set_new by (intros a Ha; apply (Hacc a (k, x)); [exact Ha | left; reflexivity]).
        rewrite IHes; [| exact HD' | lia | | ].
        -- destruct (Nat.ltb_spec (j - length (enc p kt k) - length (enc p vt x)) (length (enc_pairs p kt vt es'))).
           ++ replace (j <? _)%nat with true by (symmetry; apply Nat.ltb_lt; lia). reflexivity.
           ++ replace (j <? _)%nat with false by (symmetry; apply Nat.ltb_ge; lia).
              rewrite <- app_assoc. cbn [app map]. unfold dpair at 2. cbn [fst snd]. do 3 f_equal. lia.
        -- intros a kv Ha Hkv. apply in_app_or in Ha. destruct Ha as [Ha|[Ha|[]]].
           ++ apply Hacc; [exact Ha | right; exact Hkv].
           ++ subst a. cbn [fst]. apply Hk3. exact Hkv.
        -- revert HK. rewrite !firstn_length, !app_length. lia.
Qed.

Lemma main_map kt vt : mainP kt -> mainP vt -> mainP (ThMap kt vt).
Proof.
  intros IHk IHv p v flags fuel Hok Hwf Hn Hf. destruct v; try discriminate Hwf.
  destruct fuel; [simpl in Hf; lia|]. cbn [ty_ok] in Hok.
  apply andb_true_iff in Hok. destruct Hok as [Hok _]. apply andb_true_iff in Hok. destruct Hok as [Hkey Hokv].
  apply wf_map_inv in Hwf. destruct Hwf as [Hlen HD].
  intros j rest. rewrite dec_map_eq, enc_map_eq in *. rewrite <- app_assoc. cbn [dval].
  pose proof (type_of_range kt) as Htk. pose proof (type_of_range vt) as Htv. unfold tlim in Hlen.
  rewrite (r_map_spec p (len es) (type_of kt) (type_of vt) ltac:(unfold len in *; lia) ltac:(lia) ltac:(lia) j), tbind_res3.
  rewrite app_length in *. pose proof (w_map_length p (len es) (type_of kt) (type_of vt)) as Hh.
  destruct (Nat.ltb_spec j (length (w_map p (len es) (type_of kt) (type_of vt)))); [rewrite res3_lt by lia; reflexivity|].
  destruct (len es =? 0) eqn:E0.
  - destruct es; [|unfold len in E0; cbn [length] in E0; lia].
    replace (map_res p (len []) (type_of kt) (type_of vt)) with (0, (if p then type_of kt else 0), (if p then type_of vt else 0)) by (destruct p; reflexivity).
    cbn [enc_pairs app length map]. unfold len in *. cbn [length Z.of_nat] in *. cbn.
    rewrite res3_ge by lia. do 3 f_equal. lia.
  - replace (map_res p (len es) (type_of kt) (type_of vt)) with (len es, type_of kt, type_of vt) by (unfold map_res; rewrite E0; destruct p; reflexivity).
    cbv iota beta. rewrite E0. replace (len es <? 0) with false by (unfold len; lia). rewrite !Z.eqb_refl. cbn [negb].
    cbn [tdepth] in Hf.
    rewrite (mloop_spec fuel p kt vt flags IHk IHv Hkey Hokv es HD ltac:(lia)); [ | intros a y [] | lia]. cbn [app].
    change (fun kx : tval * tval => (fst kx, dval vt (snd kx))) with (dpair vt).
    destruct (Nat.ltb_spec (j - length (w_map p (len es) (type_of kt) (type_of vt))) (length (enc_pairs p kt vt es))).
    + rewrite res3_lt by lia. rewrite eofc_pos by lia. reflexivity.
    + rewrite res3_ge by lia. do 3 f_equal. lia.
Qed.

(* ====================================================================== *)
(* ---------- sorting ---------- *)
Fixpoint asc (lo : Z) (l : list Z) : Prop := match l with [] => True | a :: r => lo < a /\ asc a r end.
Lemma asc_weaken l : forall lo lo', lo' <= lo -> asc lo l -> asc lo' l.
Proof. destruct l; intros lo lo' H Ha; [exact I|]. cbn [asc] in *. destruct Ha. split; [lia | assumption]. Qed.
Lemma asc_notin l : forall lo, asc lo l -> forall x, x <= lo -> ~ In x l.
Proof.
  induction l as [|a r IH]; intros lo Ha x Hx Hin; [exact Hin|]. cbn [asc] in Ha. destruct Ha as [H1 H2].
  destruct Hin as [->|Hin]; [lia|]. apply (IH a H2 x); [lia | exact Hin].
Qed.

Section Sort.
Context {A : Type}.
Definition eid (e : tfield * A) : Z := fld_id (fst e).
Lemma insert_in (x : tfield * A) l e : In e (insert_by_id x l) <-> e = x \/ In e l.
Proof.
  induction l as [|y r IH]; cbn [insert_by_id].
  - cbn. intuition.
  - destruct (_ <=? _); cbn [In]; [rewrite IH|]; intuition.
Qed.
Lemma insert_asc (x : tfield * A) l : forall lo, asc lo (map eid l) -> lo < eid x -> ~ In (eid x) (map eid l) ->
  asc lo (map eid (insert_by_id x l)).
Proof.
  induction l as [|y r IH]; intros lo Ha Hlo Hn; cbn [insert_by_id].
  - cbn. auto.
  - cbn [map asc] in Ha. destruct Ha as [H1 H2]. cbn [map In] in Hn.
    destruct (fld_id (fst y) <=? fld_id (fst x)) eqn:E.
    + cbn [map asc]. split; [exact H1|]. apply IH; [exact H2 | unfold eid in *; lia | tauto].
    + cbn [map asc]. unfold eid in *. repeat split; try lia. exact H2.
Qed.
Lemma sort_fold (l : list (tfield * A)) : forall acc lo,
  asc lo (map eid acc) -> NoDup (map eid l) -> (forall e, In e l -> ~ In (eid e) (map eid acc)) -> (forall e, In e l -> lo < eid e) ->
  asc lo (map eid (fold_left (fun acc x => insert_by_id x acc) l acc)) /\
  (forall e, In e (fold_left (fun acc x => insert_by_id x acc) l acc) <-> In e acc \/ In e l).
Proof.
  induction l as [|x r IH]; intros acc lo Ha Hnd Hnin Hlo; cbn [fold_left].
  - split; [exact Ha|]. intros e. cbn. tauto.
  - cbn [map] in Hnd. inversion Hnd as [|? ? Hx Hnd']; subst.
    destruct (IH (insert_by_id x acc) lo) as [H1 H2].
    + apply insert_asc; [exact Ha | apply Hlo; left; reflexivity | apply Hnin; left; reflexivity].
    + exact Hnd'.
    + intros e He Hin. apply in_map_iff in Hin. destruct Hin as [e' [He' Hin]]. apply insert_in in Hin. destruct Hin as [->|Hin].
      * apply Hx. rewrite He'. apply in_map. exact He.
      * apply (Hnin e (or_intror He)). rewrite <- He'. apply in_map. exact Hin.
    + intros e He. apply Hlo. right. exact He.
    + split; [exact H1|]. intros e. rewrite H2, insert_in. cbn [In]. intuition.
Qed.
Lemma sort_by_id_spec (l : list (tfield * A)) lo : NoDup (map eid l) -> (forall e, In e l -> lo < eid e) ->
  asc lo (map eid (sort_by_id l)) /\ (forall e, In e (sort_by_id l) <-> In e l).
Proof.
  intros Hnd Hlo. destruct (sort_fold l [] lo) as [H1 H2]; auto.
  - exact I.
  - split; [exact H1|]. intros e. unfold sort_by_id. rewrite H2. cbn. tauto.
Qed.
End Sort.

Lemma distinctZ_NoDup l : distinctZ l = true -> NoDup l.
Proof.
  induction l as [|x r IH]; intros H; constructor; cbn [distinctZ] in H; apply andb_true_iff in H; destruct H as [H1 H2].
  - intros Hin. assert (existsb (Z.eqb x) r = true) by (apply existsb_exists; exists x; split; [exact Hin | apply Z.eqb_refl]).
    rewrite H in H1. discriminate.
  - apply IH. exact H2.
Qed.

Lemma mk_encs_ids p fs : forall vs, length vs = length fs -> map eid (mk_encs p fs vs) = map fld_id fs.
Proof.
  induction fs as [|f fr IH]; intros [|x vr] H; try discriminate H; [reflexivity|].
  rewrite mk_encs_cons. cbn [map]. rewrite IH by (cbn in H; lia). reflexivity.
Qed.
Lemma mk_encs_in p fs : forall vs e, In e (mk_encs p fs vs) ->
  exists i, nth_error fs i = Some (fst e) /\ nth_error vs i = Some (fst (snd e)) /\ snd (snd e) = fbody p (fst e) (fst (snd e)).
Proof.
  induction fs as [|f fr IH]; intros [|x vr] e H; try contradiction H.
  rewrite mk_encs_cons in H. destruct H as [<-|H].
  - exists O. repeat split.
  - destruct (IH vr e H) as [i Hi]. exists (S i). exact Hi.
Qed.
Lemma mk_encs_nth p fs : forall vs i f x, nth_error fs i = Some f -> nth_error vs i = Some x -> In (f, (x, fbody p f x)) (mk_encs p fs vs).
Proof.
  induction fs as [|f0 fr IH]; intros [|x0 vr] [|i] f x Hf Hx; try discriminate.
  - cbn in Hf, Hx. inversion Hf; inversion Hx; subst. rewrite mk_encs_cons. left. reflexivity.
  - rewrite mk_encs_cons. right. eapply IH; eauto.
Qed.

(* ---------- bitset bounds, lookup ---------- *)
Lemma min_fold l : forall m, (forall x, In x l -> 1 <= x) -> (m = 0 \/ 1 <= m) ->
  (forall x, In x l -> fold_left (fun m i => if (i <? m) || (m =? 0) then i else m) l m <= x) /\
  (1 <= m -> fold_left (fun m i => if (i <? m) || (m =? 0) then i else m) l m <= m).
Proof.
  induction l as [|a r IH]; intros m Hl Hm; cbn [fold_left].
  - split; [intros x []| lia].
  - assert (Ha : 1 <= a) by (apply Hl; left; reflexivity).
    set (m' := if (a <? m) || (m =? 0) then a else m).
    assert (Hm' : 1 <= m' /\ m' <= a /\ (1 <= m -> m' <= m)) by (unfold m'; destruct ((a <? m) || (m =? 0)) eqn:E; lia).
    destruct (IH m' (fun x Hx => Hl x (or_intror Hx)) (or_intror (proj1 Hm'))) as [H1 H2].
    split.
    + intros x [<-|Hx]; [specialize (H2 (proj1 Hm')); lia | apply H1; exact Hx].
    + intros Hm1. specialize (H2 (proj1 Hm')). destruct Hm' as [_ [_ H3]]. specialize (H3 Hm1). lia.
Qed.
Lemma max_fold l : forall m, m <= fold_left Z.max l m /\ (forall x, In x l -> x <= fold_left Z.max l m).
Proof.
  induction l as [|a r IH]; intros m; cbn [fold_left].
  - split; [lia | intros x []].
  - destruct (IH (Z.max m a)) as [H1 H2]. split; [lia|]. intros x [<-|Hx]; [lia | apply H2; exact Hx].
Qed.
Lemma slot_bounds fs id : (forall x, In x (map fld_id fs) -> 1 <= x) -> In id (map fld_id fs) ->
  s_minID fs <= id <= s_maxID fs.
Proof.
  intros H Hin. unfold s_minID, s_maxID. split.
  - apply (proj1 (min_fold (map fld_id fs) 0 H (or_introl eq_refl))). exact Hin.
  - apply (proj2 (max_fold (map fld_id fs) 0)). exact Hin.
Qed.

Definition uniq_at (fs : list tfield) (i : nat) (id : Z) : Prop :=
  forall i' fd', nth_error fs i' = Some fd' -> fld_id fd' = id -> i' = i.
Lemma lookup_go_found fs : forall k i fd, nth_error fs i = Some fd -> uniq_at fs i (fld_id fd) ->
  lookup_go (fld_id fd) fs k = Some ((k + i)%nat, fd).
Proof.
  induction fs as [|a r IH]; intros k i fd Hn Hu; [destruct i; discriminate|].
  rewrite lookup_go_cons. destruct i as [|i].
  - cbn in Hn. inversion Hn; subst. rewrite Z.eqb_refl, Nat.add_0_r. reflexivity.
  - cbn in Hn. destruct (Z.eqb_spec (fld_id a) (fld_id fd)) as [E|E].
    + specialize (Hu O a eq_refl E). discriminate.
    + rewrite (IH (S k) i fd Hn). * f_equal. f_equal. lia.
      * intros i' fd' H1 H2. specialize (Hu (S i') fd' H1 H2). lia.
Qed.
Lemma NoDup_uniq fs i fd : NoDup (map fld_id fs) -> nth_error fs i = Some fd -> uniq_at fs i (fld_id fd).
Proof.
  intros Hnd Hn i' fd' Hn' Hid.
  apply (proj1 (NoDup_nth_error (map fld_id fs)) Hnd).
  - rewrite map_length. apply nth_error_Some. rewrite Hn'. discriminate.
  - rewrite !nth_error_map, Hn, Hn'. cbn. rewrite Hid. reflexivity.
Qed.

(* ---------- one field body ---------- *)
Definition fgood (fd : tfield) (x : tval) : Prop :=
  1 <= fld_id fd < 2 ^ 15 /\ ty_ok (fld_ty fd) = true /\ tval_wf (fld_ty fd) x = true /\
  (has_flag (fld_flags fd) f_enum = true -> fld_ty fd = ThI32) /\
  (has_flag (fld_flags fd) f_required = true -> nilp x = false) /\ mainP (fld_ty fd).

Lemma fdec_spec f p fd x fl : fgood fd x -> nilp x = false -> (length (fbody p fd x) + tdepth (fld_ty fd) <= f)%nat ->
  rspec (fdec f p fd fl (zero_of (fld_ty fd))) (fbody p fd x) (dval (fld_ty fd) x).
Proof.
  intros [Hid [Hok [Hwf [Hen [_ IH]]]]] Hn Hf. destruct fd as [id fl0 ft]. unfold fdec, fbody in *. cbn [fld_flags fld_ty] in *.
  destruct (has_flag fl0 f_enum) eqn:E.
  - rewrite (Hen eq_refl) in *. destruct x; try discriminate Hwf. cbn [tval_wf] in Hwf.
    rewrite s32_id in * by lia. cbn [dval].
    intros j rest. rewrite (r_i32_spec p z ltac:(lia) j rest), tbind_res3. unfold res3. destruct (j <? _)%nat; reflexivity.
  - apply IH; assumption.
Qed.

Lemma bool_field ft x : ty_ok ft = true -> type_of ft = c_BOOL -> tval_wf ft x = true -> nilp x = false ->
  wrap_ptrs ft (TvBool ((if deref_bool x then c_TRUE else c_BOOL) =? c_TRUE)) = dval ft x.
Proof.
  intros Hok Hty Hwf Hn. destruct ft; try discriminate Hty.
  - destruct x; try discriminate Hwf. destruct b; reflexivity.
  - cbn [ty_ok] in Hok. apply andb_true_iff in Hok. destruct Hok as [_ Hnp]. cbn [type_of] in Hty.
    destruct ft; try discriminate Hty; try discriminate Hnp.
    destruct x; try discriminate Hwf. destruct o; [|discriminate Hn]. cbn [tval_wf] in Hwf.
    destruct t; try discriminate Hwf. destruct b; reflexivity.
Qed.

(* ====================================================================== *)
Lemma sloop_err_hdr nf j : 0 <= nf ->
  @TErr (tval * bytes) (if (nf >? 0) && (match eofc j with EEOF => true | _ => false end) then EUnexpectedEOF else eofc j) =
  TErr (if (nf =? 0) && (j =? 0)%nat then EEOF else EUnexpectedEOF).
Proof.
  intros H. unfold eofc. destruct j; cbn [Nat.eqb]; destruct (nf =? 0) eqn:E1; destruct (nf >? 0) eqn:E2; try reflexivity; lia.
Qed.

Lemma sloop_written f p fs flags i fd x cur last :
  nth_error fs i = Some fd -> uniq_at fs i (fld_id fd) ->
  (forall y, In y (map fld_id fs) -> 1 <= y) ->
  fgood fd x -> nilp x = false ->
  0 <= last < fld_id fd ->
  nth i cur (zero_of (fld_ty fd)) = zero_of (fld_ty fd) ->
  let ty := type_of (fld_ty fd) in
  let wty := if coalesce p ty && deref_bool x then c_TRUE else ty in
  let B := if coalesce p ty then [] else fbody p fd x in
  (length B + tdepth (fld_ty fd) <= f)%nat ->
  forall K' j R nf seen, 0 <= nf ->
  sloop f p fs flags (S K') (firstn j (fhdr p last (fld_id fd) wty ++ B ++ R)) last nf cur seen =
    if (j <? length (fhdr p last (fld_id fd) wty) + length B)%nat
    then TErr (if (nf =? 0) && (j =? 0)%nat then EEOF else EUnexpectedEOF)
    else sloop f p fs flags K' (firstn (j - (length (fhdr p last (fld_id fd) wty) + length B)) R) (fld_id fd) (nf + 1)
           (set_nth cur i (dval (fld_ty fd) x)) ((fld_id fd - s_minID fs) :: seen).
Proof.
  intros Hn Hu Hids Hg Hnil Hlast Hold ty wty B Hf K' j R nf seen Hnf.
  pose proof Hg as [Hid [Hok [Hwf [Hen [Hreq IH]]]]].
  assert (Hty : 2 <= ty <= 12) by apply type_of_range.
  assert (Hwty : 1 <= wty <= 12) by (unfold wty, c_TRUE; destruct (_ && _); lia).
  assert (Hin : In (fld_id fd) (map fld_id fs)) by (apply in_map; eapply nth_error_In; eauto).
  pose proof (slot_bounds fs (fld_id fd) Hids Hin) as Hsb.
  pose proof (fhdr_length p last (fld_id fd) wty) as Hhl.
  rewrite sloop_S.
  rewrite (r_field_spec p last (fld_id fd) wty Hlast ltac:(lia) Hwty j (B ++ R)).
  destruct (Nat.ltb_spec j (length (fhdr p last (fld_id fd) wty))) as [Hj|Hj].
  { rewrite res3_lt by lia. replace (j <? _ + _)%nat with true by (symmetry; apply Nat.ltb_lt; lia).
    apply sloop_err_hdr; exact Hnf. }
  rewrite res3_ge by lia.
  pose proof (fhdr_res_id p last (fld_id fd) wty Hlast ltac:(lia)) as Hres.
  destruct (fhdr_res p last (fld_id fd) wty) as [[rid rty] isd]. destruct Hres as [Hrid Hrty]. subst rty.
  cbv iota beta. replace (wty =? c_STOP) with false by (unfold c_STOP; lia).
  cbv zeta. rewrite Hrid.
  replace ((fld_id fd - s_minID fs <? 0) || (fld_id fd - s_minID fs >=? s_maxID fs - s_minID fs + 1)) with false by lia.
  rewrite (lookup_go_found fs O i fd Hn Hu). cbn [Nat.add]. cbv iota beta.
  replace (_ / 64 >=? _ / 64 + 1) with false by (symmetry; rewrite Z.geb_leb; apply Z.leb_gt; dmlia).
  fold ty. unfold wty, B in *. clear wty B. destruct (coalesce p ty) eqn:Ec.
  - destruct p; [discriminate Ec|]. cbn [coalesce] in Ec. assert (Ety : ty = c_BOOL) by lia.
    cbn [andb is_compact app length] in *.
    rewrite Ety in *.
    replace (negb ((if deref_bool x then c_TRUE else c_BOOL) =? c_BOOL) && negb (((if deref_bool x then c_TRUE else c_BOOL) =? c_TRUE) && (c_BOOL =? c_BOOL))) with false by (destruct (deref_bool x); reflexivity).
    replace (((if deref_bool x then c_TRUE else c_BOOL) =? c_TRUE) || ((if deref_bool x then c_TRUE else c_BOOL) =? c_BOOL)) with true by (destruct (deref_bool x); reflexivity).
    rewrite (bool_field (fld_ty fd) x Hok Ety Hwf Hnil).
    rewrite Nat.add_0_r. replace (j <? _)%nat with false by (symmetry; apply Nat.ltb_ge; lia). reflexivity.
  - cbn [andb] in *. rewrite Z.eqb_refl. cbn [negb andb].
    replace (is_compact p && ((ty =? c_TRUE) || (ty =? c_BOOL))) with false.
    2:{ destruct p; [reflexivity|]. cbn [coalesce] in Ec. rewrite Ec. replace (ty =? c_TRUE) with false by (unfold c_TRUE; lia). reflexivity. }
    rewrite Hold.
    rewrite (fdec_spec f p fd x (Z.lor (Z.land flags f_strict) (fld_flags fd)) Hg Hnil Hf (j - length (fhdr p last (fld_id fd) ty))%nat R), dee_res3.
    destruct (Nat.ltb_spec (j - length (fhdr p last (fld_id fd) ty)) (length (fbody p fd x))).
    + replace (j <? _ + _)%nat with true by (symmetry; apply Nat.ltb_lt; lia). cbn [tbind].
      replace (j =? 0)%nat with false by (symmetry; apply Nat.eqb_neq; lia). rewrite andb_false_r. reflexivity.
    + replace (j <? _ + _)%nat with false by (symmetry; apply Nat.ltb_ge; lia). cbn [tbind].
      do 2 f_equal. lia.
Qed.

(* ---------- the decoded slots ---------- *)
Lemma set_nth_same l : forall i (v : tval), nth_error l i = Some v -> set_nth l i v = l.
Proof.
  induction l as [|a r IH]; intros [|i] v H; try discriminate H.
  - cbn in H. inversion H. reflexivity.
  - cbn in H. cbn [set_nth]. rewrite IH by exact H. reflexivity.
Qed.
Lemma cur_of_length rem fs : forall vs, length vs = length fs -> length (cur_of rem fs vs) = length fs.
Proof. induction fs as [|a r IH]; intros [|y vr] H; try discriminate H; [reflexivity|]. cbn [cur_of length]. rewrite IH by (cbn in H; lia). reflexivity. Qed.
Lemma cur_of_nth_error rem fs : forall vs i fd x, nth_error fs i = Some fd -> nth_error vs i = Some x ->
  nth_error (cur_of rem fs vs) i = Some (if existsb (Z.eqb (fld_id fd)) rem || fskip fd x then zero_of (fld_ty fd) else dval (fld_ty fd) x).
Proof.
  induction fs as [|a r IH]; intros [|y vr] [|i] fd x Hf Hx; try discriminate.
  - cbn in Hf, Hx. inversion Hf; inversion Hx; subst. reflexivity.
  - cbn in Hf, Hx. cbn [cur_of nth_error]. apply IH; assumption.
Qed.
Lemma cur_of_irrel id rem fs : forall vs, (forall fd, In fd fs -> fld_id fd <> id) -> cur_of (id :: rem) fs vs = cur_of rem fs vs.
Proof.
  induction fs as [|a r IH]; intros [|y vr] H; try reflexivity. cbn [cur_of existsb].
  replace (fld_id a =? id) with false by (symmetry; apply Z.eqb_neq; apply H; left; reflexivity). cbn [orb].
  rewrite IH by (intros fd Hfd; apply H; right; exact Hfd). reflexivity.
Qed.
Lemma cur_of_step id rem fs : forall vs i fd x, nth_error fs i = Some fd -> nth_error vs i = Some x -> fld_id fd = id -> uniq_at fs i id ->
  set_nth (cur_of (id :: rem) fs vs) i (if existsb (Z.eqb id) rem || fskip fd x then zero_of (fld_ty fd) else dval (fld_ty fd) x) = cur_of rem fs vs.
Proof.
  induction fs as [|a r IH]; intros [|y vr] [|i] fd x Hf Hx Hid Hu; try discriminate.
  - cbn in Hf, Hx. inversion Hf; inversion Hx; subst. cbn [cur_of set_nth]. f_equal.
    apply cur_of_irrel. intros fd' Hin Heq. apply In_nth_error in Hin. destruct Hin as [k Hk].
    specialize (Hu (S k) fd' Hk Heq). discriminate.
  - cbn in Hf, Hx. cbn [cur_of set_nth existsb].
    replace (fld_id a =? id) with false.
    2:{ symmetry. apply Z.eqb_neq. intros Heq. specialize (Hu O a eq_refl Heq). discriminate. }
    cbn [orb]. f_equal. apply IH; try assumption.
    intros i' fd' H1 H2. specialize (Hu (S i') fd' H1 H2). lia.
Qed.
Lemma cur_of_skip rem fs vs i fd x : nth_error fs i = Some fd -> nth_error vs i = Some x -> uniq_at fs i (fld_id fd) -> fskip fd x = true ->
  cur_of (fld_id fd :: rem) fs vs = cur_of rem fs vs.
Proof.
  intros Hf Hx Hu Hs. rewrite <- (cur_of_step (fld_id fd) rem fs vs i fd x Hf Hx eq_refl Hu). rewrite Hs, orb_true_r.
  symmetry. apply set_nth_same. rewrite (cur_of_nth_error _ fs vs i fd x Hf Hx). rewrite Hs, orb_true_r. reflexivity.
Qed.
Lemma cur_of_all rem fs : forall vs, length vs = length fs -> (forall fd, In fd fs -> In (fld_id fd) rem) -> cur_of rem fs vs = zero_fields fs.
Proof.
  induction fs as [|[id fl ft] r IH]; intros [|y vr] H Hin; try discriminate H; [reflexivity|].
  cbn [cur_of zero_fields fld_id fld_ty].
  replace (existsb (Z.eqb id) rem) with true.
  2:{ symmetry. apply existsb_exists. exists id. split; [apply (Hin (TField id fl ft)); left; reflexivity | apply Z.eqb_refl]. }
  cbn [orb]. f_equal. apply IH; [cbn in H; lia|]. intros fd Hfd. apply Hin. right. exact Hfd.
Qed.

Lemma Forall2_nth_error {A B} (P : A -> B -> Prop) l1 : forall l2 i a b, Forall2 P l1 l2 -> nth_error l1 i = Some a -> nth_error l2 i = Some b -> P a b.
Proof.
  induction l1 as [|x r IH]; intros l2 i a b HF H1 H2; [destruct i; discriminate|].
  inversion HF; subst. destruct i; cbn in H1, H2.
  - inversion H1; inversion H2; subst. assumption.
  - eapply IH; eauto.
Qed.
Lemma Forall2_in_l {A B} (P : A -> B -> Prop) l1 : forall l2 a, Forall2 P l1 l2 -> In a l1 -> exists b, P a b.
Proof.
  induction l1 as [|x r IH]; intros l2 a HF Hin; [contradiction|]. inversion HF; subst.
  destruct Hin as [<-|Hin]; [eauto | eapply IH; eauto].
Qed.
Lemma existsb_false {A} (g : A -> bool) l : (forall x, In x l -> g x = false) -> existsb g l = false.
Proof.
  induction l as [|a r IH]; intros H; [reflexivity|]. cbn [existsb]. rewrite (H a (or_introl eq_refl)), IH; [reflexivity|].
  intros x Hx. apply H. right. exact Hx.
Qed.

Lemma sloop_spec f p fs vs0 flags D :
  NoDup (map fld_id fs) -> Forall2 fgood fs vs0 -> (forall fd, In fd fs -> (tdepth (fld_ty fd) <= D)%nat) ->
  forall l last K nf seen j rest,
  (forall e, In e l -> exists i, nth_error fs i = Some (fst e) /\ nth_error vs0 i = Some (fst (snd e)) /\ snd (snd e) = fbody p (fst e) (fst (snd e))) ->
  asc last (map eid l) -> 0 <= last -> 0 <= nf ->
  (forall fd, In fd fs -> has_flag (fld_flags fd) f_required = true -> In (fld_id fd) (map eid l) \/ In (fld_id fd - s_minID fs) seen) ->
  (length (enc_go p l last) <= K)%nat -> (length (enc_go p l last) + D <= f)%nat ->
  sloop f p fs flags K (firstn j (enc_go p l last ++ rest)) last nf (cur_of (map eid l) fs vs0) seen =
    if (j <? length (enc_go p l last))%nat then TErr (if (nf =? 0) && (j =? 0)%nat then EEOF else EUnexpectedEOF)
    else TOk (TvStruct (cur_of [] fs vs0), firstn (j - length (enc_go p l last)) rest).
Proof.
  intros Hnd HF HD.
  assert (Hids : forall y, In y (map fld_id fs) -> 1 <= y).
  { intros y Hy. apply in_map_iff in Hy. destruct Hy as [fd [<- Hfd]]. destruct (Forall2_in_l _ _ _ _ HF Hfd) as [b Hb]. destruct Hb as [Hb _]. lia. }
  induction l as [|[fd [x body]] l' IHl]; intros last K nf seen j rest Hent Hasc Hlast Hnf Hseen HK Hf.
  - rewrite enc_go_nil in *. pose proof (stop_length p) as Hsl. destruct K as [|K']; [lia|].
    rewrite sloop_S, (r_field_stop_spec p j rest).
    destruct (Nat.ltb_spec j (length (w_field p 0 c_STOP))).
    + rewrite res3_lt by lia. apply sloop_err_hdr. exact Hnf.
    + rewrite res3_ge by lia. cbv iota beta. change (0 =? c_STOP) with true. cbv iota.
      replace (smissing fs seen) with false; [reflexivity|].
      symmetry. apply existsb_false. intros fd Hfd. destruct (has_flag (fld_flags fd) f_required) eqn:Er; [|reflexivity].
      destruct (Hseen fd Hfd Er) as [[]|Hin]. cbn [andb].
      replace (existsb (Z.eqb (fld_id fd - s_minID fs)) seen) with true; [reflexivity|].
      symmetry. apply existsb_exists. exists (fld_id fd - s_minID fs). split; [exact Hin | apply Z.eqb_refl].
  - destruct (Hent _ (or_introl eq_refl)) as [i [Hi1 [Hi2 Hi3]]]. cbn [fst snd] in Hi1, Hi2, Hi3. subst body.
    pose proof (NoDup_uniq fs i fd Hnd Hi1) as Hu.
    pose proof (Forall2_nth_error _ _ _ _ _ _ HF Hi1 Hi2) as Hg.
    pose proof Hg as [Hid [Hok [Hwf [Hen [Hreq IH]]]]].
    cbn [map] in *. change (eid (fd, (x, fbody p fd x))) with (fld_id fd) in *. cbn [asc] in Hasc. destruct Hasc as [Hlt Hasc].
    assert (Hent' : forall e, In e l' -> exists i, nth_error fs i = Some (fst e) /\ nth_error vs0 i = Some (fst (snd e)) /\ snd (snd e) = fbody p (fst e) (fst (snd e))) by (intros e He; apply Hent; right; exact He).
    rewrite enc_go_cons in *. destruct (fskip fd x) eqn:Es.
    + rewrite (cur_of_skip _ fs vs0 i fd x Hi1 Hi2 Hu Es).
      apply IHl; try assumption.
      * eapply asc_weaken; [|exact Hasc]. lia.
      * intros fd' Hfd' Er. destruct (Hseen fd' Hfd' Er) as [[Heq|Hin]|Hin]; [|left; exact Hin|right; exact Hin].
        exfalso. apply In_nth_error in Hfd'. destruct Hfd' as [i' Hi']. pose proof (Hu i' fd' Hi' (eq_sym Heq)). subst i'.
        rewrite Hi1 in Hi'. inversion Hi'; subst fd'. unfold fskip in Es. rewrite Er, (Hreq Er) in Es. discriminate Es.
    + cbv zeta in *. unfold fskip in Es. apply orb_false_elim in Es. destruct Es as [Hnil Hz].
      set (ty := type_of (fld_ty fd)) in *.
      set (wty := if coalesce p ty && deref_bool x then c_TRUE else ty) in *.
      set (B := if coalesce p ty then [] else fbody p fd x) in *.
      rewrite !app_length in HK, Hf. rewrite <- !app_assoc.
      pose proof (fhdr_length p last (fld_id fd) wty) as Hhl.
      pose proof (enc_go_len_pos p l' (fld_id fd)) as Hgl.
      destruct K as [|K']; [lia|].
      assert (HDfd : (tdepth (fld_ty fd) <= D)%nat) by (apply HD; eapply nth_error_In; eauto).
      rewrite (sloop_written f p fs flags i fd x _ last Hi1 Hu Hids Hg Hnil ltac:(lia)); [ | | fold ty; fold B; lia | exact Hnf].
      2:{ apply nth_error_nth. rewrite (cur_of_nth_error _ fs vs0 i fd x Hi1 Hi2). cbn [existsb]. rewrite Z.eqb_refl. reflexivity. }
      fold ty. fold wty. fold B. rewrite !app_length.
      destruct (Nat.ltb_spec j (length (fhdr p last (fld_id fd) wty) + length B)).
      * replace (j <? _)%nat with true by (symmetry; apply Nat.ltb_lt; lia). reflexivity.
      * pose proof (cur_of_step (fld_id fd) (map eid l') fs vs0 i fd x Hi1 Hi2 eq_refl Hu) as Hstep.
        replace (existsb (Z.eqb (fld_id fd)) (map eid l')) with false in Hstep.
        2:{ symmetry. apply existsb_false. intros y Hy. apply Z.eqb_neq. intros Heq. subst y. revert Hy. eapply asc_notin; [exact Hasc | lia]. }
        replace (fskip fd x) with false in Hstep by (unfold fskip; rewrite Hnil, Hz; reflexivity).
        cbn [orb] in Hstep. rewrite Hstep.
        rewrite IHl; try assumption; try lia.
        -- destruct (Nat.ltb_spec (j - (length (fhdr p last (fld_id fd) wty) + length B)) (length (enc_go p l' (fld_id fd)))).
           ++ replace (j <? _)%nat with true by (symmetry; apply Nat.ltb_lt; lia).
              replace (nf + 1 =? 0) with false by lia. replace (j =? 0)%nat with false by (symmetry; apply Nat.eqb_neq; lia).
              rewrite andb_false_r. reflexivity.
           ++ replace (j <? _)%nat with false by (symmetry; apply Nat.ltb_ge; lia). do 3 f_equal. lia.
        -- intros fd' Hfd' Er. destruct (Hseen fd' Hfd' Er) as [[Heq|Hin]|Hin].
           ++ right. left. rewrite Heq. reflexivity.
           ++ left. exact Hin.
           ++ right. right. exact Hin.
Qed.

(* ====================================================================== *)
(* ---------- structs ---------- *)
Lemma struct_good fs : forall vs, ty_ok (ThStruct fs) = true -> tval_wf (ThStruct fs) (TvStruct vs) = true ->
  Forall (fun f => mainP (fld_ty f)) fs -> NoDup (map fld_id fs) /\ Forall2 fgood fs vs.
Proof.
  intros vs Hok Hwf HP. cbn [ty_ok] in Hok. apply andb_true_iff in Hok. destruct Hok as [Hd Hok].
  split; [apply distinctZ_NoDup; exact Hd|]. clear Hd. cbn [tval_wf] in Hwf.
  revert vs Hwf. induction fs as [|[id fl ft] fr IH]; intros [|x vr] Hwf; try discriminate Hwf; constructor.
  - inversion HP as [|? ? HP1 HP2]; subst. cbn [fld_ty] in HP1.
    apply andb_true_iff in Hok. destruct Hok as [Hok _]. apply andb_true_iff in Hok. destruct Hok as [Hok _].
    apply andb_true_iff in Hok. destruct Hok as [Hok Hen]. apply andb_true_iff in Hok. destruct Hok as [Hok _].
    apply andb_true_iff in Hok. destruct Hok as [Hok Hty]. apply andb_true_iff in Hok. destruct Hok as [Hid1 Hid2].
    apply andb_true_iff in Hwf. destruct Hwf as [Hwf _]. apply andb_true_iff in Hwf. destruct Hwf as [Hwf Hreq].
    unfold fgood. cbn [fld_id fld_ty fld_flags]. repeat split; try assumption; try lia.
    + intros He. rewrite He in Hen. cbn [negb orb] in Hen. destruct ft; try discriminate Hen. reflexivity.
    + intros Hr. rewrite Hr in Hreq. cbn [andb] in Hreq. unfold nilp. destruct (match x with TvPtr None => true | _ => false end); [discriminate Hreq | reflexivity].
  - inversion HP as [|? ? HP1 HP2]; subst. apply IH; [ | exact HP2 | ].
    + apply andb_true_iff in Hok. apply Hok.
    + apply andb_true_iff in Hwf. apply Hwf.
Qed.
Lemma Forall2_len {A B} (P : A -> B -> Prop) l1 l2 : Forall2 P l1 l2 -> length l1 = length l2.
Proof. induction 1; cbn; congruence. Qed.
Lemma tdepth_struct fs : exists D, tdepth (ThStruct fs) = S D /\ forall fd, In fd fs -> (tdepth (fld_ty fd) <= D)%nat.
Proof.
  cbn [tdepth]. eexists. split; [reflexivity|]. induction fs as [|[id fl ft] r IH]; intros fd [].
  - subst fd. cbn [fld_ty]. lia.
  - specialize (IH fd H). lia.
Qed.

Lemma main_struct fs : Forall (fun f => mainP (fld_ty f)) fs -> mainP (ThStruct fs).
Proof.
  intros HP p v flags fuel Hok Hwf Hn Hf. destruct v; try discriminate Hwf.
  destruct (struct_good fs vs Hok Hwf HP) as [Hnd HF].
  destruct (tdepth_struct fs) as [D [HD1 HD2]]. rewrite HD1 in Hf.
  destruct fuel as [|f]; [lia|].
  assert (Hlen : length vs = length fs) by (symmetry; eapply Forall2_len; eauto).
  assert (Hids : forall fd, In fd fs -> 1 <= fld_id fd) by (intros fd Hfd; destruct (Forall2_in_l _ _ _ _ HF Hfd) as [b [Hb _]]; lia).
  destruct (sort_by_id_spec (mk_encs p fs vs) 0) as [Hasc Hin].
  { rewrite mk_encs_ids by exact Hlen. exact Hnd. }
  { intros e He. destruct (mk_encs_in p fs vs e He) as [i [Hi _]]. unfold eid. apply nth_error_In in Hi. specialize (Hids _ Hi). lia. }
  intros j rest. rewrite dec_struct_eq, enc_struct_eq in *. rewrite zero_struct_eq, dval_struct_eq.
  rewrite <- (cur_of_all (map eid (sort_by_id (mk_encs p fs vs))) fs vs Hlen).
  2:{ intros fd Hfd. apply In_nth_error in Hfd. destruct Hfd as [i Hi].
      destruct (nth_error vs i) as [x|] eqn:Hx.
      - apply (in_map eid _ (fd, (x, fbody p fd x))). apply Hin. eapply mk_encs_nth; eauto.
      - exfalso. apply nth_error_None in Hx. assert (i < length fs)%nat by (apply nth_error_Some; rewrite Hi; discriminate). lia. }
  rewrite (sloop_spec f p fs vs flags D Hnd HF HD2); try lia; try assumption.
  - unfold res3. destruct (j <? _)%nat; reflexivity.
  - intros e He. apply mk_encs_in. apply Hin. exact He.
  - intros fd Hfd _. left. apply In_nth_error in Hfd. destruct Hfd as [i Hi].
    destruct (nth_error vs i) as [x|] eqn:Hx.
    + apply (in_map eid _ (fd, (x, fbody p fd x))). apply Hin. eapply mk_encs_nth; eauto.
    + exfalso. apply nth_error_None in Hx. assert (i < length fs)%nat by (apply nth_error_Some; rewrite Hi; discriminate). lia.
Qed.

Theorem main_all : forall t, mainP t.
Proof.
  apply tty_ind'.
  - exact main_bool. - exact main_i8. - exact main_i16. - exact main_i32. - exact main_i64. - exact main_f64.
  - exact main_str. - exact main_bytes. - exact main_list. - exact main_set. - exact main_map. - exact main_struct. - exact main_ptr.
Qed.

(* ====================================================================== *)
(* ---------- normal forms ---------- *)
Definition tnorm_fields := fix go (fs : list tfield) (vs : list tval) : list tval :=
  match fs, vs with TField _ _ ft :: fr, x :: vr => tnorm ft x :: go fr vr | _, _ => [] end.
Lemma tnorm_struct_eq fs vs : tnorm (ThStruct fs) (TvStruct vs) = TvStruct (tnorm_fields fs vs).
Proof. reflexivity. Qed.
Lemma tnorm_list_eq et nn es : tnorm (ThList et) (TvList nn es) = TvList true (map (tnorm et) es).
Proof. reflexivity. Qed.
Lemma tnorm_map_eq kt vt nn es : tnorm (ThMap kt vt) (TvMap nn es) = TvMap true (map (fun kx => (fst kx, tnorm vt (snd kx))) es).
Proof.
  cbn [tnorm]. f_equal. induction es as [|[k x] r IH]; [reflexivity|]. cbn [map fst snd]. rewrite IH. reflexivity.
Qed.
Definition is_zero_fields := fix go (fs : list tfield) (vs : list tval) : bool :=
  match fs, vs with TField _ _ ft :: fr, x :: vr => is_zero_t ft x && go fr vr | _, _ => true end.
Lemma is_zero_struct_eq fs vs : is_zero_t (ThStruct fs) (TvStruct vs) = is_zero_fields fs vs.
Proof. reflexivity. Qed.
Definition wf_fields := fix go (fs : list tfield) (vs : list tval) : bool :=
  match fs, vs with
  | [], [] => true
  | TField _ fl ft :: fr, x :: vr => tval_wf ft x && negb (has_flag fl f_required && (match x with TvPtr None => true | _ => false end)) && go fr vr
  | _, _ => false
  end.
Lemma wf_struct_eq fs vs : tval_wf (ThStruct fs) (TvStruct vs) = wf_fields fs vs.
Proof. reflexivity. Qed.

Lemma len0 {A} (l : list A) : (len l =? 0) = true -> l = [].
Proof. destruct l; [reflexivity|]. unfold len. cbn [length]. lia. Qed.

Lemma zero_norm : forall t x, tval_wf t x = true -> is_zero_t t x = true -> tnorm t (zero_of t) = tnorm t x.
Proof.
  apply (tty_ind' (fun t => forall x, tval_wf t x = true -> is_zero_t t x = true -> tnorm t (zero_of t) = tnorm t x)).
  - intros x Hwf Hz. destruct x; try discriminate Hwf. destruct b; [discriminate Hz | reflexivity].
  - intros x Hwf Hz. destruct x; try discriminate Hwf. cbn in Hz. assert (z = 0) by lia. subst. reflexivity.
  - intros x Hwf Hz. destruct x; try discriminate Hwf. cbn in Hz. assert (z = 0) by lia. subst. reflexivity.
  - intros x Hwf Hz. destruct x; try discriminate Hwf. cbn in Hz. assert (z = 0) by lia. subst. reflexivity.
  - intros x Hwf Hz. destruct x; try discriminate Hwf. cbn in Hz. assert (z = 0) by lia. subst. reflexivity.
  - intros x Hwf Hz. destruct x; try discriminate Hwf. cbn [is_zero_t is_zero_at] in Hz. apply orb_true_iff in Hz.
    destruct Hz as [Hz|Hz]; [assert (z = 0) by lia | assert (z = 2 ^ 63) by lia]; subst; reflexivity.
  - intros x Hwf Hz. destruct x; try discriminate Hwf. cbn [is_zero_t is_zero_at] in Hz. apply len0 in Hz. subst. reflexivity.
  - intros x Hwf Hz. destruct x; try discriminate Hwf. cbn [is_zero_t is_zero_at is_zero] in Hz. rewrite orb_false_r in Hz.
    destruct nonnil; [discriminate Hz|]. cbn [tval_wf] in Hwf. apply andb_true_iff in Hwf. destruct Hwf as [_ Hwf]. cbn [orb] in Hwf.
    apply len0 in Hwf. subst. reflexivity.
  - intros t _ x Hwf Hz. destruct x; try discriminate Hwf. cbn [is_zero_t is_zero_at is_zero] in Hz.
    destruct nonnil; [discriminate Hz|]. cbn [tval_wf] in Hwf. apply andb_true_iff in Hwf. destruct Hwf as [Hwf _].
    apply andb_true_iff in Hwf. destruct Hwf as [_ Hwf]. cbn [orb] in Hwf. apply len0 in Hwf. subst. reflexivity.
  - intros t _ x Hwf Hz. destruct x; try discriminate Hwf. cbn [is_zero_t is_zero_at is_zero] in Hz.
    destruct nonnil; [discriminate Hz|]. cbn [tval_wf] in Hwf. apply andb_true_iff in Hwf. destruct Hwf as [Hwf _].
    apply andb_true_iff in Hwf. destruct Hwf as [_ Hwf]. cbn [orb] in Hwf. apply len0 in Hwf. subst. reflexivity.
  - intros k v _ _ x Hwf Hz. destruct x; try discriminate Hwf. cbn [is_zero_t is_zero_at is_zero] in Hz.
    destruct nonnil; [discriminate Hz|]. cbn [tval_wf] in Hwf. apply andb_true_iff in Hwf. destruct Hwf as [Hwf _].
    apply andb_true_iff in Hwf. destruct Hwf as [_ Hwf]. cbn [orb] in Hwf. apply len0 in Hwf. subst. reflexivity.
  - intros fs HP x Hwf Hz. destruct x; try discriminate Hwf.
    rewrite zero_struct_eq, !tnorm_struct_eq. f_equal. rewrite wf_struct_eq in Hwf. rewrite is_zero_struct_eq in Hz.
    revert vs Hwf Hz. induction fs as [|[id fl ft] fr IH]; intros [|x vr] Hwf Hz; try discriminate Hwf; [reflexivity|].
    inversion HP as [|? ? HP1 HP2]; subst. cbn [fld_ty] in HP1.
    cbn [zero_fields tnorm_fields]. cbn [wf_fields] in Hwf. cbn [is_zero_fields] in Hz.
    apply andb_true_iff in Hwf. destruct Hwf as [Hwf Hwf2]. apply andb_true_iff in Hwf. destruct Hwf as [Hwf1 _].
    apply andb_true_iff in Hz. destruct Hz as [Hz1 Hz2].
    f_equal; [apply HP1; assumption | apply IH; assumption].
  - intros t _ x Hwf Hz. destruct x; try discriminate Hwf. destruct o; [discriminate Hz | reflexivity].
Qed.

Lemma dval_norm : forall t v, ty_ok t = true -> tval_wf t v = true -> tnorm t (dval t v) = tnorm t v.
Proof.
  apply (tty_ind' (fun t => forall v, ty_ok t = true -> tval_wf t v = true -> tnorm t (dval t v) = tnorm t v)).
  - intros v _ Hwf. destruct v; try discriminate Hwf. reflexivity.
  - intros v _ Hwf. destruct v; try discriminate Hwf. reflexivity.
  - intros v _ Hwf. destruct v; try discriminate Hwf. reflexivity.
  - intros v _ Hwf. destruct v; try discriminate Hwf. reflexivity.
  - intros v _ Hwf. destruct v; try discriminate Hwf. reflexivity.
  - intros v _ Hwf. destruct v; try discriminate Hwf. reflexivity.
  - intros v _ Hwf. destruct v; try discriminate Hwf. reflexivity.
  - intros v _ Hwf. destruct v; try discriminate Hwf. reflexivity.
  - intros et IH v Hok Hwf. destruct v; try discriminate Hwf. cbn [ty_ok] in Hok. apply wf_list_inv in Hwf. destruct Hwf as [_ HF].
    cbn [dval]. rewrite !tnorm_list_eq. f_equal. induction HF as [|x r [Hx _] HF IHr]; [reflexivity|].
    cbn [map]. rewrite IH by assumption. rewrite IHr. reflexivity.
  - intros kt _ v _ Hwf. destruct v; try discriminate Hwf. reflexivity.
  - intros kt vt _ IH v Hok Hwf. destruct v; try discriminate Hwf. cbn [ty_ok] in Hok.
    apply andb_true_iff in Hok. destruct Hok as [Hok _]. apply andb_true_iff in Hok. destruct Hok as [_ Hokv].
    apply wf_map_inv in Hwf. destruct Hwf as [_ HD].
    cbn [dval]. rewrite !tnorm_map_eq. f_equal. induction es as [|[k x] r IHr]; [reflexivity|].
    cbn [mdist fst snd] in HD. destruct HD as [_ [Hx [_ [_ HD]]]].
    cbn [map fst snd]. rewrite IH by assumption. rewrite IHr by assumption. reflexivity.
  - intros fs HP v Hok Hwf. destruct v; try discriminate Hwf.
    rewrite dval_struct_eq, !tnorm_struct_eq. f_equal.
    cbn [ty_ok] in Hok. apply andb_true_iff in Hok. destruct Hok as [_ Hok]. rewrite wf_struct_eq in Hwf.
    revert vs Hwf. induction fs as [|[id fl ft] fr IH]; intros [|x vr] Hwf; try discriminate Hwf; [reflexivity|].
    inversion HP as [|? ? HP1 HP2]; subst. cbn [fld_ty] in HP1.
    cbn [cur_of tnorm_fields existsb orb fld_ty]. cbn [wf_fields] in Hwf.
    apply andb_true_iff in Hwf. destruct Hwf as [Hwf Hwf2]. apply andb_true_iff in Hwf. destruct Hwf as [Hwf1 _].
    apply andb_true_iff in Hok. destruct Hok as [Hok Hok2].
    apply andb_true_iff in Hok. destruct Hok as [Hok _]. apply andb_true_iff in Hok. destruct Hok as [Hok _].
    apply andb_true_iff in Hok. destruct Hok as [Hok _]. apply andb_true_iff in Hok. destruct Hok as [_ Hokt].
    f_equal; [|apply IH; assumption].
    destruct (fskip (TField id fl ft) x) eqn:Es; [|apply HP1; assumption].
    unfold fskip in Es. cbn [fld_flags fld_ty] in Es. apply orb_true_iff in Es. destruct Es as [Es|Es].
    + destruct x; try discriminate Es. destruct o; [discriminate Es|]. destruct ft; try discriminate Hwf1. reflexivity.
    + apply andb_true_iff in Es. destruct Es as [_ Es]. apply zero_norm; assumption.
  - intros t IH v Hok Hwf. destruct v; try discriminate Hwf. cbn [ty_ok] in Hok. apply andb_true_iff in Hok. destruct Hok as [Hok _].
    destruct o; [|reflexivity]. cbn [dval tnorm]. cbn [tval_wf] in Hwf. rewrite IH by assumption. reflexivity.
Qed.

(* ---------- the four statements ---------- *)
Lemma top_spec p fs v fuel : t_universe (ThStruct fs) v -> (length (enc p (ThStruct fs) v) + tdepth (ThStruct fs) <= fuel)%nat ->
  rspec (dec fuel p (ThStruct fs) 0 (zero_of (ThStruct fs))) (enc p (ThStruct fs) v) (dval (ThStruct fs) v).
Proof.
  intros [Hok [Hwf _]] Hf. apply main_all; try assumption. destruct v; try discriminate Hwf. reflexivity.
Qed.

Lemma unmarshal_marshal p fs v : t_universe (ThStruct fs) v ->
  TUnmarshal (length (enc p (ThStruct fs) v) + tdepth (ThStruct fs)) p (ThStruct fs) (TMarshal p (ThStruct fs) v) = TOk (dval (ThStruct fs) v).
Proof.
  intros HU. pose proof (rspec_full _ _ _ [] (top_spec p fs v _ HU (le_n _))) as H. rewrite app_nil_r in H.
  unfold TUnmarshal, TMarshal. rewrite H. reflexivity.
Qed.

Lemma t_roundtrip : t_roundtrip_statement.
Proof.
  intros p fs v HU. eexists. eexists. split; [apply unmarshal_marshal; exact HU|].
  destruct HU as [Hok [Hwf _]]. apply dval_norm; assumption.
Qed.
Lemma t_cross_protocol : t_cross_protocol_statement.
Proof.
  intros fs v HU. do 4 eexists. split; [apply unmarshal_marshal; exact HU|]. split; [apply unmarshal_marshal; exact HU|]. reflexivity.
Qed.
Lemma t_prefix_eof : t_prefix_eof_statement.
Proof.
  intros p fs v k fuel HU b Hk Hf. unfold b, TMarshal in *.
  unfold TUnmarshal. rewrite (rspec_prefix _ _ _ k (top_spec p fs v fuel HU ltac:(lia)) Hk). reflexivity.
Qed.
Lemma t_trailing : t_trailing_statement.
Proof.
  intros p fs v x rest fuel HU _ Hf. unfold TMarshal in *.
  unfold TUnmarshal. rewrite (rspec_full _ _ _ (x :: rest) (top_spec p fs v fuel HU ltac:(lia))). reflexivity.
Qed.

