(* Proofs of section 4 of Thrift/SpecD.v: sizes read from the wire (negative and oversized lengths and counts),
   and the TRUE / BOOL item type of bool lists. *)
From Verif Require Import Base.GoInt Thrift.Model Thrift.Spec Thrift.SpecC Thrift.SpecD.
From Verif Require Thrift.ProofsA.
From Verif Require Import Thrift.ProofsB Thrift.ProofsC.
From Coq Require Import Lia ZifyBool ZifyNat.
Open Scope Z_scope.

(* ---------- negative sizes in the binary protocol ---------- *)
Lemma s32_neg n : 2 ^ 31 <= n < 2 ^ 32 -> s32 n = n - 2 ^ 32.
Proof.
  intros H. unfold s32, w32. cbv zeta. rewrite Z.mod_small by lia.
  destruct (Z.ltb_spec n (2 ^ 31)); [lia | reflexivity].
Qed.
Lemma s8_small x : 0 <= x < 128 -> s8 x = x.
Proof.
  intros H. unfold s8, w8. cbv zeta. change (2 ^ 8) with 256. change (2 ^ 7) with 128.
  rewrite Z.mod_small by lia. destruct (Z.ltb_spec x 128); [reflexivity | lia].
Qed.

Lemma r_full4_be n rest : r_full 4 (be_bytes 4 n ++ rest) = TOk (be_bytes 4 n, rest).
Proof.
  apply (rspec_full _ _ _ rest (r_full_spec 4 (be_bytes 4 n) (be_bytes_length _ _) ltac:(discriminate))).
Qed.
Lemma be_val4 n : 0 <= n < 2 ^ 32 -> be_val (be_bytes 4 n) = n.
Proof.
  intros H. rewrite be_val_be_bytes. change (256 ^ Z.of_nat 4) with (2 ^ 32). apply Z.mod_small. lia.
Qed.

Lemma r_i32_bin_neg n rest : 2 ^ 31 <= n < 2 ^ 32 ->
  r_i32 PBinary (be_bytes 4 n ++ rest) = TOk (n - 2 ^ 32, rest).
Proof.
  intros H. unfold r_i32. rewrite r_full4_be. cbn [tbind]. rewrite be_val4 by lia. rewrite s32_neg by lia. reflexivity.
Qed.
Lemma r_list_bin_neg ty n rest : 2 ^ 31 <= n < 2 ^ 32 ->
  r_list PBinary ([ty] ++ be_bytes 4 n ++ rest) = TErr EOther.
Proof.
  intros H. unfold r_list. cbn [app r_byte tbind]. rewrite r_i32_bin_neg by assumption. cbn [dont_expect_eof tbind].
  replace (n - 2 ^ 32 <? 0) with true by (clear - H; lia). reflexivity.
Qed.
Lemma r_map_bin_neg k v n rest : 2 ^ 31 <= n < 2 ^ 32 ->
  r_map PBinary ([k; v] ++ be_bytes 4 n ++ rest) = TErr EOther.
Proof.
  intros H. unfold r_map. cbn [app r_byte tbind dont_expect_eof]. rewrite r_i32_bin_neg by assumption. cbn [dont_expect_eof tbind].
  replace (n - 2 ^ 32 <? 0) with true by (clear - H; lia). reflexivity.
Qed.

Lemma t_negative_header : t_negative_header_statement.
Proof. intros ty k v n rest Hn. split; [apply r_list_bin_neg | apply r_map_bin_neg]; assumption. Qed.

Lemma t_negative_list : t_negative_list_statement.
Proof.
  intros et flags old fuel ty n rest Hf Hn. destruct fuel; [lia|].
  rewrite dec_list_eq, r_list_bin_neg by assumption. reflexivity.
Qed.

Lemma t_negative_set : t_negative_set_statement.
Proof.
  intros kt flags old fuel ty n rest Hf Hn. destruct fuel; [lia|].
  rewrite dec_set_eq, r_list_bin_neg by assumption. reflexivity.
Qed.

Lemma t_negative_map : t_negative_map_statement.
Proof.
  intros kt vt flags old fuel k v n rest Hf Hn. destruct fuel; [lia|].
  rewrite dec_map_eq, r_map_bin_neg by assumption. reflexivity.
Qed.

(* ---------- a skipped collection with a negative size is refused as well ---------- *)
Lemma t_negative_skip_rejected : t_negative_skip_rejected_statement.
Proof.
  intros fuel n rest Hf Hn. destruct fuel; [lia|]. split.
  - intros cty ety Hc. destruct Hc as [-> | ->]; skb; rewrite r_list_bin_neg by assumption; reflexivity.
  - intros k v. skb. rewrite r_map_bin_neg by assumption. reflexivity.
Qed.

(* ---------- every size returned by a header reader is non-negative ---------- *)
Lemma dee_ok {A} (x : tres A) a : dont_expect_eof x = TOk a -> x = TOk a.
Proof. destruct x as [a'|e| |]; [auto | destruct e; discriminate | discriminate | discriminate]. Qed.
Lemma w64_nonneg x : 0 <= w64 x.
Proof. unfold w64. apply Z.mod_pos_bound. lia. Qed.
Lemma uvl_nonneg : forall fuel i x s b u r, 0 <= x -> r_uvarint_loop fuel i x s b = TOk (u, r) -> 0 <= u.
Proof.
  induction fuel as [|fuel IH]; intros i x s b u r Hx H; cbn [r_uvarint_loop] in H; [discriminate H|].
  destruct b as [|c b']; [discriminate H|]. destruct (c <? 128).
  - destruct ((i =? 9) && (c >? 1)); [discriminate H|]. injection H as <- _.
    apply Z.lor_nonneg. split; [assumption | apply w64_nonneg].
  - eapply IH; [|exact H]. apply Z.lor_nonneg. split; [assumption | apply w64_nonneg].
Qed.
Lemma r_uvarint_nonneg mx b u r : r_uvarint mx b = TOk (u, r) -> 0 <= u.
Proof.
  unfold r_uvarint. intros H. destruct (r_uvarint_loop 10 0 0 0 b) as [[u' r']|e| |] eqn:E; cbn [tbind] in H; try discriminate H.
  destruct (u' >? mx); [discriminate H|]. injection H as <- _. eapply uvl_nonneg; [|exact E]. lia.
Qed.

Lemma t_header_size_nonneg : t_header_size_nonneg_statement.
Proof.
  split.
  - intros p b n lt r Hw H. destruct p; unfold r_list in H.
    + destruct b as [|x b']; cbn [r_byte tbind] in H; [discriminate H|].
      destruct (dont_expect_eof (r_i32 PBinary b')) as [[n0 r0]|e| |]; cbn [tbind] in H; try discriminate H.
      destruct (n0 <? 0) eqn:E; [discriminate H|]. injection H as <- _ _. clear - E. lia.
    + destruct b as [|x b']; cbn [r_byte tbind] in H; [discriminate H|].
      cbn [wfb forallb] in Hw. apply andb_prop in Hw. destruct Hw as [Hx _]. unfold is_byte in Hx.
      destruct (negb (Z.shiftr x 4 =? 15)).
      * injection H as <- _ _. apply Z.shiftr_nonneg. clear - Hx. lia.
      * destruct (dont_expect_eof (r_uvarint (2 ^ 31 - 1) b')) as [[n0 r0]|e| |] eqn:E; cbn [tbind] in H; try discriminate H.
        injection H as <- _ _. apply dee_ok in E. eapply r_uvarint_nonneg; exact E.
  - intros p b n k v r Hw H. destruct p; unfold r_map in H.
    + destruct b as [|x b']; cbn [r_byte tbind] in H; [discriminate H|].
      destruct b' as [|y b'']; cbn [r_byte tbind dont_expect_eof] in H; [discriminate H|].
      destruct (dont_expect_eof (r_i32 PBinary b'')) as [[n0 r0]|e| |]; cbn [tbind] in H; try discriminate H.
      destruct (n0 <? 0) eqn:E; [discriminate H|]. injection H as <- _ _ _. clear - E. lia.
    + destruct (r_uvarint (2 ^ 31 - 1) b) as [[n0 r0]|e| |] eqn:E; cbn [tbind] in H; try discriminate H.
      destruct (n0 =? 0).
      * injection H as <- _ _ _. lia.
      * destruct (dont_expect_eof (r_byte r0)) as [[x r1]|e| |]; cbn [tbind] in H; try discriminate H.
        injection H as <- _ _ _. eapply r_uvarint_nonneg; exact E.
Qed.

Lemma r_bytes_huge p n rest : 2 ^ 31 <= n < 2 ^ 32 ->
  r_bytes p ((match p with PBinary => be_bytes 4 n | PCompact => uvarint n end) ++ rest) = TErr EOther.
Proof.
  intros Hn. unfold r_bytes, r_len. destruct p.
  - rewrite r_full4_be. cbn [tbind]. cbv zeta. rewrite be_val4 by lia.
    replace (n >? 2 ^ 31 - 1) with true by (clear - Hn; lia). reflexivity.
  - unfold r_uvarint. rewrite (rspec_full _ _ _ rest (uvarint_loop_spec n ltac:(lia))). cbn [tbind].
    replace (n >? 2 ^ 31 - 1) with true by (clear - Hn; lia). reflexivity.
Qed.

Lemma t_negative_length : t_negative_length_statement.
Proof.
  intros p t flags old fuel n rest Hf Ht Hn. destruct fuel; [lia|].
  destruct Ht as [-> | ->]; [rewrite dec_str_eq | rewrite dec_bytes_eq]; rewrite r_bytes_huge by assumption; reflexivity.
Qed.

Lemma r_list_compact_huge ty u rest : 0 <= ty < 16 -> 2 ^ 31 <= u < 2 ^ 64 ->
  r_list PCompact ([240 + ty] ++ uvarint u ++ rest) = TErr EOther.
Proof.
  intros Ht Hu. unfold r_list. cbn [app r_byte tbind].
  replace (240 + ty) with (ty + 15 * 16) by lia. rewrite nib_hi by lia.
  cbn [Z.eqb Pos.eqb negb].
  unfold r_uvarint. rewrite (rspec_full _ _ _ rest (uvarint_loop_spec u ltac:(lia))). cbn [tbind].
  replace (u >? 2 ^ 31 - 1) with true by (clear - Hu; lia). reflexivity.
Qed.

Lemma t_compact_huge_list : t_compact_huge_list_statement.
Proof.
  intros t flags old fuel ty u rest Hf [et Ht] Hty Hu. destruct fuel; [lia|].
  destruct Ht as [-> | ->]; [rewrite dec_list_eq | rewrite dec_set_eq]; rewrite r_list_compact_huge by assumption; reflexivity.
Qed.

(* ---------- oversized counts ---------- *)
Lemma lloop_over f p et flags : forall K cnt acc r, (length r < K)%nat -> Z.of_nat (length r) < cnt ->
  (length r + tdepth et + 1 <= f)%nat -> exists e, lloop f p et flags K cnt acc r = TErr e.
Proof.
  induction K as [|K IH]; intros cnt acc r HK Hc Hf; [lia|].
  rewrite lloop_eq. replace (cnt <=? 0) with false by (clear - Hc; lia).
  pose proof (ProofsA.dec_ok f p et (Z.land flags f_strict) (zero_of et) r Hf) as Hg.
  destruct (dec f p et (Z.land flags f_strict) (zero_of et) r) as [[x r']|e| |].
  - unfold ProofsA.gd, ProofsA.mp in Hg. cbn [snd] in Hg. cbn [dont_expect_eof tbind].
    apply IH; clear - HK Hc Hf Hg; lia.
  - destruct e; cbn [dont_expect_eof tbind]; eexists; reflexivity.
  - contradiction.
  - contradiction.
Qed.

Lemma stloop_over f p kt flags : forall K cnt acc r, (length r < K)%nat -> Z.of_nat (length r) < cnt ->
  (length r + tdepth kt + 1 <= f)%nat -> exists e, stloop f p kt flags K cnt acc r = TErr e.
Proof.
  induction K as [|K IH]; intros cnt acc r HK Hc Hf; [lia|].
  rewrite stloop_eq. replace (cnt <=? 0) with false by (clear - Hc; lia).
  pose proof (ProofsA.dec_ok f p kt (Z.land flags f_strict) (zero_of kt) r Hf) as Hg.
  destruct (dec f p kt (Z.land flags f_strict) (zero_of kt) r) as [[x r']|e| |].
  - unfold ProofsA.gd, ProofsA.mp in Hg. cbn [snd] in Hg. cbn [dont_expect_eof tbind].
    apply IH; clear - HK Hc Hf Hg; lia.
  - destruct e; cbn [dont_expect_eof tbind]; eexists; reflexivity.
  - contradiction.
  - contradiction.
Qed.

Lemma mloop_over f p kt vt flags : forall K cnt acc r, (length r < K)%nat -> Z.of_nat (length r) < cnt ->
  (length r + tdepth kt + 1 <= f)%nat -> (length r + tdepth vt + 1 <= f)%nat ->
  exists e, mloop f p kt vt flags K cnt acc r = TErr e.
Proof.
  induction K as [|K IH]; intros cnt acc r HK Hc Hfk Hfv; [lia|].
  rewrite mloop_eq. replace (cnt <=? 0) with false by (clear - Hc; lia).
  pose proof (ProofsA.dec_ok f p kt (Z.land flags f_strict) (zero_of kt) r Hfk) as Hg.
  destruct (dec f p kt (Z.land flags f_strict) (zero_of kt) r) as [[x r']|e| |].
  - unfold ProofsA.gd, ProofsA.mp in Hg. cbn [snd] in Hg. cbn [dont_expect_eof tbind].
    assert (Hfv' : (length r' + tdepth vt + 1 <= f)%nat) by (clear - Hfv Hg; lia).
    pose proof (ProofsA.dec_ok f p vt (Z.land flags f_strict) (zero_of vt) r' Hfv') as Hg2.
    destruct (dec f p vt (Z.land flags f_strict) (zero_of vt) r') as [[y r'']|e| |].
    + unfold ProofsA.gd, ProofsA.mp in Hg2. cbn [snd] in Hg2. cbn [dont_expect_eof tbind].
      apply IH; clear - HK Hc Hfk Hfv Hg Hg2; lia.
    + destruct e; cbn [dont_expect_eof tbind]; eexists; reflexivity.
    + contradiction.
    + contradiction.
  - destruct e; cbn [dont_expect_eof tbind]; eexists; reflexivity.
  - contradiction.
  - contradiction.
Qed.

Lemma sk_list_over f p ty : forall K cnt r, (length r < K)%nat -> Z.of_nat (length r) < cnt ->
  (length r + 2 <= f)%nat -> exists e, ProofsA.sk_list (skip f p) ty K cnt r = TErr e.
Proof.
  induction K as [|K IH]; intros cnt r HK Hc Hf; [lia|].
  rewrite sk_list_eq. replace (cnt <=? 0) with false by (clear - Hc; lia).
  pose proof (ProofsA.skip_ok f p ty r Hf) as Hg.
  destruct (skip f p ty r) as [r'|e| |].
  - unfold ProofsA.gd, ProofsA.ms in Hg. cbn [dont_expect_eof tbind].
    apply IH; clear - HK Hc Hf Hg; lia.
  - destruct e; cbn [dont_expect_eof tbind]; eexists; reflexivity.
  - contradiction.
  - contradiction.
Qed.

Lemma sk_map_over f p kt vt : forall K cnt r, (length r < K)%nat -> Z.of_nat (length r) < cnt ->
  (length r + 2 <= f)%nat -> exists e, ProofsA.sk_map (skip f p) kt vt K cnt r = TErr e.
Proof.
  induction K as [|K IH]; intros cnt r HK Hc Hf; [lia|].
  rewrite sk_map_eq. replace (cnt <=? 0) with false by (clear - Hc; lia).
  pose proof (ProofsA.skip_ok f p kt r Hf) as Hg.
  destruct (skip f p kt r) as [r'|e| |].
  - unfold ProofsA.gd, ProofsA.ms in Hg. cbn [dont_expect_eof tbind].
    assert (Hf' : (length r' + 2 <= f)%nat) by (clear - Hf Hg; lia).
    pose proof (ProofsA.skip_ok f p vt r' Hf') as Hg2.
    destruct (skip f p vt r') as [r''|e| |].
    + unfold ProofsA.gd, ProofsA.ms in Hg2. cbn [dont_expect_eof tbind].
      apply IH; clear - HK Hc Hf Hg Hg2; lia.
    + destruct e; cbn [dont_expect_eof tbind]; eexists; reflexivity.
    + contradiction.
    + contradiction.
  - destruct e; cbn [dont_expect_eof tbind]; eexists; reflexivity.
  - contradiction.
  - contradiction.
Qed.

Lemma t_oversized_list : t_oversized_list_statement.
Proof.
  intros p et flags old b fuel n lt r Hr Hn Hf. destruct fuel; [lia|].
  cbn [tdepth] in Hf.
  pose proof (ProofsA.g_list p b) as Hgl. rewrite Hr in Hgl. unfold ProofsA.gd, ProofsA.mp in Hgl. cbn [snd] in Hgl.
  rewrite dec_list_eq, Hr. cbn [tbind].
  set (lt' := if lt =? c_TRUE then c_BOOL else lt).
  destruct (negb (type_of et =? lt')).
  - destruct (has_flag flags f_strict); [eexists; reflexivity|].
    rewrite ProofsA.skip_items_eq.
    destruct (sk_list_over fuel p lt' (S (length r)) n r) as [e He]; [clear; lia | assumption | clear - Hf Hgl; lia |].
    rewrite He. eexists; reflexivity.
  - replace (n <? 0) with false by (clear - Hn; lia).
    apply lloop_over; [clear; lia | assumption | clear - Hf Hgl; lia].
Qed.

Lemma t_oversized_set : t_oversized_set_statement.
Proof.
  intros p kt flags old b fuel n lt r Hr Hn Hf. destruct fuel; [lia|].
  cbn [tdepth] in Hf.
  pose proof (ProofsA.g_list p b) as Hgl. rewrite Hr in Hgl. unfold ProofsA.gd, ProofsA.mp in Hgl. cbn [snd] in Hgl.
  rewrite dec_set_eq, Hr. cbn [tbind].
  set (lt' := if lt =? c_TRUE then c_BOOL else lt).
  replace (n <? 0) with false by (clear - Hn; lia).
  replace (n =? 0) with false by (clear - Hn; lia).
  destruct (negb (type_of kt =? lt')).
  - destruct (has_flag flags f_strict); [eexists; reflexivity|].
    rewrite ProofsA.skip_items_eq.
    destruct (sk_list_over fuel p lt' (S (length r)) n r) as [e He]; [clear; lia | assumption | clear - Hf Hgl; lia |].
    rewrite He. eexists; reflexivity.
  - apply stloop_over; [clear; lia | assumption | clear - Hf Hgl; lia].
Qed.

Lemma t_oversized_map : t_oversized_map_statement.
Proof.
  intros p kt vt flags old b fuel n mk mv r Hr Hn Hf. destruct fuel; [lia|].
  cbn [tdepth] in Hf.
  pose proof (ProofsA.g_map p b) as Hgl. rewrite Hr in Hgl. unfold ProofsA.gd, ProofsA.mp in Hgl. cbn [snd] in Hgl.
  rewrite dec_map_eq, Hr. cbn [tbind].
  replace (n <? 0) with false by (clear - Hn; lia).
  replace (n =? 0) with false by (clear - Hn; lia).
  assert (Hsk : exists e, ProofsA.sk_map (skip fuel p) mk mv (S (length r)) n r = TErr e).
  { apply sk_map_over; [clear; lia | assumption | clear - Hf Hgl; lia]. }
  destruct (negb (type_of kt =? mk)).
  { destruct (has_flag flags f_strict); [eexists; reflexivity|].
    rewrite ProofsA.skip_entries_eq. destruct Hsk as [e He]. rewrite He. eexists; reflexivity. }
  destruct (negb (type_of vt =? mv)).
  { destruct (has_flag flags f_strict); [eexists; reflexivity|].
    rewrite ProofsA.skip_entries_eq. destruct Hsk as [e He]. rewrite He. eexists; reflexivity. }
  apply mloop_over; [clear; lia | assumption | clear - Hf Hgl; lia | clear - Hf Hgl; lia].
Qed.

(* ---------- C13: item type TRUE in the header of a list / set of bools ---------- *)
Lemma t_bool_list_true : t_bool_list_true_statement.
Proof.
  intros p t flags old fuel n rest [c [-> Hc]] Hn. destruct fuel; [reflexivity|].
  assert (H1 : r_list p (w_list p n c_TRUE ++ rest) = TOk ((n, c_TRUE), rest)).
  { apply rspec_full, r_list_spec; [lia | unfold c_TRUE; lia]. }
  assert (H2 : r_list p (w_list p n c_BOOL ++ rest) = TOk ((n, c_BOOL), rest)).
  { apply rspec_full, r_list_spec; [lia | unfold c_BOOL; lia]. }
  destruct Hc as [-> | ->].
  - rewrite !dec_list_eq, H1, H2. reflexivity.
  - rewrite !dec_set_eq, H1, H2. reflexivity.
Qed.

(* ---------- examples ---------- *)
(* an unknown list field whose size is -1 is refused *)
Example ex_unknown_negative_list_rejected :
  TUnmarshal 10 PBinary (ThStruct [TField 1 0 ThI32]) [9;0;5;3;255;255;255;255;0;0;0] = TErr EOther.
Proof. vm_compute; reflexivity. Qed.
(* a declared list of strings receiving i8 items with size -1 is refused *)
Example ex_mismatch_negative_list_rejected :
  dec 1 PBinary (ThList ThStr) 0 (TvList true [TvBytes true [1]]) ([3] ++ be_bytes 4 (2 ^ 32 - 1) ++ [7]) = TErr EOther.
Proof. vm_compute; reflexivity. Qed.
