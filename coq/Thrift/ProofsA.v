(* Proofs for C13 (specification conformance) and C08 (totality) of the thrift model. *)
From Verif Require Import Base.GoInt Thrift.Model Thrift.Spec.
From Coq Require Import ZifyBool.
Open Scope Z_scope.
Local Ltac Zify.zify_post_hook ::= Z.div_mod_to_equations.

(* ---------- C13: the unmodified specifications are not met (two witnesses) ---------- *)
Lemma t_conforms_refuted : t_conforms_refuted_statement.
Proof.
  split.
  - exists (ThStruct [TField 1 0 ThI32]), (TvStruct [TvInt 7]).
    split; [reflexivity|]. split; [reflexivity|]. vm_compute. discriminate.
  - exists (ThStruct [TField 1 0 ThF64]), (TvStruct [TvInt 1]).
    split; [reflexivity|]. split; [reflexivity|]. vm_compute. discriminate.
Qed.

(* ---------- C13 partial conformance ---------- *)
Section TtyInd.
  Variable P : tty -> Prop.
  Hypothesis Hbase : forall t, (match t with ThList _ | ThSet _ | ThMap _ _ | ThStruct _ | ThPtr _ => False | _ => True end) -> P t.
  Hypothesis HList : forall t, P t -> P (ThList t).
  Hypothesis HSet : forall t, P t -> P (ThSet t).
  Hypothesis HMap : forall k v, P k -> P v -> P (ThMap k v).
  Hypothesis HPtr : forall t, P t -> P (ThPtr t).
  Hypothesis HStruct : forall fs, Forall (fun f => P (fld_ty f)) fs -> P (ThStruct fs).
  Fixpoint tty_ind2 (t : tty) : P t :=
    match t with
    | ThList t' => HList t' (tty_ind2 t')
    | ThSet t' => HSet t' (tty_ind2 t')
    | ThMap k v => HMap k v (tty_ind2 k) (tty_ind2 v)
    | ThPtr t' => HPtr t' (tty_ind2 t')
    | ThStruct fs =>
        HStruct fs ((fix go (fs : list tfield) : Forall (fun f => P (fld_ty f)) fs :=
                       match fs with
                       | [] => Forall_nil _
                       | f :: r => Forall_cons f (match f return P (fld_ty f) with TField _ _ ft => tty_ind2 ft end) (go r)
                       end) fs)
    | ThBool => Hbase ThBool I | ThI8 => Hbase ThI8 I | ThI16 => Hbase ThI16 I | ThI32 => Hbase ThI32 I
    | ThI64 => Hbase ThI64 I | ThF64 => Hbase ThF64 I | ThStr => Hbase ThStr I | ThBytes => Hbase ThBytes I
    end.
End TtyInd.

Definition goL (f : tval -> bytes) := fix go (es : list tval) : bytes := match es with [] => [] | x :: r => f x ++ go r end.
Definition goM (f g : tval -> bytes) :=
  fix go (es : list (tval * tval)) : bytes := match es with [] => [] | (k, x) :: r => f k ++ g x ++ go r end.
Definition mkb (body : tfield -> tval -> bytes) :=
  fix mk (fs : list tfield) (vs : list tval) : list (tfield * (tval * bytes)) :=
    match fs, vs with f :: fr, x :: vr => (f, (x, body f x)) :: mk fr vr | _, _ => [] end.
Definition body_m (p : proto) (f : tfield) (x : tval) : bytes :=
  match f with TField _ fl ft =>
    if has_flag fl f_enum then
      match ft, x with
      | (ThI8 | ThI16 | ThI32 | ThI64), TvInt z => w_i32 p (s32 z)
      | _, _ => enc p ft x
      end
    else enc p ft x end.
Definition body_s (p : proto) (f : tfield) (x : tval) : bytes :=
  match f with TField _ fl ft =>
    if has_flag fl f_enum then (match x with TvInt z => s_i32 p z | _ => [] end) else spec_enc pkg_dev p ft x end.
Definition skipc (f : tfield) (x : tval) : bool :=
  match x with TvPtr None => true | _ => false end || (negb (has_flag (fld_flags f) f_required) && is_zero_t (fld_ty f) x).
Definition go_m (p : proto) :=
  fix go (l : list (tfield * (tval * bytes))) (last : Z) : bytes :=
    match l with
    | [] => w_field p 0 c_STOP
    | (f, (x, body)) :: r =>
        if skipc f x then go r last else
        let ty := type_of (fld_ty f) in
        let delta := s16 (fld_id f - last) in
        let wid := match p with PCompact => if delta <=? 15 then delta else fld_id f | PBinary => fld_id f end in
        let coalesce := match p with PCompact => ty =? c_BOOL | PBinary => false end in
        let wty := if coalesce && deref_bool x then c_TRUE else ty in
        w_field p wid wty ++ (if coalesce then [] else body) ++ go r (fld_id f)
    end.
Definition go_s (p : proto) :=
  fix go (l : list (tfield * (tval * bytes))) (last : Z) : bytes :=
    match l with
    | [] => [0] ++ (match p with PBinary => [0; 0] | PCompact => [] end)
    | (f, (x, body)) :: r =>
        if skipc f x then go r last else
        match p with
        | PBinary => [code_of pkg_dev p (fld_ty f)] ++ be_bytes 2 (fld_id f) ++ body ++ go r (fld_id f)
        | PCompact =>
            let isbool := spec_code PCompact (fld_ty f) =? 2 in
            let code := if isbool then (if deref_bool x then 1 else 2) else spec_code PCompact (fld_ty f) in
            let delta := fld_id f - last in
            (if (0 <? delta) && (delta <=? 15) then [delta * 16 + code] else [code] ++ uvarint (zz64 (fld_id f)))
            ++ (if isbool then [] else body) ++ go r (fld_id f)
        end
    end.

Lemma enc_ptr p t o : enc p (ThPtr t) (TvPtr o) = match o with Some x => enc p t x | None => enc p t (zero_of t) end.
Proof. reflexivity. Qed.
Lemma senc_ptr p t o : spec_enc pkg_dev p (ThPtr t) (TvPtr o) = match o with Some x => spec_enc pkg_dev p t x | None => spec_enc pkg_dev p t (zero_of t) end.
Proof. destruct o; reflexivity. Qed.
Lemma enc_list p et nn es : enc p (ThList et) (TvList nn es) = w_list p (len es) (type_of et) ++ goL (enc p et) es.
Proof. reflexivity. Qed.
Lemma senc_list p et nn es : spec_enc pkg_dev p (ThList et) (TvList nn es) = s_list_header p (code_of pkg_dev p et) (len es) ++ goL (spec_enc pkg_dev p et) es.
Proof. reflexivity. Qed.
Lemma enc_set p et nn es : enc p (ThSet et) (TvSet nn es) = w_list p (len es) (type_of et) ++ goL (enc p et) es.
Proof. reflexivity. Qed.
Lemma senc_set p et nn es : spec_enc pkg_dev p (ThSet et) (TvSet nn es) = s_list_header p (code_of pkg_dev p et) (len es) ++ goL (spec_enc pkg_dev p et) es.
Proof. reflexivity. Qed.
Lemma enc_map p kt vt nn es : enc p (ThMap kt vt) (TvMap nn es) = w_map p (len es) (type_of kt) (type_of vt) ++ goM (enc p kt) (enc p vt) es.
Proof. reflexivity. Qed.
Lemma senc_map p kt vt nn es : spec_enc pkg_dev p (ThMap kt vt) (TvMap nn es) =
  (match p with
   | PBinary => [code_of pkg_dev p kt; code_of pkg_dev p vt] ++ be_bytes 4 (len es)
   | PCompact => uvarint (len es) ++ (if len es =? 0 then [] else [code_of pkg_dev p kt * 16 + code_of pkg_dev p vt])
   end) ++ goM (spec_enc pkg_dev p kt) (spec_enc pkg_dev p vt) es.
Proof. reflexivity. Qed.
Lemma enc_struct p fs vs : enc p (ThStruct fs) (TvStruct vs) = go_m p (sort_by_id (mkb (body_m p) fs vs)) 0.
Proof. reflexivity. Qed.
Lemma senc_struct p fs vs : spec_enc pkg_dev p (ThStruct fs) (TvStruct vs) = go_s p (sort_by_id (mkb (body_s p) fs vs)) 0.
Proof. reflexivity. Qed.

(* --- arithmetic leaves --- *)
Lemma w8_small x : 0 <= x < 256 -> w8 x = x.
Proof. intros; unfold w8; apply Z.mod_small; lia. Qed.
Lemma w16_small x : 0 <= x < 2 ^ 16 -> w16 x = x.
Proof. intros; unfold w16; apply Z.mod_small; lia. Qed.
Lemma w32_small x : 0 <= x < 2 ^ 32 -> w32 x = x.
Proof. intros; unfold w32; apply Z.mod_small; lia. Qed.
Lemma s32_small z : - 2 ^ 31 <= z < 2 ^ 31 -> s32 z = z.
Proof. intros; unfold s32, w32; cbv zeta. destruct (Z.ltb_spec (z mod 2 ^ 32) (2 ^ 31)); lia. Qed.
Lemma s16_small z : - 2 ^ 15 <= z < 2 ^ 15 -> s16 z = z.
Proof. intros; unfold s16, w16; cbv zeta. destruct (Z.ltb_spec (z mod 2 ^ 16) (2 ^ 15)); lia. Qed.
Lemma lor_nib n c : 0 <= n <= 15 -> 0 <= c <= 15 -> Z.lor (w8 (n * 16)) (w8 c) = n * 16 + c.
Proof.
  intros Hn Hc.
  assert (H : forallb (fun n => forallb (fun c => Z.lor (w8 (n * 16)) (w8 c) =? n * 16 + c) (map Z.of_nat (seq 0 16)))
                (map Z.of_nat (seq 0 16)) = true) by (vm_compute; reflexivity).
  rewrite forallb_forall in H.
  assert (In16 : forall k, 0 <= k <= 15 -> In k (map Z.of_nat (seq 0 16))).
  { intros k Hk. apply in_map_iff. exists (Z.to_nat k). split; [lia | apply in_seq; lia]. }
  specialize (H n (In16 n Hn)). rewrite forallb_forall in H. specialize (H c (In16 c Hc)). lia.
Qed.
Lemma len_nonneg {A} (l : list A) : 0 <= len l.
Proof. unfold len; lia. Qed.

Lemma type_of_range t : 2 <= type_of t <= 12.
Proof. induction t; simpl; unfold c_BOOL, c_I8, c_I16, c_I32, c_I64, c_DOUBLE, c_BINARY, c_LIST, c_SET, c_MAP, c_STRUCT; lia. Qed.
Lemma spec_code_compact t : spec_code PCompact t = type_of t.
Proof. induction t; simpl; auto. Qed.
Lemma code_of_pkg p t : code_of pkg_dev p t = type_of t.
Proof. destruct p; simpl; apply spec_code_compact. Qed.

Lemma hdr_list p n t : 0 <= n < tlim -> w_list p n (type_of t) = s_list_header p (code_of pkg_dev p t) n.
Proof.
  intros Hn. unfold tlim in Hn. rewrite code_of_pkg. pose proof (type_of_range t) as Ht.
  destruct p; unfold w_list, s_list_header.
  - rewrite w8_small, w32_small by lia. reflexivity.
  - destruct (Z.leb_spec n 14); destruct (Z.ltb_spec n 15); try lia.
    + rewrite lor_nib by lia. reflexivity.
    + change 240 with (w8 (15 * 16)) at 1. rewrite lor_nib by lia. reflexivity.
Qed.
Lemma hdr_map p n k v : 0 <= n < tlim ->
  w_map p n (type_of k) (type_of v) =
  match p with
  | PBinary => [code_of pkg_dev p k; code_of pkg_dev p v] ++ be_bytes 4 n
  | PCompact => uvarint n ++ (if n =? 0 then [] else [code_of pkg_dev p k * 16 + code_of pkg_dev p v])
  end.
Proof.
  intros Hn. unfold tlim in Hn. rewrite !code_of_pkg.
  pose proof (type_of_range k) as Hk. pose proof (type_of_range v) as Hv.
  destruct p; unfold w_map.
  - rewrite !w8_small, w32_small by lia. reflexivity.
  - rewrite lor_nib by lia. reflexivity.
Qed.

Lemma goL_ext (f g : tval -> bytes) es : Forall (fun x => f x = g x) es -> goL f es = goL g es.
Proof. induction 1; simpl; congruence. Qed.
Lemma goM_ext (f f' g g' : tval -> bytes) es :
  Forall (fun kx => f (fst kx) = f' (fst kx) /\ g (snd kx) = g' (snd kx)) es -> goM f g es = goM f' g' es.
Proof. induction 1 as [|[k x] r [H1 H2] _ IH]; simpl in *; congruence. Qed.

(* --- the hypothesis on values: well-formed, or the zero value written for a nil pointer --- *)
Definition Pv (t : tty) (v : tval) : Prop := tval_wf t v = true \/ v = zero_of t.

Definition wfL (et : tty) := fix go (es : list tval) : bool :=
  match es with [] => true | x :: r => tval_wf et x && negb (match x with TvPtr None => true | _ => false end) && go r end.
Definition wfK (kt : tty) := fix go (ks : list tval) : bool :=
  match ks with [] => true | x :: r => tval_wf kt x && negb (existsb (tval_eqb x) r) && go r end.
Definition wfM (kt vt : tty) := fix go (es : list (tval * tval)) : bool :=
  match es with
  | [] => true
  | (k, x) :: r => tval_wf kt k && tval_wf vt x && negb (match x with TvPtr None => true | _ => false end) &&
                   negb (existsb (fun kv => tval_eqb k (fst kv)) r) && go r
  end.
Definition wfS := fix go (fs : list tfield) (vs : list tval) : bool :=
  match fs, vs with
  | [], [] => true
  | TField _ fl ft :: fr, x :: vr =>
      tval_wf ft x && negb (has_flag fl f_required && (match x with TvPtr None => true | _ => false end)) && go fr vr
  | _, _ => false
  end.
Definition zerosF := fix go (fs : list tfield) : list tval := match fs with [] => [] | TField _ _ ft :: r => zero_of ft :: go r end.
Definition fok := fix go (fs : list tfield) : bool :=
  match fs with
  | [] => true
  | TField id fl ft :: r =>
      (1 <=? id) && (id <? 2 ^ 15) && ty_ok ft &&
      negb (has_flag fl f_required && has_flag fl f_optional) &&
      (negb (has_flag fl f_enum) || (match ft with ThI32 => true | _ => false end)) &&
      ((fl =? 0) || (fl =? f_required) || (fl =? f_optional) || (fl =? f_enum) || (fl =? f_enum + f_required) || (fl =? f_enum + f_optional)) &&
      go r
  end.
Lemma wf_list et nn es : tval_wf (ThList et) (TvList nn es) = (len es <? tlim) && (nn || (len es =? 0)) && wfL et es.
Proof. reflexivity. Qed.
Lemma wf_set et nn es : tval_wf (ThSet et) (TvSet nn es) = (len es <? tlim) && (nn || (len es =? 0)) && wfK et es.
Proof. reflexivity. Qed.
Lemma wf_map kt vt nn es : tval_wf (ThMap kt vt) (TvMap nn es) = (len es <? tlim) && (nn || (len es =? 0)) && wfM kt vt es.
Proof. reflexivity. Qed.
Lemma wf_struct fs vs : tval_wf (ThStruct fs) (TvStruct vs) = wfS fs vs.
Proof. reflexivity. Qed.
Lemma zero_struct fs : zero_of (ThStruct fs) = TvStruct (zerosF fs).
Proof. reflexivity. Qed.
Lemma ok_struct fs : ty_ok (ThStruct fs) = distinctZ (map fld_id fs) && fok fs.
Proof. reflexivity. Qed.

Lemma wfL_forall et es : wfL et es = true -> Forall (fun x => Pv et x) es.
Proof.
  induction es as [|x r IH]; simpl; intros H; constructor.
  - left. destruct (tval_wf et x); [reflexivity | discriminate].
  - apply IH. destruct (wfL et r); [reflexivity|]. rewrite Bool.andb_false_r in H. discriminate.
Qed.
Lemma wfK_forall et es : wfK et es = true -> Forall (fun x => Pv et x) es.
Proof.
  induction es as [|x r IH]; simpl; intros H; constructor.
  - left. destruct (tval_wf et x); [reflexivity | discriminate].
  - apply IH. destruct (wfK et r); [reflexivity|]. rewrite Bool.andb_false_r in H. discriminate.
Qed.
Lemma wfM_forall kt vt es : wfM kt vt es = true -> Forall (fun kx => Pv kt (fst kx) /\ Pv vt (snd kx)) es.
Proof.
  induction es as [|[k x] r IH]; simpl; intros H; constructor.
  - simpl. destruct (tval_wf kt k) eqn:E1; [|discriminate]. destruct (tval_wf vt x) eqn:E2; [|discriminate].
    split; left; assumption.
  - apply IH. destruct (wfM kt vt r); [reflexivity|]. rewrite Bool.andb_false_r in H. discriminate.
Qed.
Lemma Pv_list et nn es : Pv (ThList et) (TvList nn es) -> 0 <= len es < tlim /\ Forall (fun x => Pv et x) es.
Proof.
  intros [H|H].
  - rewrite wf_list in H. apply andb_prop in H as [H H2]. apply andb_prop in H as [H _].
    split; [pose proof (len_nonneg es); lia | apply wfL_forall; assumption].
  - simpl in H. injection H as _ ->. split; [vm_compute; split; congruence | constructor].
Qed.
Lemma Pv_set et nn es : Pv (ThSet et) (TvSet nn es) -> 0 <= len es < tlim /\ Forall (fun x => Pv et x) es.
Proof.
  intros [H|H].
  - rewrite wf_set in H. apply andb_prop in H as [H H2]. apply andb_prop in H as [H _].
    split; [pose proof (len_nonneg es); lia | apply wfK_forall; assumption].
  - simpl in H. injection H as _ ->. split; [vm_compute; split; congruence | constructor].
Qed.
Lemma Pv_map kt vt nn es : Pv (ThMap kt vt) (TvMap nn es) ->
  0 <= len es < tlim /\ Forall (fun kx => Pv kt (fst kx) /\ Pv vt (snd kx)) es.
Proof.
  intros [H|H].
  - rewrite wf_map in H. apply andb_prop in H as [H H2]. apply andb_prop in H as [H _].
    split; [pose proof (len_nonneg es); lia | apply wfM_forall; assumption].
  - simpl in H. injection H as _ ->. split; [vm_compute; split; congruence | constructor].
Qed.
Lemma Pv_struct fs vs : Pv (ThStruct fs) (TvStruct vs) -> Forall2 (fun f x => Pv (fld_ty f) x) fs vs.
Proof.
  intros [H|H].
  - rewrite wf_struct in H. revert vs H.
    induction fs as [|[id fl ft] fr IH]; intros [|x vr] H; simpl in H; try discriminate; constructor.
    + simpl. left. destruct (tval_wf ft x); [reflexivity | discriminate].
    + apply IH. destruct (wfS fr vr); [reflexivity|]. rewrite Bool.andb_false_r in H. discriminate.
  - rewrite zero_struct in H. injection H as ->.
    induction fs as [|[id fl ft] fr IH]; simpl; constructor; [right; reflexivity | assumption].
Qed.
Lemma is_key_ok t : is_key_ty t = true -> ty_ok t = true.
Proof. destruct t; simpl; congruence. Qed.

(* --- sorting: ids come out strictly ascending --- *)
Definition ent := (tfield * (tval * bytes))%type.
Definition eid (e : ent) : Z := fld_id (fst e).
Fixpoint asc (lo : Z) (l : list ent) : Prop :=
  match l with [] => True | e :: r => lo < eid e < 2 ^ 15 /\ asc (eid e) r end.
Lemma asc_mono l : forall a b, b <= a -> asc a l -> asc b l.
Proof. destruct l; simpl; intros; [trivial|]. intuition lia. Qed.
Lemma insert_asc : forall (l : list ent) lo x, asc lo l -> lo < eid x < 2 ^ 15 ->
  (forall y, In y l -> eid y <> eid x) -> asc lo (insert_by_id x l).
Proof.
  induction l as [|y r IH]; intros lo x Ha Hx Hne; simpl.
  - auto.
  - simpl in Ha. destruct Ha as [Hy Hr]. fold (eid y) (eid x).
    assert (eid y <> eid x) by (apply Hne; left; reflexivity).
    destruct (Z.leb_spec (eid y) (eid x)); simpl.
    + split; [assumption|]. apply IH; [assumption | lia | intros; apply Hne; right; assumption].
    + split; [assumption|]. split; [lia | assumption].
Qed.
Lemma insert_in : forall (l : list ent) x y, In y (insert_by_id x l) -> y = x \/ In y l.
Proof.
  induction l as [|z r IH]; simpl; intros x y H.
  - destruct H; auto.
  - destruct (fld_id (fst z) <=? fld_id (fst x)); simpl in H.
    + destruct H as [H|H]; [auto|]. apply IH in H. tauto.
    + destruct H as [H|H]; auto.
Qed.
Lemma sort_asc : forall (l acc : list ent), asc 0 acc -> NoDup (map eid l) ->
  (forall x, In x l -> 0 < eid x < 2 ^ 15) ->
  (forall x y, In x l -> In y acc -> eid y <> eid x) ->
  asc 0 (fold_left (fun acc x => insert_by_id x acc) l acc).
Proof.
  induction l as [|a l IH]; intros acc Ha Hnd Hr Hne; simpl; [assumption|].
  inversion Hnd as [|? ? Hnin Hnd']; subst.
  apply IH.
  - apply insert_asc; [assumption | apply Hr; left; reflexivity | intros; apply Hne; [left; reflexivity | assumption]].
  - assumption.
  - intros; apply Hr; right; assumption.
  - intros x y Hx Hy. apply insert_in in Hy as [->|Hy].
    + intros E. apply Hnin. rewrite E. apply in_map; assumption.
    + apply Hne; [right|]; assumption.
Qed.
Lemma distinct_nodup l : distinctZ l = true -> NoDup l.
Proof.
  induction l as [|x r IH]; simpl; intros H; constructor.
  - intros Hin. destruct (existsb (Z.eqb x) r) eqn:E; [discriminate|].
    assert (existsb (Z.eqb x) r = true) by (apply existsb_exists; exists x; split; [assumption | apply Z.eqb_refl]).
    congruence.
  - apply IH. destruct (distinctZ r); [reflexivity|]. rewrite Bool.andb_false_r in H. discriminate.
Qed.
Lemma mkb_in body : forall fs vs e, In e (mkb body fs vs) -> In (fst e) fs.
Proof.
  induction fs as [|f fr IH]; intros [|x vr] e H; simpl in H; try contradiction.
  destruct H as [<-|H]; [left; reflexivity | right; eapply IH; eassumption].
Qed.
Lemma mkb_nodup body : forall fs vs, NoDup (map fld_id fs) -> NoDup (map eid (mkb body fs vs)).
Proof.
  induction fs as [|f fr IH]; intros [|x vr] H; simpl; try constructor.
  - inversion H as [|? ? Hn _]; subst. intros Hin. apply Hn.
    apply in_map_iff in Hin as [e [He Hin]]. apply mkb_in in Hin. unfold eid in He. simpl in He. rewrite <- He.
    apply in_map; assumption.
  - apply IH. inversion H; assumption.
Qed.
Lemma fok_range : forall fs f, fok fs = true -> In f fs -> 1 <= fld_id f < 2 ^ 15.
Proof.
  induction fs as [|[id fl ft] fr IH]; intros f H Hin; [contradiction|].
  simpl in H. destruct Hin as [<-|Hin].
  - simpl. lia.
  - apply IH; [|assumption]. destruct (fok fr); [reflexivity|]. rewrite Bool.andb_false_r in H. discriminate.
Qed.
Lemma sorted_asc body fs vs : ty_ok (ThStruct fs) = true -> asc 0 (sort_by_id (mkb body fs vs)).
Proof.
  rewrite ok_struct. intros H. apply andb_prop in H as [Hd Hf].
  unfold sort_by_id. apply sort_asc.
  - exact I.
  - apply mkb_nodup. apply distinct_nodup; assumption.
  - intros x Hx. apply mkb_in in Hx. pose proof (fok_range fs (fst x) Hf Hx). unfold eid. lia.
  - intros x y _ [].
Qed.

(* --- the field loop --- *)
Lemma go_eq p : forall l last, 0 <= last -> asc last l -> go_m p l last = go_s p l last.
Proof.
  induction l as [|[f [x body]] r IH]; intros last Hl Ha.
  - destruct p; reflexivity.
  - destruct Ha as [Hid Hr]. unfold eid in Hid, Hr. cbn [fst] in Hid, Hr.
    change (go_m p ((f, (x, body)) :: r) last) with
      (if skipc f x then go_m p r last else
        let ty := type_of (fld_ty f) in
        let delta := s16 (fld_id f - last) in
        let wid := match p with PCompact => if delta <=? 15 then delta else fld_id f | PBinary => fld_id f end in
        let coalesce := match p with PCompact => ty =? c_BOOL | PBinary => false end in
        let wty := if coalesce && deref_bool x then c_TRUE else ty in
        w_field p wid wty ++ (if coalesce then [] else body) ++ go_m p r (fld_id f)).
    change (go_s p ((f, (x, body)) :: r) last) with
      (if skipc f x then go_s p r last else
        match p with
        | PBinary => [code_of pkg_dev p (fld_ty f)] ++ be_bytes 2 (fld_id f) ++ body ++ go_s p r (fld_id f)
        | PCompact =>
            let isbool := spec_code PCompact (fld_ty f) =? 2 in
            let code := if isbool then (if deref_bool x then 1 else 2) else spec_code PCompact (fld_ty f) in
            let delta := fld_id f - last in
            (if (0 <? delta) && (delta <=? 15) then [delta * 16 + code] else [code] ++ uvarint (zz64 (fld_id f)))
            ++ (if isbool then [] else body) ++ go_s p r (fld_id f)
        end).
    destruct (skipc f x).
    + apply IH; [assumption|]. apply asc_mono with (a := fld_id f); [lia | assumption].
    + rewrite <- (IH (fld_id f)) by (assumption || lia). cbv zeta.
      pose proof (type_of_range (fld_ty f)) as Ht.
      destruct p.
      * rewrite code_of_pkg. unfold w_field. cbn [andb]. rewrite w8_small, w16_small by lia. simpl. reflexivity.
      * rewrite spec_code_compact. rewrite s16_small by lia. unfold c_BOOL, c_TRUE.
        set (ty := type_of (fld_ty f)) in *. set (d := fld_id f - last).
        assert (Hw : (if (ty =? 2) && deref_bool x then 1 else ty) = (if ty =? 2 then if deref_bool x then 1 else 2 else ty)).
        { destruct (Z.eqb_spec ty 2); destruct (deref_bool x); simpl; lia. }
        rewrite Hw. set (code := if ty =? 2 then if deref_bool x then 1 else 2 else ty).
        assert (Hc : 1 <= code <= 12) by (unfold code; destruct (ty =? 2); [destruct (deref_bool x)|]; lia).
        f_equal. unfold w_field, c_STOP.
        destruct (Z.eqb_spec code 0); [lia|].
        destruct (Z.leb_spec d 15).
        -- destruct (Z.leb_spec d 15); [|lia]. destruct (Z.ltb_spec 0 d); [|unfold d in *; lia]. simpl.
           rewrite lor_nib by (unfold d in *; lia). reflexivity.
        -- destruct (Z.leb_spec (fld_id f) 15); [unfold d in *; lia|].
           rewrite Bool.andb_false_r. rewrite w8_small by lia. reflexivity.
Qed.

Lemma mk_eq p : forall fs vs,
  Forall (fun f => forall p v, ty_ok (fld_ty f) = true -> Pv (fld_ty f) v -> enc p (fld_ty f) v = spec_enc pkg_dev p (fld_ty f) v) fs ->
  fok fs = true -> Forall2 (fun f x => Pv (fld_ty f) x) fs vs ->
  mkb (body_m p) fs vs = mkb (body_s p) fs vs.
Proof.
  intros fs vs HI Hf H2. induction H2 as [|f x fr vr Hx _ IH]; [reflexivity|].
  inversion HI as [|? ? Hfi HI']; subst.
  destruct f as [id fl ft]. simpl in Hf, Hx, Hfi.
  simpl. f_equal.
  - f_equal. f_equal.
    assert (Hok : ty_ok ft = true) by (destruct (ty_ok ft); [reflexivity | rewrite !Bool.andb_false_r in Hf; discriminate]).
    destruct (has_flag fl f_enum) eqn:E.
    + assert (Hi : (match ft with ThI32 => true | _ => false end) = true).
      { destruct ft; try reflexivity; simpl in Hf; rewrite !Bool.andb_false_r in Hf; discriminate. }
      destruct ft; try discriminate. destruct x; try reflexivity.
      assert (s32 z = z) as ->.
      { destruct Hx as [Hx|Hx]; [simpl in Hx; apply s32_small; lia | injection Hx as ->; reflexivity]. }
      destruct p; reflexivity.
    + apply Hfi; assumption.
  - apply IH; [assumption|]. destruct (fok fr); [reflexivity | rewrite Bool.andb_false_r in Hf; discriminate].
Qed.

Lemma conforms_gen : forall t p v, ty_ok t = true -> Pv t v -> enc p t v = spec_enc pkg_dev p t v.
Proof.
  induction t using tty_ind2; intros p v Hok Hv.
  - destruct t; try contradiction; destruct v; try reflexivity; destruct p; reflexivity.
  - (* list *) destruct v; try reflexivity. apply Pv_list in Hv as [Hn Hall].
    rewrite enc_list, senc_list, hdr_list by assumption. f_equal. apply goL_ext.
    eapply Forall_impl; [|exact Hall]. intros x Hx. apply IHt; assumption.
  - (* set *) destruct v; try reflexivity. apply Pv_set in Hv as [Hn Hall].
    rewrite enc_set, senc_set, hdr_list by assumption. f_equal. apply goL_ext.
    eapply Forall_impl; [|exact Hall]. intros x Hx. apply IHt; [apply is_key_ok|]; assumption.
  - (* map *) destruct v; try reflexivity. apply Pv_map in Hv as [Hn Hall].
    simpl in Hok. apply andb_prop in Hok as [Hok _]. apply andb_prop in Hok as [Hk Hvt]. apply is_key_ok in Hk.
    rewrite enc_map, senc_map, hdr_map by assumption. f_equal. apply goM_ext.
    eapply Forall_impl; [|exact Hall]. intros [k x] [H1 H2]. split; [apply IHt1 | apply IHt2]; assumption.
  - (* ptr *) destruct v; try reflexivity. rewrite enc_ptr, senc_ptr.
    simpl in Hok. apply andb_prop in Hok as [Hok _].
    destruct o as [x|].
    + apply IHt; [assumption|]. destruct Hv as [Hv|Hv]; [left; exact Hv | discriminate].
    + apply IHt; [assumption | right; reflexivity].
  - (* struct *) destruct v; try reflexivity.
    rewrite enc_struct, senc_struct.
    pose proof Hok as Hok'. rewrite ok_struct in Hok'. apply andb_prop in Hok' as [_ Hf].
    rewrite (mk_eq p fs vs H Hf (Pv_struct _ _ Hv)).
    apply go_eq; [lia | apply sorted_asc; assumption].
Qed.

Lemma t_conforms_partial : t_conforms_partial_statement.
Proof. intros p t v Hok Hwf. unfold TMarshal. apply conforms_gen; [assumption | left; assumption]. Qed.

(* ---------- C08: totality of decoding ---------- *)
(* the result is a value with a strictly smaller measure, or an error: never a panic, never out of fuel *)
Definition gd {A} (m : A -> nat) (n : nat) (x : tres A) : Prop :=
  match x with TOk a => (m a < n)%nat | TErr _ => True | TPanic => False | TOutOfFuel => False end.
Definition mp {A} (a : A * bytes) : nat := length (snd a).
Definition ms (r : bytes) : nat := length r.

Lemma gd_bind {A B} (mA : A -> nat) (mB : B -> nat) n n' (x : tres A) (k : A -> tres B) :
  gd mA n x -> (forall a, (mA a < n)%nat -> gd mB n' (k a)) -> gd mB n' (tbind x k).
Proof. destruct x; simpl; auto; contradiction. Qed.
Lemma gd_dee {A} (m : A -> nat) n (x : tres A) : gd m n x -> gd m n (dont_expect_eof x).
Proof. destruct x as [a|e| |]; simpl; auto. destruct e; simpl; auto. Qed.
Lemma gd_mono {A} (m : A -> nat) n n' (x : tres A) : (n <= n')%nat -> gd m n x -> gd m n' x.
Proof. destruct x; simpl; auto. lia. Qed.

(* --- copies of the loops of skip and dec, parameterised by the recursive calls --- *)
Section SkipLoops.
  Variable p : proto.
  Variable skipf : Z -> bytes -> tres bytes.
  Section L.
    Variable et : Z.
    Fixpoint sk_list (k : nat) (cnt : Z) (r : bytes) : tres bytes :=
      if cnt <=? 0 then TOk r else
      match k with O => TOutOfFuel | S k' => tlet r <- dont_expect_eof (skipf et r) in sk_list k' (cnt - 1) r end.
  End L.
  Section M.
    Variables kt vt : Z.
    Fixpoint sk_map (k : nat) (cnt : Z) (r : bytes) : tres bytes :=
      if cnt <=? 0 then TOk r else
      match k with O => TOutOfFuel | S k' =>
        tlet r <- dont_expect_eof (skipf kt r) in
        tlet r <- dont_expect_eof (skipf vt r) in sk_map k' (cnt - 1) r end.
  End M.
  Fixpoint sk_struct (k : nat) (r : bytes) (last : Z) (nfields : Z) : tres bytes :=
    match k with O => TOutOfFuel | S k' =>
      match r_field p r with
      | TErr e => TErr (if (nfields >? 0) && (match e with EEOF => true | _ => false end) then EUnexpectedEOF else e)
      | TPanic => TPanic | TOutOfFuel => TOutOfFuel
      | TOk ((id, fty, isdelta), r) =>
          if fty =? c_STOP then TOk r else
          let id := if isdelta then s16 (id + last) else id in
          tlet r <- dont_expect_eof
                      (if ((fty =? c_TRUE) || (fty =? c_BOOL)) && (match p with PCompact => true | PBinary => false end)
                       then TOk r else skipf fty r) in
          sk_struct k' r id (nfields + 1)
      end
    end.
  Definition skip_body (f : nat) (ty : Z) (b : bytes) : tres bytes :=
    if (ty =? c_TRUE) || (ty =? c_BOOL) || (ty =? c_I8) then tlet (_, r) <- r_byte b in TOk r
    else if ty =? c_I16 then tlet (_, r) <- r_i16 p b in TOk r
    else if ty =? c_I32 then tlet (_, r) <- r_i32 p b in TOk r
    else if ty =? c_I64 then tlet (_, r) <- r_i64 p b in TOk r
    else if ty =? c_DOUBLE then tlet (_, r) <- r_f64 p b in TOk r
    else if ty =? c_BINARY then
      tlet (n, r) <- r_len p b in
      if n =? 0 then TOk r else if len r <? n then TErr EUnexpectedEOF else TOk (slice_from r n)
    else if (ty =? c_LIST) || (ty =? c_SET) then
      tlet (h, r) <- r_list p b in
      let '(n, et) := h in sk_list et (S (length r)) n r
    else if ty =? c_MAP then
      tlet (h, r) <- r_map p b in
      let '(n, kt, vt) := h in sk_map kt vt (S (length r)) n r
    else if ty =? c_STRUCT then sk_struct f b 0 0
    else TErr EOther.
End SkipLoops.
Lemma skip_S f p ty b : skip (S f) p ty b = skip_body p (skip f p) f ty b.
Proof. reflexivity. Qed.
(* the loops of skipItems / skipEntries are the LIST / MAP loops of skip *)
Lemma skip_items_eq f p et n r : skip_items f p et n r = sk_list (skip f p) et (S (length r)) n r.
Proof. reflexivity. Qed.
Lemma skip_entries_eq f p kt vt n r : skip_entries f p kt vt n r = sk_map (skip f p) kt vt (S (length r)) n r.
Proof. reflexivity. Qed.

Section DecLoops.
  Variable p : proto.
  Variable decf : tty -> Z -> tval -> bytes -> tres (tval * bytes).
  Variable skipf : Z -> bytes -> tres bytes.
  Variable flags : Z.
  Section L.
    Variable et : tty.
    Fixpoint dl_list (k : nat) (cnt : Z) (acc : list tval) (r : bytes) : tres (tval * bytes) :=
      if cnt <=? 0 then TOk (TvList true (rev acc), r) else
      match k with
      | O => TOutOfFuel
      | S k' => tlet (x, r) <- dont_expect_eof (decf et (Z.land flags f_strict) (zero_of et) r) in dl_list k' (cnt - 1) (x :: acc) r
      end.
    Fixpoint dl_set (k : nat) (cnt : Z) (acc : list tval) (r : bytes) : tres (tval * bytes) :=
      if cnt <=? 0 then TOk (TvSet true acc, r) else
      match k with
      | O => TOutOfFuel
      | S k' => tlet (x, r) <- dont_expect_eof (decf et (Z.land flags f_strict) (zero_of et) r) in dl_set k' (cnt - 1) (set_add acc x) r
      end.
  End L.
  Section M.
    Variables kt vt : tty.
    Fixpoint dl_map (k : nat) (cnt : Z) (acc : list (tval * tval)) (r : bytes) : tres (tval * bytes) :=
      if cnt <=? 0 then TOk (TvMap true acc, r) else
      match k with
      | O => TOutOfFuel
      | S k' =>
          tlet (x, r) <- dont_expect_eof (decf kt (Z.land flags f_strict) (zero_of kt) r) in
          tlet (y, r) <- dont_expect_eof (decf vt (Z.land flags f_strict) (zero_of vt) r) in
          dl_map k' (cnt - 1) (map_set acc x y) r
      end.
  End M.
  Section S.
    Variable fs : list tfield.
    Variables minID nslots nwords : Z.
    Variable lookup : Z -> option (nat * tfield).
    Fixpoint dl_struct (k : nat) (r : bytes) (last : Z) (nfields : Z) (vs : list tval) (seen : list Z) : tres (tval * bytes) :=
      match k with O => TOutOfFuel | S k' =>
        match r_field p r with
        | TErr e => TErr (if (nfields >? 0) && (match e with EEOF => true | _ => false end) then EUnexpectedEOF else e)
        | TPanic => TPanic | TOutOfFuel => TOutOfFuel
        | TOk ((id, fty, isdelta), r) =>
            if fty =? c_STOP then
              let missing := existsb (fun fd => has_flag (fld_flags fd) f_required && negb (existsb (Z.eqb (fld_id fd - minID)) seen)) fs in
              if missing then TErr EMissing else TOk (TvStruct vs, r)
            else
            let id := if isdelta then s16 (id + last) else id in
            let slot := id - minID in
            let known := if (slot <? 0) || (slot >=? nslots) then None else lookup id in
            match known with
            | None =>
                tlet r <- dont_expect_eof
                            (if ((fty =? c_TRUE) || (fty =? c_BOOL)) && (match p with PCompact => true | PBinary => false end)
                             then TOk r else skipf fty r) in
                dl_struct k' r id (nfields + 1) vs seen
            | Some (i, fd) =>
                if (slot / 64 >=? nwords) then TPanic else
                let seen := slot :: seen in
                let fexp := type_of (fld_ty fd) in
                if negb (fty =? fexp) && negb ((fty =? c_TRUE) && (fexp =? c_BOOL)) then
                  (if has_flag flags f_strict then TErr EMismatch else
                     tlet r <- dont_expect_eof
                                 (if ((fty =? c_TRUE) || (fty =? c_BOOL)) && (match p with PCompact => true | PBinary => false end)
                                  then TOk r else skipf fty r) in
                     dl_struct k' r id (nfields + 1) vs seen)
                else
                let oldf := nth i vs (zero_of (fld_ty fd)) in
                if (match p with PCompact => true | PBinary => false end) && ((fty =? c_TRUE) || (fty =? c_BOOL)) then
                  dl_struct k' r id (nfields + 1) (set_nth vs i (wrap_ptrs (fld_ty fd) (TvBool (fty =? c_TRUE)))) seen
                else
                let fl := Z.lor (Z.land flags f_strict) (fld_flags fd) in
                tlet (x, r) <- dont_expect_eof
                                 (if has_flag (fld_flags fd) f_enum then
                                    match fld_ty fd with
                                    | ThI8 | ThI16 | ThI32 | ThI64 => tlet (z, r) <- r_i32 p r in TOk (TvInt z, r)
                                    | ft => decf ft fl oldf r
                                    end
                                  else decf (fld_ty fd) fl oldf r) in
                dl_struct k' r id (nfields + 1) (set_nth vs i x) seen
            end
        end
      end.
  End S.
  Definition lookup_f (fs : list tfield) (id : Z) : option (nat * tfield) :=
    (fix go (fs : list tfield) (i : nat) : option (nat * tfield) :=
       match fs with [] => None | fd :: r => if fld_id fd =? id then Some (i, fd) else go r (S i) end) fs O.
  Definition dec_body (f : nat) (t : tty) (old : tval) (b : bytes) : tres (tval * bytes) :=
    match t with
    | ThBool => tlet (x, r) <- r_byte b in TOk (TvBool (negb (x =? 0)), r)
    | ThI8 => tlet (x, r) <- r_byte b in TOk (TvInt (s8 x), r)
    | ThI16 => tlet (x, r) <- r_i16 p b in TOk (TvInt x, r)
    | ThI32 => tlet (x, r) <- r_i32 p b in TOk (TvInt x, r)
    | ThI64 => tlet (x, r) <- r_i64 p b in TOk (TvInt x, r)
    | ThF64 => tlet (x, r) <- r_f64 p b in TOk (TvInt x, r)
    | ThStr | ThBytes => tlet (s, r) <- r_bytes p b in TOk (TvBytes true s, r)
    | ThPtr t' =>
        let cur := match old with TvPtr (Some x) => x | _ => zero_of t' end in
        tlet (x, r) <- decf t' flags cur b in TOk (TvPtr (Some x), r)
    | ThList et =>
        tlet (h, r) <- r_list p b in
        let '(n, lt) := h in
        let lt := if lt =? c_TRUE then c_BOOL else lt in
        if negb (type_of et =? lt) then (if has_flag flags f_strict then TErr EMismatch else tlet r <- sk_list skipf lt (S (length r)) n r in TOk (old, r)) else
        if n <? 0 then TErr EOther else dl_list et (S (length r)) n [] r
    | ThSet kt =>
        tlet (h, r) <- r_list p b in
        let '(n, lt) := h in
        let lt := if lt =? c_TRUE then c_BOOL else lt in
        if n <? 0 then TErr EOther else
        if n =? 0 then TOk (TvSet true [], r) else
        if negb (type_of kt =? lt) then (if has_flag flags f_strict then TErr EMismatch else tlet r <- sk_list skipf lt (S (length r)) n r in TOk (TvSet true [], r)) else
        dl_set kt (S (length r)) n [] r
    | ThMap kt vt =>
        tlet (h, r) <- r_map p b in
        let '(n, mk, mv) := h in
        if n <? 0 then TErr EOther else
        if n =? 0 then TOk (TvMap true [], r) else
        if negb (type_of kt =? mk) then (if has_flag flags f_strict then TErr EMismatch else tlet r <- sk_map skipf mk mv (S (length r)) n r in TOk (TvMap true [], r)) else
        if negb (type_of vt =? mv) then (if has_flag flags f_strict then TErr EMismatch else tlet r <- sk_map skipf mk mv (S (length r)) n r in TOk (TvMap true [], r)) else
        dl_map kt vt (S (length r)) n [] r
    | ThStruct fs =>
        let vs := match old with TvStruct vs => vs | _ => match zero_of t with TvStruct z => z | _ => [] end end in
        let ids := map fld_id fs in
        let minID := fold_left (fun m i => if (i <? m) || (m =? 0) then i else m) ids 0 in
        let maxID := fold_left Z.max ids 0 in
        let nslots := maxID - minID + 1 in
        let nwords := nslots / 64 + 1 in
        dl_struct fs minID nslots nwords (lookup_f fs) f b 0 0 vs []
    end.
End DecLoops.
Lemma dec_S f p t flags old b : dec (S f) p t flags old b = dec_body p (dec f p) (skip f p) flags f t old b.
Proof. destruct t; reflexivity. Qed.

(* --- readers: on success the rest is strictly shorter than the input --- *)
Ltac fin := repeat match goal with H : gd _ _ (TOk _) |- _ => unfold gd in H end; unfold mp, ms in *; unfold gd; cbn [snd fst length] in *; try exact I; try lia.
Tactic Notation "gb" constr(L) := eapply gd_bind; [apply L | intros [a1 r1] H1].

Lemma g_byte b : gd mp (length b) (r_byte b).
Proof. destruct b; simpl; fin. Qed.
Lemma g_full n b : (0 < n)%nat -> gd mp (length b) (r_full n b).
Proof.
  intros Hn. unfold r_full. destruct (Nat.eqb_spec n 0); [lia|].
  destruct b as [|z b']; [exact I|]. destruct (Nat.ltb_spec (length (z :: b')) n); [exact I|].
  unfold gd, mp; cbn [snd]. rewrite skipn_length. lia.
Qed.
Lemma g_uvl : forall fuel i x s b, gd mp (length b) (r_uvarint_loop fuel i x s b).
Proof.
  induction fuel; intros i x s b; cbn [r_uvarint_loop]; [exact I|].
  destruct b as [|c r]; [exact I|]. destruct (c <? 128).
  - destruct ((i =? 9) && (c >? 1)); fin.
  - eapply gd_mono; [|apply IHfuel]. simpl; lia.
Qed.
Lemma g_uvarint mx b : gd mp (length b) (r_uvarint mx b).
Proof. unfold r_uvarint. gb g_uvl. destruct (a1 >? mx); fin. Qed.
Lemma g_varint lo hi b : gd mp (length b) (r_varint lo hi b).
Proof. unfold r_varint. gb g_uvl. cbv zeta. destruct ((unzz a1 <? lo) || (unzz a1 >? hi)); fin. Qed.
Lemma g_i16 p b : gd mp (length b) (r_i16 p b).
Proof. destruct p; unfold r_i16; [gb g_full; fin | apply g_varint]. Qed.
Lemma g_i32 p b : gd mp (length b) (r_i32 p b).
Proof. destruct p; unfold r_i32; [gb g_full; fin | apply g_varint]. Qed.
Lemma g_i64 p b : gd mp (length b) (r_i64 p b).
Proof. destruct p; unfold r_i64; [gb g_full; fin | apply g_varint]. Qed.
Lemma g_f64 p b : gd mp (length b) (r_f64 p b).
Proof. unfold r_f64; gb g_full; fin. Qed.
Lemma g_len p b : gd mp (length b) (r_len p b).
Proof.
  destruct p; unfold r_len; [|apply g_uvarint].
  gb g_full; [lia|]. cbv zeta. destruct (be_val a1 >? 2 ^ 31 - 1); fin.
Qed.
Lemma g_bytes p b : gd mp (length b) (r_bytes p b).
Proof.
  unfold r_bytes. gb g_len. destruct (len r1 <? a1); [exact I|].
  unfold gd, mp, slice_from in *; cbn [snd] in *. rewrite skipn_length. lia.
Qed.
Lemma g_field p b : gd mp (length b) (r_field p b).
Proof.
  destruct p; unfold r_field.
  - gb g_byte. eapply gd_bind; [apply gd_dee, g_i16|]. intros [? ?] ?. fin.
  - gb g_byte. destruct (a1 =? c_STOP); [fin|]. destruct (negb (Z.shiftr a1 4 =? 0)); [fin|].
    eapply gd_bind; [apply gd_dee, g_i16|]. intros [? ?] ?. fin.
Qed.
Lemma g_list p b : gd mp (length b) (r_list p b).
Proof.
  destruct p; unfold r_list.
  - gb g_byte. eapply gd_bind; [apply gd_dee, g_i32|]. intros [? ?] ?. destruct (_ <? 0); fin.
  - gb g_byte. destruct (negb (Z.shiftr a1 4 =? 15)); [fin|].
    eapply gd_bind; [apply gd_dee, g_uvarint|]. intros [? ?] ?. fin.
Qed.
Lemma g_map p b : gd mp (length b) (r_map p b).
Proof.
  destruct p; unfold r_map.
  - gb g_byte. eapply gd_bind; [apply gd_dee, g_byte|]. intros [? ?] ?.
    eapply gd_bind; [apply gd_dee, g_i32|]. intros [? ?] ?. destruct (_ <? 0); fin.
  - gb g_uvarint. destruct (a1 =? 0); [fin|].
    eapply gd_bind; [apply gd_dee, g_byte|]. intros [? ?] ?. fin.
Qed.

(* --- skip --- *)
Section SkipLoopLemmas.
  Variables (p : proto) (skipf : Z -> bytes -> tres bytes) (N : nat).
  Hypothesis Hskip : forall ty r, (length r < N)%nat -> gd ms (length r) (skipf ty r).
  Lemma g_sk_list et : forall k cnt r, (length r < N)%nat -> (length r < k)%nat ->
    gd ms (S (length r)) (sk_list skipf et k cnt r).
  Proof.
    induction k; intros cnt r HN Hk; [lia|]. cbn [sk_list].
    destruct (cnt <=? 0); [fin|].
    eapply gd_bind; [apply gd_dee, Hskip, HN|]. intros r' Hr'.
    eapply gd_mono; [|apply IHk]; fin.
  Qed.
  Lemma g_sk_map kt vt : forall k cnt r, (length r < N)%nat -> (length r < k)%nat ->
    gd ms (S (length r)) (sk_map skipf kt vt k cnt r).
  Proof.
    induction k; intros cnt r HN Hk; [lia|]. cbn [sk_map].
    destruct (cnt <=? 0); [fin|].
    eapply gd_bind; [apply gd_dee, Hskip, HN|]. intros r' Hr'.
    eapply gd_bind; [apply gd_dee, Hskip; fin|]. intros r'' Hr''.
    eapply gd_mono; [|apply IHk]; fin.
  Qed.
  Lemma g_sk_struct : forall k r last nf, (length r <= N)%nat -> (length r < k)%nat ->
    gd ms (length r) (sk_struct p skipf k r last nf).
  Proof.
    induction k; intros r last nf HN Hk; [lia|]. cbn [sk_struct].
    pose proof (g_field p r) as Hf.
    destruct (r_field p r) as [[[[id fty] isd] r1]|e| |]; try contradiction; [|exact I].
    destruct (fty =? c_STOP); [fin|]. cbv zeta.
    eapply gd_bind with (mA := ms) (n := S (length r1)).
    - apply gd_dee.
      destruct (((fty =? c_TRUE) || (fty =? c_BOOL)) && match p with PBinary => false | PCompact => true end); [fin|].
      eapply gd_mono; [|apply Hskip]; fin.
    - intros r2 H2. eapply gd_mono; [|apply IHk]; fin.
  Qed.
End SkipLoopLemmas.

Lemma skip_ok : forall fuel p ty b, (length b + 2 <= fuel)%nat -> gd ms (length b) (skip fuel p ty b).
Proof.
  induction fuel; intros p ty b Hf; [lia|]. rewrite skip_S. unfold skip_body.
  assert (Hskip : forall ty r, (length r < length b)%nat -> gd ms (length r) (skip fuel p ty r)).
  { intros; apply IHfuel; lia. }
  destruct ((ty =? c_TRUE) || (ty =? c_BOOL) || (ty =? c_I8)); [gb g_byte; fin|].
  destruct (ty =? c_I16); [gb g_i16; fin|].
  destruct (ty =? c_I32); [gb g_i32; fin|].
  destruct (ty =? c_I64); [gb g_i64; fin|].
  destruct (ty =? c_DOUBLE); [gb g_f64; fin|].
  destruct (ty =? c_BINARY).
  { gb g_len. destruct (a1 =? 0); [fin|]. destruct (len r1 <? a1); [exact I|].
    unfold gd, ms, mp, slice_from in *; cbn [snd] in *. rewrite skipn_length. lia. }
  destruct ((ty =? c_LIST) || (ty =? c_SET)).
  { gb g_list. destruct a1 as [n et]. eapply gd_mono; [|apply g_sk_list with (N := length b); [exact Hskip | fin | fin]]; fin. }
  destruct (ty =? c_MAP).
  { gb g_map. destruct a1 as [[n kt] vt]. eapply gd_mono; [|apply g_sk_map with (N := length b); [exact Hskip | fin | fin]]; fin. }
  destruct (ty =? c_STRUCT); [|exact I].
  apply g_sk_struct with (N := length b); [exact Hskip | lia | lia].
Qed.

(* --- dec --- *)
Section DecCollLemmas.
  Variable decf : tty -> Z -> tval -> bytes -> tres (tval * bytes).
  Variables (flags : Z) (N : nat).
  Section Coll.
    Variable et : tty.
    Hypothesis Hdec : forall fl o r, (length r < N)%nat -> gd mp (length r) (decf et fl o r).
    Lemma g_dl_list : forall k cnt acc r, (length r < N)%nat -> (length r < k)%nat ->
      gd mp (S (length r)) (dl_list decf flags et k cnt acc r).
    Proof.
      induction k; intros cnt acc r HN Hk; [lia|]. cbn [dl_list].
      destruct (cnt <=? 0); [fin|].
      eapply gd_bind; [apply gd_dee, Hdec, HN|]. intros [x r'] Hr'.
      eapply gd_mono; [|apply IHk]; fin.
    Qed.
    Lemma g_dl_set : forall k cnt acc r, (length r < N)%nat -> (length r < k)%nat ->
      gd mp (S (length r)) (dl_set decf flags et k cnt acc r).
    Proof.
      induction k; intros cnt acc r HN Hk; [lia|]. cbn [dl_set].
      destruct (cnt <=? 0); [fin|].
      eapply gd_bind; [apply gd_dee, Hdec, HN|]. intros [x r'] Hr'.
      eapply gd_mono; [|apply IHk]; fin.
    Qed.
  End Coll.
  Section MapL.
    Variables kt vt : tty.
    Hypothesis Hdk : forall fl o r, (length r < N)%nat -> gd mp (length r) (decf kt fl o r).
    Hypothesis Hdv : forall fl o r, (length r < N)%nat -> gd mp (length r) (decf vt fl o r).
    Lemma g_dl_map : forall k cnt acc r, (length r < N)%nat -> (length r < k)%nat ->
      gd mp (S (length r)) (dl_map decf flags kt vt k cnt acc r).
    Proof.
      induction k; intros cnt acc r HN Hk; [lia|]. cbn [dl_map].
      destruct (cnt <=? 0); [fin|].
      eapply gd_bind; [apply gd_dee, Hdk, HN|]. intros [x r'] Hr'.
      eapply gd_bind; [apply gd_dee, Hdv; fin|]. intros [y r''] Hr''.
      eapply gd_mono; [|apply IHk]; fin.
    Qed.
  End MapL.
End DecCollLemmas.
Section DecLoopLemmas.
  Variables (p : proto) (decf : tty -> Z -> tval -> bytes -> tres (tval * bytes)) (skipf : Z -> bytes -> tres bytes).
  Variables (flags : Z) (N : nat).
  Section StructL.
    Variable fs : list tfield.
    Variables minID nslots nwords : Z.
    Variable lookup : Z -> option (nat * tfield).
    Hypothesis Hdec : forall fd fl o r, In fd fs -> (length r < N)%nat -> gd mp (length r) (decf (fld_ty fd) fl o r).
    Hypothesis Hskip : forall ty r, (length r < N)%nat -> gd ms (length r) (skipf ty r).
    Hypothesis Hlk : forall id i fd, lookup id = Some (i, fd) -> In fd fs.
    Hypothesis Hw : nwords = nslots / 64 + 1.
    Lemma g_dl_struct : forall k r last nf vs seen, (length r <= N)%nat -> (length r < k)%nat ->
      gd mp (length r) (dl_struct p decf skipf flags fs minID nslots nwords lookup k r last nf vs seen).
    Proof.
      induction k; intros r last nf vs seen HN Hk; [lia|]. cbn [dl_struct].
      pose proof (g_field p r) as Hf.
      destruct (r_field p r) as [[[[id fty] isd] r1]|e| |]; try contradiction; [|exact I].
      destruct (fty =? c_STOP).
      { cbv zeta. match goal with |- context [if ?c then _ else _] => destruct c end; fin. }
      cbv zeta. set (id' := if isd then s16 (id + last) else id). set (slot := id' - minID).
      assert (HNone : forall seen, gd mp (length r)
                (tlet r0 <- dont_expect_eof
                             (if ((fty =? c_TRUE) || (fty =? c_BOOL)) && match p with PBinary => false | PCompact => true end
                              then TOk r1 else skipf fty r1) in
                 dl_struct p decf skipf flags fs minID nslots nwords lookup k r0 id' (nf + 1) vs seen)).
      { clear seen. intros seen. eapply gd_bind with (mA := ms) (n := S (length r1)).
        - apply gd_dee.
          destruct (((fty =? c_TRUE) || (fty =? c_BOOL)) && match p with PBinary => false | PCompact => true end); [fin|].
          eapply gd_mono; [|apply Hskip]; fin.
        - intros r2 H2. eapply gd_mono; [|apply IHk]; fin. }
      destruct ((slot <? 0) || (slot >=? nslots)) eqn:Eb; [apply HNone|].
      destruct (lookup id') as [[i fd]|] eqn:El; [|apply HNone].
      apply Hlk in El.
      destruct (slot / 64 >=? nwords) eqn:Ew; [exfalso; lia|].
      match goal with |- context [if ?c then _ else _] => destruct c end.
      { destruct (has_flag flags f_strict); [exact I|]. apply HNone. }
      clear HNone. match goal with |- context [if ?c then _ else _] => destruct c end.
      { eapply gd_mono; [|apply IHk]; fin. }
      eapply gd_bind with (mA := mp) (n := length r1).
      - apply gd_dee.
        assert (Hd : forall fl o, gd mp (length r1) (decf (fld_ty fd) fl o r1)) by (intros; apply Hdec; [assumption | fin]).
        destruct (has_flag (fld_flags fd) f_enum); [|apply Hd].
        destruct (fld_ty fd); try apply Hd; (eapply gd_bind; [apply g_i32 | intros [a2 r2] H2; fin]).
      - intros [x r2] H2. eapply gd_mono; [|apply IHk]; fin.
    Qed.
  End StructL.
End DecLoopLemmas.

Lemma lookup_in fs id : forall i fd, lookup_f fs id = Some (i, fd) -> In fd fs.
Proof.
  unfold lookup_f. generalize O. induction fs as [|f r IH]; intros n i fd H; [discriminate|].
  destruct (fld_id f =? id).
  - injection H as _ <-. left; reflexivity.
  - right. eapply IH; eassumption.
Qed.
Lemma tdepth_field fs fd : In fd fs -> (tdepth (fld_ty fd) < tdepth (ThStruct fs))%nat.
Proof.
  intros Hin. simpl. apply Nat.lt_succ_r.
  induction fs as [|[id fl ft] r IH]; [contradiction|].
  destruct Hin as [<-|Hin]; simpl; [lia|]. specialize (IH Hin). lia.
Qed.

Lemma dec_ok : forall fuel p t flags old b, (length b + tdepth t + 1 <= fuel)%nat ->
  gd mp (length b) (dec fuel p t flags old b).
Proof.
  induction fuel; intros p t flags old b Hf; [lia|]. rewrite dec_S.
  assert (Hdec : forall t' fl o r, (tdepth t' < tdepth t)%nat -> (length r < length b)%nat ->
                   gd mp (length r) (dec fuel p t' fl o r)).
  { intros; apply IHfuel; lia. }
  assert (Hdec0 : forall t' fl o, (tdepth t' < tdepth t)%nat -> gd mp (length b) (dec fuel p t' fl o b)).
  { intros; apply IHfuel; lia. }
  assert (Hskip : forall ty r, (length r < length b)%nat -> gd ms (length r) (skip fuel p ty r)).
  { intros ty r Hr. apply skip_ok. assert (1 <= tdepth t)%nat by (destruct t; simpl; lia). lia. }
  destruct t; unfold dec_body.
  - gb g_byte; fin.
  - gb g_byte; fin.
  - gb g_i16; fin.
  - gb g_i32; fin.
  - gb g_i64; fin.
  - gb g_f64; fin.
  - gb g_bytes; fin.
  - gb g_bytes; fin.
  - (* list *) gb g_list. destruct a1 as [n lt]. cbv zeta.
    match goal with |- context [if ?c then _ else _] => destruct c end.
    { destruct (has_flag flags f_strict); [exact I|].
      eapply gd_bind with (mA := ms) (n := S (length r1)); [apply g_sk_list with (N := length b); [exact Hskip | fin | fin]|].
      intros r2 H2. fin. }
    destruct (n <? 0); [exact I|].
    eapply gd_mono; [|apply g_dl_list with (N := length b); [|fin|fin]]; [fin|].
    intros; apply Hdec; [simpl; lia | assumption].
  - (* set *) gb g_list. destruct a1 as [n lt]. cbv zeta.
    destruct (n <? 0); [exact I|]. destruct (n =? 0); [fin|].
    match goal with |- context [if ?c then _ else _] => destruct c end.
    { destruct (has_flag flags f_strict); [exact I|].
      eapply gd_bind with (mA := ms) (n := S (length r1)); [apply g_sk_list with (N := length b); [exact Hskip | fin | fin]|].
      intros r2 H2. fin. }
    eapply gd_mono; [|apply g_dl_set with (N := length b); [|fin|fin]]; [fin|].
    intros; apply Hdec; [simpl; lia | assumption].
  - (* map *) gb g_map. destruct a1 as [[n mk] mv].
    destruct (n <? 0); [exact I|]. destruct (n =? 0); [fin|].
    match goal with |- context [if ?c then _ else _] => destruct c end.
    { destruct (has_flag flags f_strict); [exact I|].
      eapply gd_bind with (mA := ms) (n := S (length r1)); [apply g_sk_map with (N := length b); [exact Hskip | fin | fin]|].
      intros r2 H2. fin. }
    match goal with |- context [if ?c then _ else _] => destruct c end.
    { destruct (has_flag flags f_strict); [exact I|].
      eapply gd_bind with (mA := ms) (n := S (length r1)); [apply g_sk_map with (N := length b); [exact Hskip | fin | fin]|].
      intros r2 H2. fin. }
    eapply gd_mono; [|apply g_dl_map with (N := length b); [| |fin|fin]]; [fin| |].
    + intros; apply Hdec; [simpl; lia | assumption].
    + intros; apply Hdec; [simpl; lia | assumption].
  - (* struct *) cbv zeta.
    eapply g_dl_struct with (N := length b).
    + intros fd fl o r Hin Hr. apply Hdec; [apply tdepth_field; assumption | assumption].
    + exact Hskip.
    + apply lookup_in.
    + reflexivity.
    + lia.
    + simpl in Hf. lia.
  - (* ptr *) cbv zeta. eapply gd_bind; [apply Hdec0; simpl; lia|]. intros [x r] H. fin.
Qed.

Lemma t_decode_total : t_decode_total_statement.
Proof.
  intros p t b fuel _ _ _ Hf. unfold TUnmarshal.
  assert (H : gd mp (length b) (dec fuel p t 0 (zero_of t) b)) by (apply dec_ok; lia).
  destruct (dec fuel p t 0 (zero_of t) b) as [[v r]|e| |]; try contradiction.
  - simpl. destruct r; [left | right]; eexists; reflexivity.
  - right. eexists; reflexivity.
Qed.
