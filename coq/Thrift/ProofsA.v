(* Proofs for C13 (specification conformance) and C08 (totality) of the thrift model. *)
From Verif Require Import Base.GoInt Thrift.Model Thrift.Spec.
From Coq Require Import ZifyBool.
Open Scope Z_scope.
Local Ltac Zify.zify_post_hook ::= Z.div_mod_to_equations.

(* ---------- C13: the unmodified specifications are not met (two witnesses) ---------- *)
Lemma t_conforms_refuted : t_conforms_refuted_statement.
Proof.
  split.
  - exists (ThStruct [TField 1 0 ThI32]), (TvStruct [TvInt 7]).
    split; [reflexivity|]. split; [reflexivity|]. vm_compute. discriminate.
  - exists (ThStruct [TField 1 0 ThF64]), (TvStruct [TvInt 1]).
    split; [reflexivity|]. split; [reflexivity|]. vm_compute. discriminate.
Qed.

(* ---------- C13 partial conformance ---------- *)
Section TtyInd.
  Variable P : tty -> Prop.
  Hypothesis Hbase : forall t, (match t with ThList _ | ThSet _ | ThMap _ _ | ThStruct _ | ThPtr _ => False | _ => True end) -> P t.
  Hypothesis HList : forall t, P t -> P (ThList t).
  Hypothesis HSet : forall t, P t -> P (ThSet t).
  Hypothesis HMap : forall k v, P k -> P v -> P (ThMap k v).
  Hypothesis HPtr : forall t, P t -> P (ThPtr t).
  Hypothesis HStruct : forall fs, Forall (fun f => P (fld_ty f)) fs -> P (ThStruct fs).
  Fixpoint tty_ind2 (t : tty) : P t :=
    match t with
    | ThList t' => HList t' (tty_ind2 t')
    | ThSet t' => HSet t' (tty_ind2 t')
    | ThMap k v => HMap k v (tty_ind2 k) (tty_ind2 v)
    | ThPtr t' => HPtr t' (tty_ind2 t')
    | ThStruct fs =>
        HStruct fs ((fix go (fs : list tfield) : Forall (fun f => P (fld_ty f)) fs :=
                       match fs with
                       | [] => Forall_nil _
                       | f :: r => Forall_cons f (match f return P (fld_ty f) with TField _ _ ft => tty_ind2 ft end) (go r)
                       end) fs)
    | ThBool => Hbase ThBool I | ThI8 => Hbase ThI8 I | ThI16 => Hbase ThI16 I | ThI32 => Hbase ThI32 I
    | ThI64 => Hbase ThI64 I | ThF64 => Hbase ThF64 I | ThStr => Hbase ThStr I | ThBytes => Hbase ThBytes I
    end.
End TtyInd.

Definition goL (f : tval -> bytes) := fix go (es : list tval) : bytes := match es with [] => [] | x :: r => f x ++ go r end.
Definition goM (f g : tval -> bytes) :=
  fix go (es : list (tval * tval)) : bytes := match es with [] => [] | (k, x) :: r => f k ++ g x ++ go r end.
Definition mkb (body : tfield -> tval -> bytes) :=
  fix mk (fs : list tfield) (vs : list tval) : list (tfield * (tval * bytes)) :=
    match fs, vs with f :: fr, x :: vr => (f, (x, body f x)) :: mk fr vr | _, _ => [] end.
Definition body_m (p : proto) (f : tfield) (x : tval) : bytes :=
  match f with TField _ fl ft =>
    if has_flag fl f_enum then
      match ft, x with
      | (ThI8 | ThI16 | ThI32 | ThI64), TvInt z => w_i32 p (s32 z)
      | _, _ => enc p ft x
      end
    else enc p ft x end.
Definition body_s (p : proto) (f : tfield) (x : tval) : bytes :=
  match f with TField _ fl ft =>
    if has_flag fl f_enum then (match x with TvInt z => s_i32 p z | _ => [] end) else spec_enc pkg_dev p ft x end.
Definition skipc (f : tfield) (x : tval) : bool :=
  match x with TvPtr None => true | _ => false end || (negb (has_flag (fld_flags f) f_required) && is_zero_t (fld_ty f) x).
Definition go_m (p : proto) :=
  fix go (l : list (tfield * (tval * bytes))) (last : Z) : bytes :=
    match l with
    | [] => w_field p 0 c_STOP
    | (f, (x, body)) :: r =>
        if skipc f x then go r last else
        let ty := type_of (fld_ty f) in
        let delta := s16 (fld_id f - last) in
        let wid := match p with PCompact => if delta <=? 15 then delta else fld_id f | PBinary => fld_id f end in
        let coalesce := match p with PCompact => ty =? c_BOOL | PBinary => false end in
        let wty := if coalesce && deref_bool x then c_TRUE else ty in
        w_field p wid wty ++ (if coalesce then [] else body) ++ go r (fld_id f)
    end.
Definition go_s (p : proto) :=
  fix go (l : list (tfield * (tval * bytes))) (last : Z) : bytes :=
    match l with
    | [] => [0] ++ (match p with PBinary => [0; 0] | PCompact => [] end)
    | (f, (x, body)) :: r =>
        if skipc f x then go r last else
        match p with
        | PBinary => [code_of pkg_dev p (fld_ty f)] ++ be_bytes 2 (fld_id f) ++ body ++ go r (fld_id f)
        | PCompact =>
            let isbool := spec_code PCompact (fld_ty f) =? 2 in
            let code := if isbool then (if deref_bool x then 1 else 2) else spec_code PCompact (fld_ty f) in
            let delta := fld_id f - last in
            (if (0 <? delta) && (delta <=? 15) then [delta * 16 + code] else [code] ++ uvarint (zz64 (fld_id f)))
            ++ (if isbool then [] else body) ++ go r (fld_id f)
        end
    end.

Lemma enc_ptr p t o : enc p (ThPtr t) (TvPtr o) = match o with Some x => enc p t x | None => enc p t (zero_of t) end.
Proof. reflexivity. Qed.
Lemma senc_ptr p t o : spec_enc pkg_dev p (ThPtr t) (TvPtr o) = match o with Some x => spec_enc pkg_dev p t x | None => spec_enc pkg_dev p t (zero_of t) end.
Proof. destruct o; reflexivity. Qed.
Lemma enc_list p et nn es : enc p (ThList et) (TvList nn es) = w_list p (len es) (type_of et) ++ goL (enc p et) es.
Proof. reflexivity. Qed.
Lemma senc_list p et nn es : spec_enc pkg_dev p (ThList et) (TvList nn es) = s_list_header p (code_of pkg_dev p et) (len es) ++ goL (spec_enc pkg_dev p et) es.
Proof. reflexivity. Qed.
Lemma enc_set p et nn es : enc p (ThSet et) (TvSet nn es) = w_list p (len es) (type_of et) ++ goL (enc p et) es.
Proof. reflexivity. Qed.
Lemma senc_set p et nn es : spec_enc pkg_dev p (ThSet et) (TvSet nn es) = s_list_header p (code_of pkg_dev p et) (len es) ++ goL (spec_enc pkg_dev p et) es.
Proof. reflexivity. Qed.
Lemma enc_map p kt vt nn es : enc p (ThMap kt vt) (TvMap nn es) = w_map p (len es) (type_of kt) (type_of vt) ++ goM (enc p kt) (enc p vt) es.
Proof. reflexivity. Qed.
Lemma senc_map p kt vt nn es : spec_enc pkg_dev p (ThMap kt vt) (TvMap nn es) =
  (match p with
   | PBinary => [code_of pkg_dev p kt; code_of pkg_dev p vt] ++ be_bytes 4 (len es)
   | PCompact => uvarint (len es) ++ (if len es =? 0 then [] else [code_of pkg_dev p kt * 16 + code_of pkg_dev p vt])
   end) ++ goM (spec_enc pkg_dev p kt) (spec_enc pkg_dev p vt) es.
Proof. reflexivity. Qed.
Lemma enc_struct p fs vs : enc p (ThStruct fs) (TvStruct vs) = go_m p (sort_by_id (mkb (body_m p) fs vs)) 0.
Proof. reflexivity. Qed.
Lemma senc_struct p fs vs : spec_enc pkg_dev p (ThStruct fs) (TvStruct vs) = go_s p (sort_by_id (mkb (body_s p) fs vs)) 0.
Proof. reflexivity. Qed.

(* --- arithmetic leaves --- *)
Lemma w8_small x : 0 <= x < 256 -> w8 x = x.
Proof. intros; unfold w8; apply Z.mod_small; lia. Qed.
Lemma w16_small x : 0 <= x < 2 ^ 16 -> w16 x = x.
Proof. intros; unfold w16; apply Z.mod_small; lia. Qed.
Lemma w32_small x : 0 <= x < 2 ^ 32 -> w32 x = x.
Proof. intros; unfold w32; apply Z.mod_small; lia. Qed.
Lemma s32_small z : - 2 ^ 31 <= z < 2 ^ 31 -> s32 z = z.
Proof. intros; unfold s32, w32; cbv zeta. destruct (Z.ltb_spec (z mod 2 ^ 32) (2 ^ 31)); lia. Qed.
Lemma s16_small z : - 2 ^ 15 <= z < 2 ^ 15 -> s16 z = z.
Proof. intros; unfold s16, w16; cbv zeta. destruct (Z.ltb_spec (z mod 2 ^ 16) (2 ^ 15)); lia. Qed.
Lemma lor_nib n c : 0 <= n <= 15 -> 0 <= c <= 15 -> Z.lor (w8 (n * 16)) (w8 c) = n * 16 + c.
Proof.
  intros Hn Hc.
  assert (H : forallb (fun n => forallb (fun c => Z.lor (w8 (n * 16)) (w8 c) =? n * 16 + c) (map Z.of_nat (seq 0 16)))
                (map Z.of_nat (seq 0 16)) = true) by (vm_compute; reflexivity).
  rewrite forallb_forall in H.
  assert (In16 : forall k, 0 <= k <= 15 -> In k (map Z.of_nat (seq 0 16))).
  { intros k Hk. apply in_map_iff. exists (Z.to_nat k). split; [lia | apply in_seq; lia]. }
  specialize (H n (In16 n Hn)). rewrite forallb_forall in H. specialize (H c (In16 c Hc)). lia.
Qed.
Lemma len_nonneg {A} (l : list A) : 0 <= len l.
Proof. unfold len; lia. Qed.

Lemma type_of_range t : 2 <= type_of t <= 12.
Proof. induction t; simpl; unfold c_BOOL, c_I8, c_I16, c_I32, c_I64, c_DOUBLE, c_BINARY, c_LIST, c_SET, c_MAP, c_STRUCT; lia. Qed.
Lemma spec_code_compact t : spec_code PCompact t = type_of t.
Proof. induction t; simpl; auto. Qed.
Lemma code_of_pkg p t : code_of pkg_dev p t = type_of t.
Proof. destruct p; simpl; apply spec_code_compact. Qed.

Lemma hdr_list p n t : 0 <= n < tlim -> w_list p n (type_of t) = s_list_header p (code_of pkg_dev p t) n.
Proof.
  intros Hn. unfold tlim in Hn. rewrite code_of_pkg. pose proof (type_of_range t) as Ht.
  destruct p; unfold w_list, s_list_header.
  - rewrite w8_small, w32_small by lia. reflexivity.
  - destruct (Z.leb_spec n 14); destruct (Z.ltb_spec n 15); try lia.
    + rewrite lor_nib by lia. reflexivity.
    + change 240 with (w8 (15 * 16)) at 1. rewrite lor_nib by lia. reflexivity.
Qed.
Lemma hdr_map p n k v : 0 <= n < tlim ->
  w_map p n (type_of k) (type_of v) =
  match p with
  | PBinary => [code_of pkg_dev p k; code_of pkg_dev p v] ++ be_bytes 4 n
  | PCompact => uvarint n ++ (if n =? 0 then [] else [code_of pkg_dev p k * 16 + code_of pkg_dev p v])
  end.
Proof.
  intros Hn. unfold tlim in Hn. rewrite !code_of_pkg.
  pose proof (type_of_range k) as Hk. pose proof (type_of_range v) as Hv.
  destruct p; unfold w_map.
  - rewrite !w8_small, w32_small by lia. reflexivity.
  - rewrite lor_nib by lia. reflexivity.
Qed.

Lemma goL_ext (f g : tval -> bytes) es : Forall (fun x => f x = g x) es -> goL f es = goL g es.
Proof. induction 1; simpl; congruence. Qed.
Lemma goM_ext (f f' g g' : tval -> bytes) es :
  Forall (fun kx => f (fst kx) = f' (fst kx) /\ g (snd kx) = g' (snd kx)) es -> goM f g es = goM f' g' es.
Proof. induction 1 as [|[k x] r [H1 H2] _ IH]; simpl in *; congruence. Qed.

(* --- the hypothesis on values: well-formed, or the zero value written for a nil pointer --- *)
Definition Pv (t : tty) (v : tval) : Prop := tval_wf t v = true \/ v = zero_of t.

Definition wfL (et : tty) := fix go (es : list tval) : bool :=
  match es with [] => true | x :: r => tval_wf et x && negb (match x with TvPtr None => true | _ => false end) && go r end.
Definition wfK (kt : tty) := fix go (ks : list tval) : bool :=
  match ks with [] => true | x :: r => tval_wf kt x && negb (existsb (tval_eqb x) r) && go r end.
Definition wfM (kt vt : tty) := fix go (es : list (tval * tval)) : bool :=
  match es with
  | [] => true
  | (k, x) :: r => tval_wf kt k && tval_wf vt x && negb (match x with TvPtr None => true | _ => false end) &&
                   negb (existsb (fun kv => tval_eqb k (fst kv)) r) && go r
  end.
Definition wfS := fix go (fs : list tfield) (vs : list tval) : bool :=
  match fs, vs with
  | [], [] => true
  | TField _ fl ft :: fr, x :: vr =>
      tval_wf ft x && negb (has_flag fl f_required && (match x with TvPtr None => true | _ => false end)) && go fr vr
  | _, _ => false
  end.
Definition zerosF := fix go (fs : list tfield) : list tval := match fs with [] => [] | TField _ _ ft :: r => zero_of ft :: go r end.
Definition fok := fix go (fs : list tfield) : bool :=
  match fs with
  | [] => true
  | TField id fl ft :: r =>
      (1 <=? id) && (id <? 2 ^ 15) && ty_ok ft &&
      negb (has_flag fl f_required && has_flag fl f_optional) &&
      (negb (has_flag fl f_enum) || (match ft with ThI32 => true | _ => false end)) &&
      ((fl =? 0) || (fl =? f_required) || (fl =? f_optional) || (fl =? f_enum) || (fl =? f_enum + f_required) || (fl =? f_enum + f_optional)) &&
      go r
  end.
Lemma wf_list et nn es : tval_wf (ThList et) (TvList nn es) = (len es <? tlim) && (nn || (len es =? 0)) && wfL et es.
Proof. reflexivity. Qed.
Lemma wf_set et nn es : tval_wf (ThSet et) (TvSet nn es) = (len es <? tlim) && (nn || (len es =? 0)) && wfK et es.
Proof. reflexivity. Qed.
Lemma wf_map kt vt nn es : tval_wf (ThMap kt vt) (TvMap nn es) = (len es <? tlim) && (nn || (len es =? 0)) && wfM kt vt es.
Proof. reflexivity. Qed.
Lemma wf_struct fs vs : tval_wf (ThStruct fs) (TvStruct vs) = wfS fs vs.
Proof. reflexivity. Qed.
Lemma zero_struct fs : zero_of (ThStruct fs) = TvStruct (zerosF fs).
Proof. reflexivity. Qed.
Lemma ok_struct fs : ty_ok (ThStruct fs) = distinctZ (map fld_id fs) && fok fs.
Proof. reflexivity. Qed.

Lemma wfL_forall et es : wfL et es = true -> Forall (fun x => Pv et x) es.
Proof.
  induction es as [|x r IH]; simpl; intros H; constructor.
  - left. destruct (tval_wf et x); [reflexivity | discriminate].
  - apply IH. destruct (wfL et r); [reflexivity|]. rewrite Bool.andb_false_r in H. discriminate.
Qed.
Lemma wfK_forall et es : wfK et es = true -> Forall (fun x => Pv et x) es.
Proof.
  induction es as [|x r IH]; simpl; intros H; constructor.
  - left. destruct (tval_wf et x); [reflexivity | discriminate].
  - apply IH. destruct (wfK et r); [reflexivity|]. rewrite Bool.andb_false_r in H. discriminate.
Qed.
Lemma wfM_forall kt vt es : wfM kt vt es = true -> Forall (fun kx => Pv kt (fst kx) /\ Pv vt (snd kx)) es.
Proof.
  induction es as [|[k x] r IH]; simpl; intros H; constructor.
  - simpl. destruct (tval_wf kt k) eqn:E1; [|discriminate]. destruct (tval_wf vt x) eqn:E2; [|discriminate].
    split; left; assumption.
  - apply IH. destruct (wfM kt vt r); [reflexivity|]. rewrite Bool.andb_false_r in H. discriminate.
Qed.
Lemma Pv_list et nn es : Pv (ThList et) (TvList nn es) -> 0 <= len es < tlim /\ Forall (fun x => Pv et x) es.
Proof.
  intros [H|H].
  - rewrite wf_list in H. apply andb_prop in H as [H H2]. apply andb_prop in H as [H _].
    split; [pose proof (len_nonneg es); lia | apply wfL_forall; assumption].
  - simpl in H. injection H as _ ->. split; [vm_compute; split; congruence | constructor].
Qed.
Lemma Pv_set et nn es : Pv (ThSet et) (TvSet nn es) -> 0 <= len es < tlim /\ Forall (fun x => Pv et x) es.
Proof.
  intros [H|H].
  - rewrite wf_set in H. apply andb_prop in H as [H H2]. apply andb_prop in H as [H _].
    split; [pose proof (len_nonneg es); lia | apply wfK_forall; assumption].
  - simpl in H. injection H as _ ->. split; [vm_compute; split; congruence | constructor].
Qed.
Lemma Pv_map kt vt nn es : Pv (ThMap kt vt) (TvMap nn es) ->
  0 <= len es < tlim /\ Forall (fun kx => Pv kt (fst kx) /\ Pv vt (snd kx)) es.
Proof.
  intros [H|H].
  - rewrite wf_map in H. apply andb_prop in H as [H H2]. apply andb_prop in H as [H _].
    split; [pose proof (len_nonneg es); lia | apply wfM_forall; assumption].
  - simpl in H. injection H as _ ->. split; [vm_compute; split; congruence | constructor].
Qed.
Lemma Pv_struct fs vs : Pv (ThStruct fs) (TvStruct vs) -> Forall2 (fun f x => Pv (fld_ty f) x) fs vs.
Proof.
  intros [H|H].
  - rewrite wf_struct in H. revert vs H.
    induction fs as [|[id fl ft] fr IH]; intros [|x vr] H; simpl in H; try discriminate; constructor.
    + simpl. left. destruct (tval_wf ft x); [reflexivity | discriminate].
    + apply IH. destruct (wfS fr vr); [reflexivity|]. rewrite Bool.andb_false_r in H. discriminate.
  - rewrite zero_struct in H. injection H as ->.
    induction fs as [|[id fl ft] fr IH]; simpl; constructor; [right; reflexivity | assumption].
Qed.
Lemma is_key_ok t : is_key_ty t = true -> ty_ok t = true.
Proof. destruct t; simpl; congruence. Qed.

(* --- sorting: ids come out strictly ascending --- *)
Definition ent := (tfield * (tval * bytes))%type.
Definition eid (e : ent) : Z := fld_id (fst e).
Fixpoint asc (lo : Z) (l : list ent) : Prop :=
  match l with [] => True | e :: r => lo < eid e < 2 ^ 15 /\ asc (eid e) r end.
Lemma asc_mono l : forall a b, b <= a -> asc a l -> asc b l.
Proof. destruct l; simpl; intros; [trivial|]. intuition lia. Qed.
Lemma insert_asc : forall (l : list ent) lo x, asc lo l -> lo < eid x < 2 ^ 15 ->
  (forall y, In y l -> eid y <> eid x) -> asc lo (insert_by_id x l).
Proof.
  induction l as [|y r IH]; intros lo x Ha Hx Hne; simpl.
  - auto.
  - simpl in Ha. destruct Ha as [Hy Hr]. fold (eid y) (eid x).
    assert (eid y <> eid x) by (apply Hne; left; reflexivity).
    destruct (Z.leb_spec (eid y) (eid x)); simpl.
    + split; [assumption|]. apply IH; [assumption | lia | intros; apply Hne; right; assumption].
    + split; [assumption|]. split; [lia | assumption].
Qed.
Lemma insert_in : forall (l : list ent) x y, In y (insert_by_id x l) -> y = x \/ In y l.
Proof.
  induction l as [|z r IH]; simpl; intros x y H.
  - destruct H; auto.
  - destruct (fld_id (fst z) <=? fld_id (fst x)); simpl in H.
    + destruct H as [H|H]; [auto|]. apply IH in H. tauto.
    + destruct H as [H|H]; auto.
Qed.
Lemma sort_asc : forall (l acc : list ent), asc 0 acc -> NoDup (map eid l) ->
  (forall x, In x l -> 0 < eid x < 2 ^ 15) ->
  (forall x y, In x l -> In y acc -> eid y <> eid x) ->
  asc 0 (fold_left (fun acc x => insert_by_id x acc) l acc).
Proof.
  induction l as [|a l IH]; intros acc Ha Hnd Hr Hne; simpl; [assumption|].
  inversion Hnd as [|? ? Hnin Hnd']; subst.
  apply IH.
  - apply insert_asc; [assumption | apply Hr; left; reflexivity | intros; apply Hne; [left; reflexivity | assumption]].
  - assumption.
  - intros; apply Hr; right; assumption.
  - intros x y Hx Hy. apply insert_in in Hy as [->|Hy].
    + intros E. apply Hnin. rewrite E. apply in_map; assumption.
    + apply Hne; [right|]; assumption.
Qed.
Lemma distinct_nodup l : distinctZ l = true -> NoDup l.
Proof.
  induction l as [|x r IH]; simpl; intros H; constructor.
  - intros Hin. destruct (existsb (Z.eqb x) r) eqn:E; [discriminate|].
    assert (existsb (Z.eqb x) r = true) by (apply existsb_exists; exists x; split; [assumption | apply Z.eqb_refl]).
    congruence.
  - apply IH. destruct (distinctZ r); [reflexivity|]. rewrite Bool.andb_false_r in H. discriminate.
Qed.
Lemma mkb_in body : forall fs vs e, In e (mkb body fs vs) -> In (fst e) fs.
Proof.
  induction fs as [|f fr IH]; intros [|x vr] e H; simpl in H; try contradiction.
  destruct H as [<-|H]; [left; reflexivity | right; eapply IH; eassumption].
Qed.
Lemma mkb_nodup body : forall fs vs, NoDup (map fld_id fs) -> NoDup (map eid (mkb body fs vs)).
Proof.
  induction fs as [|f fr IH]; intros [|x vr] H; simpl; try constructor.
  - inversion H as [|? ? Hn _]; subst. intros Hin. apply Hn.
    apply in_map_iff in Hin as [e [He Hin]]. apply mkb_in in Hin. unfold eid in He. simpl in He. rewrite <- He.
    apply in_map; assumption.
  - apply IH. inversion H; assumption.
Qed.
Lemma fok_range : forall fs f, fok fs = true -> In f fs -> 1 <= fld_id f < 2 ^ 15.
Proof.
  induction fs as [|[id fl ft] fr IH]; intros f H Hin; [contradiction|].
  simpl in H. destruct Hin as [<-|Hin].
  - simpl. lia.
  - apply IH; [|assumption]. destruct (fok fr); [reflexivity|]. rewrite Bool.andb_false_r in H. discriminate.
Qed.
Lemma sorted_asc body fs vs : ty_ok (ThStruct fs) = true -> asc 0 (sort_by_id (mkb body fs vs)).
Proof.
  rewrite ok_struct. intros H. apply andb_prop in H as [Hd Hf].
  unfold sort_by_id. apply sort_asc.
  - exact I.
  - apply mkb_nodup. apply distinct_nodup; assumption.
  - intros x Hx. apply mkb_in in Hx. pose proof (fok_range fs (fst x) Hf Hx). unfold eid. lia.
  - intros x y _ [].
Qed.

(* --- the field loop --- *)
Lemma go_eq p : forall l last, 0 <= last -> asc last l -> go_m p l last = go_s p l last.
Proof.
  induction l as [|[f [x body]] r IH]; intros last Hl Ha.
  - destruct p; reflexivity.
  - destruct Ha as [Hid Hr]. unfold eid in Hid, Hr. cbn [fst] in Hid, Hr.
    change (go_m p ((f, (x, body)) :: r) last) with
      (if skipc f x then go_m p r last else
        let ty := type_of (fld_ty f) in
        let delta := s16 (fld_id f - last) in
        let wid := match p with PCompact => if delta <=? 15 then delta else fld_id f | PBinary => fld_id f end in
        let coalesce := match p with PCompact => ty =? c_BOOL | PBinary => false end in
        let wty := if coalesce && deref_bool x then c_TRUE else ty in
        w_field p wid wty ++ (if coalesce then [] else body) ++ go_m p r (fld_id f)).
    change (go_s p ((f, (x, body)) :: r) last) with
      (if skipc f x then go_s p r last else
        match p with
        | PBinary => [code_of pkg_dev p (fld_ty f)] ++ be_bytes 2 (fld_id f) ++ body ++ go_s p r (fld_id f)
        | PCompact =>
            let isbool := spec_code PCompact (fld_ty f) =? 2 in
            let code := if isbool then (if deref_bool x then 1 else 2) else spec_code PCompact (fld_ty f) in
            let delta := fld_id f - last in
            (if (0 <? delta) && (delta <=? 15) then [delta * 16 + code] else [code] ++ uvarint (zz64 (fld_id f)))
            ++ (if isbool then [] else body) ++ go_s p r (fld_id f)
        end).
    destruct (skipc f x).
    + apply IH; [assumption|]. apply asc_mono with (a := fld_id f); [lia | assumption].
    + rewrite <- (IH (fld_id f)) by (assumption || lia). cbv zeta.
      pose proof (type_of_range (fld_ty f)) as Ht.
      destruct p.
      * rewrite code_of_pkg. unfold w_field. cbn [andb]. rewrite w8_small, w16_small by lia. simpl. reflexivity.
      * rewrite spec_code_compact. rewrite s16_small by lia. unfold c_BOOL, c_TRUE.
        set (ty := type_of (fld_ty f)) in *. set (d := fld_id f - last).
        assert (Hw : (if (ty =? 2) && deref_bool x then 1 else ty) = (if ty =? 2 then if deref_bool x then 1 else 2 else ty)).
        { destruct (Z.eqb_spec ty 2); destruct (deref_bool x); simpl; lia. }
        rewrite Hw. set (code := if ty =? 2 then if deref_bool x then 1 else 2 else ty).
        assert (Hc : 1 <= code <= 12) by (unfold code; destruct (ty =? 2); [destruct (deref_bool x)|]; lia).
        f_equal. unfold w_field, c_STOP.
        destruct (Z.eqb_spec code 0); [lia|].
        destruct (Z.leb_spec d 15).
        -- destruct (Z.leb_spec d 15); [|lia]. destruct (Z.ltb_spec 0 d); [|unfold d in *; lia]. simpl.
           rewrite lor_nib by (unfold d in *; lia). reflexivity.
        -- destruct (Z.leb_spec (fld_id f) 15); [unfold d in *; lia|].
           rewrite Bool.andb_false_r. rewrite w8_small by lia. reflexivity.
Qed.

Lemma mk_eq p : forall fs vs,
  Forall (fun f => forall p v, ty_ok (fld_ty f) = true -> Pv (fld_ty f) v -> enc p (fld_ty f) v = spec_enc pkg_dev p (fld_ty f) v) fs ->
  fok fs = true -> Forall2 (fun f x => Pv (fld_ty f) x) fs vs ->
  mkb (body_m p) fs vs = mkb (body_s p) fs vs.
Proof.
  intros fs vs HI Hf H2. induction H2 as [|f x fr vr Hx _ IH]; [reflexivity|].
  inversion HI as [|? ? Hfi HI']; subst.
  destruct f as [id fl ft]. simpl in Hf, Hx, Hfi.
  simpl. f_equal.
  - f_equal. f_equal.
    assert (Hok : ty_ok ft = true) by (destruct (ty_ok ft); [reflexivity | rewrite !Bool.andb_false_r in Hf; discriminate]).
    destruct (has_flag fl f_enum) eqn:E.
    + assert (Hi : (match ft with ThI32 => true | _ => false end) = true).
      { destruct ft; try reflexivity; simpl in Hf; rewrite !Bool.andb_false_r in Hf; discriminate. }
      destruct ft; try discriminate. destruct x; try reflexivity.
      assert (s32 z = z) as ->.
      { destruct Hx as [Hx|Hx]; [simpl in Hx; apply s32_small; lia | injection Hx as ->; reflexivity]. }
      destruct p; reflexivity.
    + apply Hfi; assumption.
  - apply IH; [assumption|]. destruct (fok fr); [reflexivity | rewrite Bool.andb_false_r in Hf; discriminate].
Qed.

Lemma conforms_gen : forall t p v, ty_ok t = true -> Pv t v -> enc p t v = spec_enc pkg_dev p t v.
Proof.
  induction t using tty_ind2; intros p v Hok Hv.
  - destruct t; try contradiction; destruct v; try reflexivity; destruct p; reflexivity.
  - (* list *) destruct v; try reflexivity. apply Pv_list in Hv as [Hn Hall].
    rewrite enc_list, senc_list, hdr_list by assumption. f_equal. apply goL_ext.
    eapply Forall_impl; [|exact Hall]. intros x Hx. apply IHt; assumption.
  - (* set *) destruct v; try reflexivity. apply Pv_set in Hv as [Hn Hall].
    rewrite enc_set, senc_set, hdr_list by assumption. f_equal. apply goL_ext.
    eapply Forall_impl; [|exact Hall]. intros x Hx. apply IHt; [apply is_key_ok|]; assumption.
  - (* map *) destruct v; try reflexivity. apply Pv_map in Hv as [Hn Hall].
    simpl in Hok. apply andb_prop in Hok as [Hok _]. apply andb_prop in Hok as [Hk Hvt]. apply is_key_ok in Hk.
    rewrite enc_map, senc_map, hdr_map by assumption. f_equal. apply goM_ext.
    eapply Forall_impl; [|exact Hall]. intros [k x] [H1 H2]. split; [apply IHt1 | apply IHt2]; assumption.
  - (* ptr *) destruct v; try reflexivity. rewrite enc_ptr, senc_ptr.
    simpl in Hok. apply andb_prop in Hok as [Hok _].
    destruct o as [x|].
    + apply IHt; [assumption|]. destruct Hv as [Hv|Hv]; [left; exact Hv | discriminate].
    + apply IHt; [assumption | right; reflexivity].
  - (* struct *) destruct v; try reflexivity.
    rewrite enc_struct, senc_struct.
    pose proof Hok as Hok'. rewrite ok_struct in Hok'. apply andb_prop in Hok' as [_ Hf].
    rewrite (mk_eq p fs vs H Hf (Pv_struct _ _ Hv)).
    apply go_eq; [lia | apply sorted_asc; assumption].
Qed.

Lemma t_conforms_partial : t_conforms_partial_statement.
Proof. intros p t v Hok Hwf. unfold TMarshal. apply conforms_gen; [assumption | left; assumption]. Qed.

Lemma t_decode_total : t_decode_total_statement.
Admitted.
