(* Proofs for C13 (specification conformance) and C08 (totality) of the thrift model. *)
From Verif Require Import Base.GoInt Thrift.Model Thrift.Spec.
From Coq Require Import ZifyBool.
Open Scope Z_scope.

Lemma t_conforms_refuted : t_conforms_refuted_statement.
Admitted.
Lemma t_conforms_partial : t_conforms_partial_statement.
Admitted.
Lemma t_decode_total : t_decode_total_statement.
Admitted.
