(* Further statements about the thrift model (Thrift/Model.v) for C08 (and the decode side of C13); they take up the
   list of open points at the end of Thrift/SpecC.v:
   - section 1: the SET and MAP variants of t_mismatch_list_statement (item / key / value type mismatch), with the
     empty-collection special cases, on the level of one collection value and on the level of the enclosing struct
     (the other fields are unaffected; strict and non-strict mode; truncation);
   - the general conformant encoding genc (either protocol, any choice of long / short header forms);
   - section 2: unknown fields at ANY nesting depth: an explicit relation widens between a wide and a narrow
     (type, value) pair through struct fields, list items, map values and pointers;
   - section 3: truncation (every proper prefix) and trailing bytes of alternative and of widened encodings;
   - section 4: sizes read from the wire (negative, oversized), bool lists typed TRUE.
   Definitions only; the proofs are in Thrift/ProofsD.v (ProofsD0 .. ProofsD5), examples in Thrift/ProofsD6.v,
   the theorems are listed in Properties/C08Extra.v. *)
From Verif Require Import Base.GoInt Thrift.Model Thrift.Spec Thrift.SpecC.
Open Scope Z_scope.

(* ====================================================================== *)
(* ---------- section 1: collections whose wire item / key / value type differs from the declared one ---------- *)
Definition coll_nonempty (v : tval) : bool :=
  match v with TvList _ (_ :: _) | TvSet _ (_ :: _) | TvMap _ (_ :: _) => true | _ => false end.

(* the wire format of a set is the wire format of a list: the same header, the same items *)
Definition t_set_wire_is_list_statement : Prop :=
  forall p kt nn ks, TMarshal p (ThSet kt) (TvSet nn ks) = TMarshal p (ThList kt) (TvList nn ks).

(* A declared set whose wire items have another type, the items being of ANY supported type et' (the bytes are
   Marshal's for a list -- equally a set, see above -- of et'), at least one item: strict mode reports TypeMismatch;
   otherwise all items are consumed by skip_items, the result is the empty non-nil set (NOT the previous value: the
   decoder has already replaced it) and decoding continues with what follows.  Both protocols, any previous value. *)
Definition t_mismatch_set_items_statement : Prop :=
  forall p kt et' v old flags fuel rest,
    ty_ok (ThList et') = true -> tval_wf (ThList et') v = true -> type_of et' <> type_of kt ->
    coll_nonempty v = true ->
    (length (TMarshal p (ThList et') v) + tdepth (ThList et') <= fuel)%nat ->
    dec fuel p (ThSet kt) flags old (TMarshal p (ThList et') v ++ rest) =
      if has_flag flags f_strict then TErr EMismatch else TOk (TvSet true [], rest).
(* the instance asked for: the bytes are Marshal's for a set of another key type *)
Definition t_mismatch_set_statement : Prop :=
  forall p kt kt' v old flags fuel rest,
    ty_ok (ThSet kt') = true -> tval_wf (ThSet kt') v = true -> type_of kt' <> type_of kt ->
    coll_nonempty v = true ->
    (length (TMarshal p (ThSet kt') v) + tdepth (ThSet kt') <= fuel)%nat ->
    dec fuel p (ThSet kt) flags old (TMarshal p (ThSet kt') v ++ rest) =
      if has_flag flags f_strict then TErr EMismatch else TOk (TvSet true [], rest).
(* the empty set is accepted BEFORE the item type is looked at: no TypeMismatch even in strict mode, whatever the
   item type on the wire (equal or not, supported or not) *)
Definition t_mismatch_set_empty_statement : Prop :=
  forall p kt kt' nn old flags fuel rest, (1 <= fuel)%nat ->
    dec fuel p (ThSet kt) flags old (TMarshal p (ThSet kt') (TvSet nn []) ++ rest) = TOk (TvSet true [], rest).
(* in contrast the list decoder checks the item type first: an empty list of another item type is a TypeMismatch in
   strict mode and keeps the previous value otherwise (an instance of t_mismatch_list_statement, stated explicitly) *)
Definition t_mismatch_list_empty_statement : Prop :=
  forall p et et' nn old flags fuel rest, type_of et' <> type_of et -> (1 <= fuel)%nat ->
    dec fuel p (ThList et) flags old (TMarshal p (ThList et') (TvList nn []) ++ rest) =
      if has_flag flags f_strict then TErr EMismatch else TOk (old, rest).

(* A declared map whose wire key type or wire value type (or both) differs, at least one entry: strict mode reports
   TypeMismatch; otherwise all entries are consumed by skip_entries, the result is the empty non-nil map, and decoding
   continues with what follows.  Both protocols. *)
Definition t_mismatch_map_statement : Prop :=
  forall p kt vt kt' vt' v old flags fuel rest,
    ty_ok (ThMap kt' vt') = true -> tval_wf (ThMap kt' vt') v = true ->
    (type_of kt' <> type_of kt \/ type_of vt' <> type_of vt) ->
    coll_nonempty v = true ->
    (length (TMarshal p (ThMap kt' vt') v) + tdepth (ThMap kt' vt') <= fuel)%nat ->
    dec fuel p (ThMap kt vt) flags old (TMarshal p (ThMap kt' vt') v ++ rest) =
      if has_flag flags f_strict then TErr EMismatch else TOk (TvMap true [], rest).
(* the empty map is accepted before the types are looked at (the compact protocol does not even transmit them) *)
Definition t_mismatch_map_empty_statement : Prop :=
  forall p kt vt kt' vt' nn old flags fuel rest, (1 <= fuel)%nat ->
    dec fuel p (ThMap kt vt) flags old (TMarshal p (ThMap kt' vt') (TvMap nn []) ++ rest) = TOk (TvMap true [], rest).

(* ====================================================================== *)
(* ---------- the general conformant encoding: either protocol, any choice of header forms ---------- *)
(* binary: the bytes Marshal writes (the binary protocol has one form for everything); compact: spec_enc_alt of SpecC.v,
   the long or short form of every field header and list / set header chosen by the oracle ch *)
Definition genc (ch : choice) (p : proto) (t : tty) (v : tval) : bytes :=
  match p with PBinary => TMarshal PBinary t v | PCompact => spec_enc_alt ch t v end.

(* ====================================================================== *)
(* ---------- section 2: unknown fields at any nesting depth ---------- *)
(* widens wt wv t v: the wide pair (wt, wv) is the narrow pair (t, v) with further fields in any struct reached
   through struct fields, list items, map values and pointers.  A wide struct declares, for every field of the narrow
   struct (same id, same flags, a type and value that are themselves widenings), plus any further fields gs with
   values ws -- their ids, types (any supported type and nesting) and flags are restricted only by ty_ok of the wide
   type, i.e. the ids are not declared by the narrow struct.  (Marshal sorts fields by id, so listing the extra
   fields after the common ones loses no generality for the bytes: the extra fields land at every field boundary.)
   Sets have scalar items and map keys are scalars, so they are widened by W_refl only. *)
Inductive widens : tty -> tval -> tty -> tval -> Prop :=
| W_refl t v : widens t v t v
| W_ptr wt wv t v : widens wt wv t v -> widens (ThPtr wt) (TvPtr (Some wv)) (ThPtr t) (TvPtr (Some v))
| W_list wt t nn wes es :
    type_of wt = type_of t ->      (* the item type code of the list header; implied by the items when there is one *)
    Forall2 (fun wx x => widens wt wx t x) wes es -> widens (ThList wt) (TvList nn wes) (ThList t) (TvList nn es)
| W_map kt wvt vt nn wes es :
    Forall2 (fun wkx kx => fst wkx = fst kx /\ widens wvt (snd wkx) vt (snd kx)) wes es ->
    widens (ThMap kt wvt) (TvMap nn wes) (ThMap kt vt) (TvMap nn es)
| W_struct wfs wvs gs ws fs vs :
    length wvs = length wfs -> length vs = length fs ->
    Forall2 (fun wfx fx => fld_id (fst wfx) = fld_id (fst fx) /\ fld_flags (fst wfx) = fld_flags (fst fx) /\
                           widens (fld_ty (fst wfx)) (snd wfx) (fld_ty (fst fx)) (snd fx))
            (combine wfs wvs) (combine fs vs) ->
    widens (ThStruct (wfs ++ gs)) (TvStruct (wvs ++ ws)) (ThStruct fs) (TvStruct vs).

(* both pairs in the universe *)
Definition widens_ok (wt : tty) (wv : tval) (t : tty) (v : tval) : Prop :=
  widens wt wv t v /\ ty_ok wt = true /\ tval_wf wt wv = true /\ ty_ok t = true /\ tval_wf t v = true.

(* Unmarshal of Marshal's bytes for the wide pair into the narrow type succeeds, and gives -- up to tnorm -- what
   Unmarshal of the narrow encoding gives, which is the narrow value.  Both protocols.  (Equality holds up to tnorm only:
   a field that is zero in the narrow value is not on the narrow wire but may be on the wide wire, for instance a non-nil
   empty list of widened structs.) *)
Definition t_unknown_nested_statement : Prop :=
  forall p wt wv t v fuel, widens_ok wt wv t v -> v <> TvPtr None ->
    (length (TMarshal p wt wv) + length (TMarshal p t v) + tdepth wt + tdepth t <= fuel)%nat ->
    exists r r', TUnmarshal fuel p t (TMarshal p wt wv) = TOk r /\
                 TUnmarshal fuel p t (TMarshal p t v) = TOk r' /\
                 tnorm t r = tnorm t r' /\ tnorm t r' = tnorm t v.

(* the same for EVERY conformant encoding of the wide pair (any choice of header forms, see t_alt_accept_statement):
   the common generalisation of t_alt_accept_statement (W_refl) and t_unknown_fields_statement (one W_struct) *)
Definition t_widen_accept_statement : Prop :=
  forall p ch wt wv t v fuel, widens_ok wt wv t v -> v <> TvPtr None ->
    (length (genc ch p wt wv) + tdepth wt <= fuel)%nat ->
    exists r, TUnmarshal fuel p t (genc ch p wt wv) = TOk r /\ tnorm t r = tnorm t v.

(* ====================================================================== *)
(* ---------- section 3: truncation of alternative and of widened encodings ---------- *)
(* every proper prefix of EVERY conformant encoding (any header forms) of a wide pair, decoded into the narrow type:
   io.EOF for the empty prefix, an unexpected-EOF class error otherwise.  Any supported top-level type. *)
Definition t_widen_alt_prefix_eof_statement : Prop :=
  forall p ch wt wv t v k fuel, widens_ok wt wv t v -> v <> TvPtr None ->
    (k < length (genc ch p wt wv))%nat -> (length (genc ch p wt wv) + tdepth wt <= fuel)%nat ->
    TUnmarshal fuel p t (firstn k (genc ch p wt wv)) = TErr (if (k =? 0)%nat then EEOF else EUnexpectedEOF).
(* the two instances asked for: alternative encodings of the value itself (compact protocol) ... *)
Definition t_alt_prefix_eof_statement : Prop :=
  forall ch t v k fuel, ty_ok t = true -> tval_wf t v = true -> v <> TvPtr None ->
    (k < length (spec_enc_alt ch t v))%nat -> (length (spec_enc_alt ch t v) + tdepth t <= fuel)%nat ->
    TUnmarshal fuel PCompact t (firstn k (spec_enc_alt ch t v)) = TErr (if (k =? 0)%nat then EEOF else EUnexpectedEOF).
(* ... and the bytes Marshal writes for a wide pair (both protocols) *)
Definition t_widen_prefix_eof_statement : Prop :=
  forall p wt wv t v k fuel, widens_ok wt wv t v -> v <> TvPtr None ->
    (k < length (TMarshal p wt wv))%nat -> (length (TMarshal p wt wv) + tdepth wt <= fuel)%nat ->
    TUnmarshal fuel p t (firstn k (TMarshal p wt wv)) = TErr (if (k =? 0)%nat then EEOF else EUnexpectedEOF).
(* trailing bytes after any conformant encoding of a wide pair are reported *)
Definition t_widen_alt_trailing_statement : Prop :=
  forall p ch wt wv t v x rest fuel, widens_ok wt wv t v -> v <> TvPtr None ->
    (length (genc ch p wt wv) + tdepth wt <= fuel)%nat ->
    TUnmarshal fuel p t (genc ch p wt wv ++ x :: rest) = TErr EOther.

(* the same through Decoder.Decode in either mode (unknown fields are skipped in strict mode too): acceptance and
   truncation in one statement *)
Definition t_widen_decode_statement : Prop :=
  forall strict p ch wt wv t v fuel, widens_ok wt wv t v -> v <> TvPtr None ->
    (length (genc ch p wt wv) + tdepth wt <= fuel)%nat ->
    (exists r, TDecode fuel strict p t (genc ch p wt wv) = TOk r /\ tnorm t r = tnorm t v) /\
    (forall k, (k < length (genc ch p wt wv))%nat ->
       TDecode fuel strict p t (firstn k (genc ch p wt wv)) = TErr (if (k =? 0)%nat then EEOF else EUnexpectedEOF)).

(* ====================================================================== *)
(* ---------- section 1, continued: the collection is a field of a struct ---------- *)
(* the declared type ft and the wire type ft' are collections of the same kind (so the field header carries the declared
   type code) whose item / key / value type codes differ *)
Definition coll_conflict (ft ft' : tty) : bool :=
  match ft, ft' with
  | ThList et, ThList et' => negb (type_of et =? type_of et')
  | ThSet kt, ThSet kt' => negb (type_of kt =? type_of kt')
  | ThMap kt vt, ThMap kt' vt' => negb (type_of kt =? type_of kt') || negb (type_of vt =? type_of vt')
  | _, _ => false
  end.
(* The bytes are Marshal's for a CONFLICTING schema (as in t_mismatch_skipped_statement): the target's fields, except that
   one declared collection field (any position) is declared with other item types.  Non-strict mode: the whole collection
   is consumed, the declared field is left empty (its zero value up to tnorm), EVERY OTHER FIELD IS DECODED AS USUAL, and
   the field counts as seen (no MissingField when it is required).  Either protocol. *)
Definition t_mismatch_coll_field_skipped_statement : Prop :=
  forall p fs1 id fl fl' ft ft' fs2 vs1 x vs2 fuel,
    ty_ok (ThStruct (fs1 ++ TField id fl ft :: fs2)) = true -> ty_ok (ThStruct (fs1 ++ TField id fl' ft' :: fs2)) = true ->
    coll_conflict ft ft' = true -> length vs1 = length fs1 ->
    tval_wf (ThStruct (fs1 ++ TField id fl' ft' :: fs2)) (TvStruct (vs1 ++ x :: vs2)) = true ->
    (has_flag fl f_required = true -> field_omitted (TField id fl' ft') x = false) ->
    (length (TMarshal p (ThStruct (fs1 ++ TField id fl' ft' :: fs2)) (TvStruct (vs1 ++ x :: vs2)))
     + tdepth (ThStruct (fs1 ++ TField id fl' ft' :: fs2)) <= fuel)%nat ->
    exists r, TDecode fuel false p (ThStruct (fs1 ++ TField id fl ft :: fs2))
                (TMarshal p (ThStruct (fs1 ++ TField id fl' ft' :: fs2)) (TvStruct (vs1 ++ x :: vs2))) = TOk r /\
              tnorm (ThStruct (fs1 ++ TField id fl ft :: fs2)) r =
              tnorm (ThStruct (fs1 ++ TField id fl ft :: fs2)) (TvStruct (vs1 ++ zero_of ft :: vs2)).
(* ... and every proper prefix of these bytes is an EOF-class error in non-strict mode *)
Definition t_mismatch_coll_field_prefix_statement : Prop :=
  forall p fs1 id fl fl' ft ft' fs2 vs1 x vs2 k fuel,
    ty_ok (ThStruct (fs1 ++ TField id fl ft :: fs2)) = true -> ty_ok (ThStruct (fs1 ++ TField id fl' ft' :: fs2)) = true ->
    coll_conflict ft ft' = true -> length vs1 = length fs1 ->
    tval_wf (ThStruct (fs1 ++ TField id fl' ft' :: fs2)) (TvStruct (vs1 ++ x :: vs2)) = true ->
    (has_flag fl f_required = true -> field_omitted (TField id fl' ft') x = false) ->
    (k < length (TMarshal p (ThStruct (fs1 ++ TField id fl' ft' :: fs2)) (TvStruct (vs1 ++ x :: vs2))))%nat ->
    (length (TMarshal p (ThStruct (fs1 ++ TField id fl' ft' :: fs2)) (TvStruct (vs1 ++ x :: vs2)))
     + tdepth (ThStruct (fs1 ++ TField id fl' ft' :: fs2)) <= fuel)%nat ->
    TDecode fuel false p (ThStruct (fs1 ++ TField id fl ft :: fs2))
      (firstn k (TMarshal p (ThStruct (fs1 ++ TField id fl' ft' :: fs2)) (TvStruct (vs1 ++ x :: vs2)))) =
    TErr (if (k =? 0)%nat then EEOF else EUnexpectedEOF).
(* Strict mode: TypeMismatch whenever the field is on the wire -- for a set or a map only when it has at least one
   entry (the empty set / map is accepted before the types are looked at, see above) *)
Definition t_mismatch_coll_field_strict_statement : Prop :=
  forall p fs1 id fl fl' ft ft' fs2 vs1 x vs2 fuel,
    ty_ok (ThStruct (fs1 ++ TField id fl ft :: fs2)) = true -> ty_ok (ThStruct (fs1 ++ TField id fl' ft' :: fs2)) = true ->
    coll_conflict ft ft' = true -> length vs1 = length fs1 ->
    tval_wf (ThStruct (fs1 ++ TField id fl' ft' :: fs2)) (TvStruct (vs1 ++ x :: vs2)) = true ->
    field_omitted (TField id fl' ft') x = false ->
    (match ft with ThList _ => true | _ => coll_nonempty x end) = true ->
    (length (TMarshal p (ThStruct (fs1 ++ TField id fl' ft' :: fs2)) (TvStruct (vs1 ++ x :: vs2)))
     + tdepth (ThStruct (fs1 ++ TField id fl' ft' :: fs2)) <= fuel)%nat ->
    TDecode fuel true p (ThStruct (fs1 ++ TField id fl ft :: fs2))
      (TMarshal p (ThStruct (fs1 ++ TField id fl' ft' :: fs2)) (TvStruct (vs1 ++ x :: vs2))) = TErr EMismatch.

(* ====================================================================== *)
(* ---------- section 4: sizes read from the wire ---------- *)
(* C08: negative or oversized lengths and element counts are rejected.
   Negative sizes exist in the binary protocol only (a 32-bit size with the sign bit set); the compact protocol reads
   sizes as unsigned varints and refuses anything above 2^31 - 1.
   (History: up to /repo commit 4734263 the binary readers returned negative sizes and only the typed collection decoders
   refused them; skip, skipItems and skipEntries treated a negative size as zero items, so an unknown list field of size -1
   was accepted.  Found by this development, repaired in binary.go ReadList / ReadMap; the model follows the repaired code.) *)
(* every size a header reader returns is non-negative, whatever the (well-formed) bytes: all decoding and all skipping
   paths obtain their element counts from these two readers only, so NO accepted input has a negative announced count *)
Definition t_header_size_nonneg_statement : Prop :=
  (forall p b n lt r, wfb b = true -> r_list p b = TOk ((n, lt), r) -> 0 <= n) /\
  (forall p b n k v r, wfb b = true -> r_map p b = TOk ((n, k, v), r) -> 0 <= n).
(* a complete binary list / set / map header whose size has the sign bit set is refused by the reader *)
Definition t_negative_header_statement : Prop :=
  forall ty k v n rest, 2 ^ 31 <= n < 2 ^ 32 ->
    r_list PBinary ([ty] ++ be_bytes 4 n ++ rest) = TErr EOther /\
    r_map PBinary ([k; v] ++ be_bytes 4 n ++ rest) = TErr EOther.
(* hence by the typed decoders, whatever the type bytes of the header and in either mode ... *)
Definition t_negative_list_statement : Prop :=
  forall et flags old fuel ty n rest, (1 <= fuel)%nat -> 2 ^ 31 <= n < 2 ^ 32 ->
    dec fuel PBinary (ThList et) flags old ([ty] ++ be_bytes 4 n ++ rest) = TErr EOther.
Definition t_negative_set_statement : Prop :=
  forall kt flags old fuel ty n rest, (1 <= fuel)%nat -> 2 ^ 31 <= n < 2 ^ 32 ->
    dec fuel PBinary (ThSet kt) flags old ([ty] ++ be_bytes 4 n ++ rest) = TErr EOther.
Definition t_negative_map_statement : Prop :=
  forall kt vt flags old fuel k v n rest, (1 <= fuel)%nat -> 2 ^ 31 <= n < 2 ^ 32 ->
    dec fuel PBinary (ThMap kt vt) flags old ([k; v] ++ be_bytes 4 n ++ rest) = TErr EOther.
(* ... and when the collection is SKIPPED (an unknown field, an item of a skipped collection) *)
Definition t_negative_skip_rejected_statement : Prop :=
  forall fuel n rest, (1 <= fuel)%nat -> 2 ^ 31 <= n < 2 ^ 32 ->
    (forall cty ety, cty = c_LIST \/ cty = c_SET -> skip fuel PBinary cty ([ety] ++ be_bytes 4 n ++ rest) = TErr EOther) /\
    (forall k v, skip fuel PBinary c_MAP ([k; v] ++ be_bytes 4 n ++ rest) = TErr EOther).
(* strings and binaries: a length above 2^31 - 1 is refused, both protocols *)
Definition t_negative_length_statement : Prop :=
  forall p t flags old fuel n rest, (1 <= fuel)%nat -> (t = ThStr \/ t = ThBytes) -> 2 ^ 31 <= n < 2 ^ 32 ->
    dec fuel p t flags old ((match p with PBinary => be_bytes 4 n | PCompact => uvarint n end) ++ rest) = TErr EOther.
(* the compact protocol refuses a list / set size above 2^31 - 1 in the header already *)
Definition t_compact_huge_list_statement : Prop :=
  forall t flags old fuel ty u rest, (1 <= fuel)%nat -> (exists et, t = ThList et \/ t = ThSet et) -> 0 <= ty < 16 -> 2 ^ 31 <= u < 2 ^ 64 ->
    dec fuel PCompact t flags old ([240 + ty] ++ uvarint u ++ rest) = TErr EOther.

(* Oversized counts: every item of a list or set and every key and value of a map takes at least one byte, so a count
   larger than the number of bytes that follow the header cannot be honoured: the decoder fails (it does not return a
   value), whatever the bytes are.  Both protocols, strict or not, item type matching or not. *)
Definition t_oversized_list_statement : Prop :=
  forall p et flags old b fuel n lt r, r_list p b = TOk ((n, lt), r) -> Z.of_nat (length r) < n ->
    (length b + tdepth (ThList et) + 1 <= fuel)%nat -> exists e, dec fuel p (ThList et) flags old b = TErr e.
Definition t_oversized_set_statement : Prop :=
  forall p kt flags old b fuel n lt r, r_list p b = TOk ((n, lt), r) -> Z.of_nat (length r) < n ->
    (length b + tdepth (ThSet kt) + 1 <= fuel)%nat -> exists e, dec fuel p (ThSet kt) flags old b = TErr e.
Definition t_oversized_map_statement : Prop :=
  forall p kt vt flags old b fuel n mk mv r, r_map p b = TOk ((n, mk, mv), r) -> Z.of_nat (length r) < n ->
    (length b + tdepth (ThMap kt vt) + 1 <= fuel)%nat -> exists e, dec fuel p (ThMap kt vt) flags old b = TErr e.

(* C13: the list header of a list of bools may carry the item type TRUE (1) instead of BOOL (2) -- some writers do so;
   the decoder treats the two alike *)
Definition t_bool_list_true_statement : Prop :=
  forall p t flags old fuel n rest, (exists c, t = c ThBool /\ (c = ThList \/ c = ThSet)) -> 0 <= n < 2 ^ 31 ->
    dec fuel p t flags old (w_list p n c_TRUE ++ rest) = dec fuel p t flags old (w_list p n c_BOOL ++ rest).

(* ====================================================================== *)
(* Not proved (no theorem claims these):
   - widenings that change more than the set of fields: a field that is a pointer on one side only (same wire bytes),
     different required / optional flags on the two sides, a narrow struct that declares fields the wide one lacks
     (covered at top level only, by t_absent_optional_statement / t_missing_field_statement of SpecC.v);
   - a missing required field, or a collection of another item type, INSIDE a nested struct reached through lists, maps
     or pointers (the top-level forms are t_missing_field_statement and t_mismatch_coll_field_*_statement);
   - the error class of a TRUNCATED input in strict mode when the input contains a type conflict (non-strict mode:
     t_mismatch_coll_field_prefix_statement);
   - decoding into a destination that is not the zero value (the parameter old of dec): all theorems start from zero_of;
   - Decoder / Encoder Reset: the model is a pure function of the bytes, it has no reader or writer state to reset. *)
