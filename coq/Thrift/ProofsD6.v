(* Examples: the hypotheses of the statements of Thrift/SpecD.v are satisfiable on non-trivial concrete inputs, and the
   conclusions are what the model computes there. *)
From Verif Require Import Base.GoInt Thrift.Model Thrift.Spec Thrift.SpecC Thrift.SpecD.
Open Scope Z_scope.

(* ---------- a widening through struct fields, list items, map values and a pointer, with extra top-level fields ---------- *)
Definition ex_nin := ThStruct [TField 2 0 ThStr].
Definition ex_nmv := ThStruct [TField 1 0 ThBool].
Definition ex_npo := ThStruct [TField 4 0 ThI64].
Definition ex_nt := ThStruct [TField 1 0 ThI32; TField 3 0 (ThList ex_nin); TField 5 0 (ThMap ThI16 ex_nmv); TField 7 0 (ThPtr ex_npo); TField 300 4 ThI8].
Definition ex_win := ThStruct ([TField 2 0 ThStr] ++ [TField 1 0 ThF64; TField 9 0 (ThList ThBool)]).
Definition ex_wmv := ThStruct ([TField 1 0 ThBool] ++ [TField 2 0 ThBool; TField 70 0 ThStr]).
Definition ex_wpo := ThStruct ([TField 4 0 ThI64] ++ [TField 3 0 (ThSet ThI32)]).
Definition ex_wt := ThStruct ([TField 1 0 ThI32; TField 3 0 (ThList ex_win); TField 5 0 (ThMap ThI16 ex_wmv); TField 7 0 (ThPtr ex_wpo); TField 300 4 ThI8]
                              ++ [TField 2 0 ThStr; TField 100 0 ex_wpo]).
Definition ex_nv := TvStruct [TvInt 77; TvList true [TvStruct [TvBytes true [104;105]]; TvStruct [TvBytes true []]];
                              TvMap true [(TvInt 4, TvStruct [TvBool true]); (TvInt (-3), TvStruct [TvBool false])];
                              TvPtr (Some (TvStruct [TvInt 0])); TvInt (-5)].
Definition ex_wv := TvStruct ([TvInt 77;
                               TvList true [TvStruct ([TvBytes true [104;105]] ++ [TvInt 4611686018427387904; TvList true [TvBool true; TvBool false]]);
                                            TvStruct ([TvBytes true []] ++ [TvInt 0; TvList true (repeat (TvBool true) 20)])];
                               TvMap true [(TvInt 4, TvStruct ([TvBool true] ++ [TvBool true; TvBytes true [1]]));
                                           (TvInt (-3), TvStruct ([TvBool false] ++ [TvBool true; TvBytes true []]))];
                               TvPtr (Some (TvStruct ([TvInt 0] ++ [TvSet true [TvInt 1; TvInt 2]]))); TvInt (-5)]
                              ++ [TvBytes true [120]; TvStruct [TvInt 9; TvSet false []]]).

Example ex_widens : widens_ok ex_wt ex_wv ex_nt ex_nv.
Proof.
  split; [|repeat split; vm_compute; reflexivity].
  unfold ex_wt, ex_wv, ex_nt, ex_nv. apply W_struct; [reflexivity | reflexivity |]. cbn [combine].
  constructor; [repeat split; apply W_refl|].
  constructor.
  { repeat split. cbn [fst snd fld_ty]. apply W_list; [reflexivity|].
    constructor; [unfold ex_win, ex_nin; apply W_struct; [reflexivity | reflexivity |]; cbn [combine]; constructor; [repeat split; apply W_refl | constructor]|].
    constructor; [unfold ex_win, ex_nin; apply W_struct; [reflexivity | reflexivity |]; cbn [combine]; constructor; [repeat split; apply W_refl | constructor]|].
    constructor. }
  constructor.
  { repeat split. cbn [fst snd fld_ty]. apply W_map.
    constructor; [split; [reflexivity|]; unfold ex_wmv, ex_nmv; cbn [snd]; apply W_struct; [reflexivity | reflexivity |]; cbn [combine]; constructor; [repeat split; apply W_refl | constructor]|].
    constructor; [split; [reflexivity|]; unfold ex_wmv, ex_nmv; cbn [snd]; apply W_struct; [reflexivity | reflexivity |]; cbn [combine]; constructor; [repeat split; apply W_refl | constructor]|].
    constructor. }
  constructor.
  { repeat split. cbn [fst snd fld_ty]. apply W_ptr. unfold ex_wpo, ex_npo. apply W_struct; [reflexivity | reflexivity |]. cbn [combine].
    constructor; [repeat split; apply W_refl | constructor]. }
  constructor; [repeat split; apply W_refl | constructor].
Qed.

(* what the model computes there: the wide bytes decode to the narrow value, for both protocols and for long header forms *)
Example ex_widens_compact : TUnmarshal 200 PCompact ex_nt (TMarshal PCompact ex_wt ex_wv) = TOk ex_nv.
Proof. vm_compute. reflexivity. Qed.
Example ex_widens_binary : TUnmarshal 300 PBinary ex_nt (TMarshal PBinary ex_wt ex_wv) = TOk ex_nv.
Proof. vm_compute. reflexivity. Qed.
Example ex_widens_long : TUnmarshal 300 PCompact ex_nt (genc (fun _ => true) PCompact ex_wt ex_wv) = TOk ex_nv.
Proof. vm_compute. reflexivity. Qed.
Example ex_widens_long_differs : genc (fun _ => true) PCompact ex_wt ex_wv <> TMarshal PCompact ex_wt ex_wv.
Proof. vm_compute. discriminate. Qed.
(* every proper prefix of the long-form wide bytes is an EOF-class error *)
Example ex_widens_prefixes :
  forallb (fun k => match TUnmarshal 300 PCompact ex_nt (firstn k (genc (fun _ => true) PCompact ex_wt ex_wv)) with
                    | TErr e => match e, k with EEOF, O => true | EUnexpectedEOF, S _ => true | _, _ => false end
                    | _ => false end) (seq 0 (length (genc (fun _ => true) PCompact ex_wt ex_wv))) = true.
Proof. vm_compute. reflexivity. Qed.

(* ---------- a collection field of another item type ---------- *)
Definition ex_T (ft : tty) (fl : Z) := ThStruct ([TField 1 0 ThI32] ++ TField 20 fl ft :: [TField 3 0 ThStr]).
Definition ex_xs (x : tval) := TvStruct ([TvInt 7] ++ x :: [TvBytes true [65;66]]).
Example ex_coll_hyps :
  ty_ok (ex_T (ThSet ThStr) 4) = true /\ ty_ok (ex_T (ThSet ThI32) 0) = true /\ coll_conflict (ThSet ThStr) (ThSet ThI32) = true /\
  tval_wf (ex_T (ThSet ThI32) 0) (ex_xs (TvSet true [TvInt 1; TvInt 300])) = true /\
  field_omitted (TField 20 0 (ThSet ThI32)) (TvSet true [TvInt 1; TvInt 300]) = false.
Proof. repeat split; vm_compute; reflexivity. Qed.
Example ex_coll_skipped_c : TDecode 100 false PCompact (ex_T (ThSet ThStr) 4) (TMarshal PCompact (ex_T (ThSet ThI32) 0) (ex_xs (TvSet true [TvInt 1; TvInt 300])))
  = TOk (TvStruct [TvInt 7; TvSet true []; TvBytes true [65;66]]).
Proof. vm_compute. reflexivity. Qed.
Example ex_coll_skipped_b : TDecode 100 false PBinary (ex_T (ThMap ThI32 ThStr) 0)
    (TMarshal PBinary (ex_T (ThMap ThI32 (ThStruct [TField 1 0 ThBool])) 0) (ex_xs (TvMap true [(TvInt 5, TvStruct [TvBool true])])))
  = TOk (TvStruct [TvInt 7; TvMap true []; TvBytes true [65;66]]).
Proof. vm_compute. reflexivity. Qed.
Example ex_coll_strict : TDecode 100 true PBinary (ex_T (ThSet ThStr) 4) (TMarshal PBinary (ex_T (ThSet ThI32) 0) (ex_xs (TvSet true [TvInt 1; TvInt 300])))
  = TErr EMismatch.
Proof. vm_compute. reflexivity. Qed.
Example ex_coll_strict_empty_set : TDecode 100 true PBinary (ex_T (ThSet ThStr) 4) (TMarshal PBinary (ex_T (ThSet ThI32) 0) (ex_xs (TvSet true [])))
  = TOk (TvStruct [TvInt 7; TvSet true []; TvBytes true [65;66]]).
Proof. vm_compute. reflexivity. Qed.

(* ---------- required fields whose ids are more than 64 apart: several words of the seen / required bitmaps ---------- *)
Definition ex_far := ThStruct [TField 1 4 ThI32; TField 70 4 ThStr; TField 200 4 ThBool; TField 329 0 ThI8].
Definition ex_far_v := TvStruct [TvInt 0; TvBytes true []; TvBool false; TvInt 1].
Example ex_far_ok : ty_ok ex_far = true /\ tval_wf ex_far ex_far_v = true /\
  TUnmarshal 40 PCompact ex_far (TMarshal PCompact ex_far ex_far_v) = TOk ex_far_v /\
  TUnmarshal 60 PBinary ex_far (TMarshal PBinary ex_far ex_far_v) = TOk ex_far_v.
Proof. repeat split; vm_compute; reflexivity. Qed.
(* the encoding of the struct without the field 200 (third word of the bitmap): MissingField, no index fault *)
Example ex_far_missing :
  TUnmarshal 40 PCompact ex_far (TMarshal PCompact (ThStruct [TField 1 4 ThI32; TField 70 4 ThStr; TField 329 0 ThI8]) (TvStruct [TvInt 0; TvBytes true []; TvInt 1])) = TErr EMissing /\
  TUnmarshal 60 PBinary ex_far (TMarshal PBinary (ThStruct [TField 1 4 ThI32; TField 70 4 ThStr; TField 329 0 ThI8]) (TvStruct [TvInt 0; TvBytes true []; TvInt 1])) = TErr EMissing.
Proof. split; vm_compute; reflexivity. Qed.
