(* Shared infrastructure for Thrift/ProofsD*.v: the three-way (prefix-aware) specification of skipping, the three-way
   specifications of the long header forms of the compact protocol, and the equations of the general encoding genc. *)
From Verif Require Import Base.GoInt Thrift.Model Thrift.Spec Thrift.SpecC Thrift.SpecD.
From Verif Require Thrift.ProofsA.
From Verif Require Import Thrift.ProofsB Thrift.ProofsC.
From Coq Require Import Lia ZifyBool ZifyNat.
Open Scope Z_scope.

Local Ltac dmlia := Z.div_mod_to_equations; lia.

(* ---------- three-way specification of a skipper: bytes -> rest ---------- *)
Definition sk3 (S : bytes -> tres bytes) (w : bytes) : Prop :=
  forall j rest, S (firstn j (w ++ rest)) = if (j <? length w)%nat then TErr (eofc j) else TOk (firstn (j - length w) rest).
Lemma sk3_full S w rest : sk3 S w -> S (w ++ rest) = TOk rest.
Proof.
  intros H. specialize (H (length w + length rest)%nat rest).
  rewrite firstn_all2 in H by (rewrite app_length; lia).
  replace (length w + length rest <? length w)%nat with false in H by (symmetry; apply Nat.ltb_ge; lia).
  rewrite firstn_all2 in H by lia. exact H.
Qed.
Lemma sk3_of_rspec {A} (R : bytes -> tres (A * bytes)) w a : rspec R w a -> sk3 (fun b => tlet (_, r) <- R b in TOk r) w.
Proof. intros H j rest. rewrite (H j rest), tbind_res3. destruct (j <? length w)%nat; reflexivity. Qed.

(* ---------- long headers of the compact protocol, three-way ---------- *)
Lemma r_list_long3 size ty : 0 <= size < 2 ^ 31 -> 1 <= ty <= 12 ->
  rspec (r_list PCompact) ([240 + ty] ++ uvarint size) (size, ty).
Proof.
  intros Hs Hty j rest. unfold r_list. rewrite <- app_assoc.
  rewrite (r_byte_spec (240 + ty) j), tbind_res3. rewrite app_length. cbn [length].
  destruct (Nat.ltb_spec j 1); [rewrite res3_lt by lia; reflexivity|].
  replace (240 + ty) with (ty + 15 * 16) by lia. rewrite nib_hi, nib_lo by lia. cbn [Z.eqb Pos.eqb negb].
  rewrite (r_uvarint_spec (2 ^ 31 - 1) size ltac:(lia) ltac:(lia) (j - 1)%nat rest).
  rewrite dee_res3.
  destruct (Nat.ltb_spec (j - 1) (length (uvarint size))).
  - rewrite res3_lt by lia. rewrite eofc_pos by lia. reflexivity.
  - rewrite res3_ge by lia. cbn [tbind]. do 3 f_equal. lia.
Qed.
Lemma alt_list_header_rspec long ty n : 0 <= n < 2 ^ 31 -> 1 <= ty <= 12 ->
  rspec (r_list PCompact) (alt_list_header long ty n) (n, ty).
Proof.
  intros Hn Hty. unfold alt_list_header. destruct ((n <? 15) && negb long) eqn:E.
  - apply andb_true_iff in E. destruct E as [E _].
    replace [n * 16 + ty] with (w_list PCompact n ty).
    + apply r_list_spec; lia.
    + unfold w_list. replace (n <=? 14) with true by lia. rewrite nib by lia. f_equal. lia.
  - apply r_list_long3; assumption.
Qed.

Lemma r_field_long3 id ty : - 2 ^ 15 <= id < 2 ^ 15 -> 1 <= ty <= 12 ->
  rspec (r_field PCompact) ([ty] ++ uvarint (zz64 id)) (id, ty, false).
Proof.
  intros Hid Hty j rest. unfold r_field. rewrite <- app_assoc.
  rewrite (r_byte_spec ty j), tbind_res3. rewrite app_length. cbn [length].
  destruct (Nat.ltb_spec j 1); [rewrite res3_lt by lia; reflexivity|].
  replace (ty =? c_STOP) with false by (unfold c_STOP; lia).
  replace (Z.shiftr ty 4) with 0 by (rewrite Z.shiftr_div_pow2 by lia; change (2 ^ 4) with 16; dmlia).
  cbn [Z.eqb negb].
  pose proof (r_i16_spec PCompact id ltac:(lia) (j - 1)%nat rest) as H16. cbn [w_i16] in H16. unfold varint in H16.
  rewrite H16. rewrite dee_res3.
  destruct (Nat.ltb_spec (j - 1) (length (uvarint (zz64 id)))).
  - rewrite res3_lt by lia. rewrite eofc_pos by lia. reflexivity.
  - rewrite res3_ge by lia. cbn [tbind]. do 3 f_equal; [|lia].
    unfold s8, w8. change (2 ^ 8) with 256. change (2 ^ 7) with 128. rewrite Z.mod_small by lia.
    replace (ty <? 128) with true by lia. reflexivity.
Qed.

Lemma ghdr_rspec p long last id wty : 0 <= last < id -> id < 2 ^ 15 -> 1 <= wty <= 12 ->
  exists rid isd, rspec (r_field p) (ghdr p long last id wty) (rid, wty, isd) /\ (if isd then s16 (rid + last) else rid) = id.
Proof.
  intros Hl Hid Hty. destruct p; cbn [ghdr].
  - exists id, false. split; [|reflexivity]. apply (r_field_spec PBinary last id wty); assumption.
  - unfold alt_field_header. destruct ((0 <? id - last) && (id - last <=? 15) && negb long) eqn:E.
    + apply andb_true_iff in E. destruct E as [E _]. apply andb_true_iff in E. destruct E as [E1 E2].
      exists (id - last), true. split.
      * pose proof (r_field_spec PCompact last id wty Hl Hid Hty) as H. unfold fhdr_res in H. rewrite E2 in H.
        rewrite <- (alt_field_header_fhdr last id wty Hl Hid Hty) in H. unfold alt_field_header in H.
        rewrite E1, E2 in H. cbn [andb negb] in H. exact H.
      * replace (id - last + last) with id by lia. apply s16_id. lia.
    + exists id, false. split; [|reflexivity]. apply r_field_long3; lia.
Qed.

(* ---------- equations of genc ---------- *)
Definition gl_hdr (ch : choice) (p : proto) (ty n : Z) : bytes :=
  match p with PBinary => w_list PBinary n ty | PCompact => alt_list_header (ch []) ty n end.
Lemma gl_hdr_rspec ch p ty n : 0 <= n < 2 ^ 31 -> 1 <= ty <= 12 -> rspec (r_list p) (gl_hdr ch p ty n) (n, ty).
Proof. intros Hn Hty. destruct p; cbn [gl_hdr]; [apply r_list_spec | apply alt_list_header_rspec]; assumption. Qed.
Lemma gl_hdr_len ch p ty n : (1 <= length (gl_hdr ch p ty n))%nat.
Proof. destruct p; cbn [gl_hdr]; [apply w_list_length | apply alt_list_header_len]. Qed.

Definition genc_elems (ch : choice) (p : proto) (et : tty) := fix go (i : nat) (es : list tval) : bytes :=
  match es with [] => [] | x :: r => genc (sub ch i) p et x ++ go (S i) r end.
Definition genc_pairs (ch : choice) (p : proto) (kt vt : tty) := fix go (i : nat) (es : list (tval * tval)) : bytes :=
  match es with
  | [] => []
  | kx :: r => genc (sub ch (2 * i)) p kt (fst kx) ++ genc (sub ch (2 * i + 1)) p vt (snd kx) ++ go (S i) r
  end.
Lemma genc_elems_cons ch p et i x r : genc_elems ch p et i (x :: r) = genc (sub ch i) p et x ++ genc_elems ch p et (S i) r.
Proof. reflexivity. Qed.
Lemma genc_pairs_cons ch p kt vt i kx r : genc_pairs ch p kt vt i (kx :: r) =
  genc (sub ch (2 * i)) p kt (fst kx) ++ genc (sub ch (2 * i + 1)) p vt (snd kx) ++ genc_pairs ch p kt vt (S i) r.
Proof. reflexivity. Qed.

Lemma genc_elems_bin ch et : forall es i, genc_elems ch PBinary et i es = enc_elems PBinary et es.
Proof. induction es as [|x r IH]; intros i; [reflexivity|]. rewrite genc_elems_cons, enc_elems_cons, IH. reflexivity. Qed.
Lemma genc_elems_cmp ch et : forall es i, genc_elems ch PCompact et i es = alt_elems ch et i es.
Proof. induction es as [|x r IH]; intros i; [reflexivity|]. rewrite genc_elems_cons. cbn [alt_elems]. rewrite IH. reflexivity. Qed.
Lemma genc_pairs_bin ch kt vt : forall es i, genc_pairs ch PBinary kt vt i es = enc_pairs PBinary kt vt es.
Proof. induction es as [|[k x] r IH]; intros i; [reflexivity|]. rewrite genc_pairs_cons, enc_pairs_cons, IH. reflexivity. Qed.
Lemma genc_pairs_cmp ch kt vt : forall es i, genc_pairs ch PCompact kt vt i es = alt_pairs ch kt vt i es.
Proof. induction es as [|[k x] r IH]; intros i; [reflexivity|]. rewrite genc_pairs_cons. cbn [alt_pairs fst snd]. rewrite IH. reflexivity. Qed.

Lemma genc_list_eq ch p et nn es : genc ch p (ThList et) (TvList nn es) = gl_hdr ch p (type_of et) (len es) ++ genc_elems ch p et O es.
Proof.
  destruct p; unfold genc at 1, TMarshal.
  - rewrite enc_list_eq, genc_elems_bin. reflexivity.
  - rewrite alt_list_eq, ProofsA.code_of_pkg, genc_elems_cmp. reflexivity.
Qed.
Lemma genc_set_eq ch p kt nn ks : genc ch p (ThSet kt) (TvSet nn ks) = gl_hdr ch p (type_of kt) (len ks) ++ genc_elems ch p kt O ks.
Proof.
  destruct p; unfold genc at 1, TMarshal.
  - rewrite enc_set_eq, genc_elems_bin. reflexivity.
  - rewrite alt_set_eq, ProofsA.code_of_pkg, genc_elems_cmp. reflexivity.
Qed.
Lemma genc_map_eq ch p kt vt nn es : genc ch p (ThMap kt vt) (TvMap nn es) =
  w_map p (len es) (type_of kt) (type_of vt) ++ genc_pairs ch p kt vt O es.
Proof.
  pose proof (type_of_range kt) as Hk. pose proof (type_of_range vt) as Hv.
  destruct p; unfold genc at 1, TMarshal.
  - rewrite enc_map_eq, genc_pairs_bin. reflexivity.
  - rewrite alt_map_eq, !ProofsA.code_of_pkg, genc_pairs_cmp. rewrite alt_map_hdr by lia. reflexivity.
Qed.
Lemma genc_ptr_eq ch p t x : genc ch p (ThPtr t) (TvPtr (Some x)) = genc ch p t x.
Proof. destruct p; reflexivity. Qed.

(* structs: the entries of the general field sequence gen_go of ProofsC.v *)
Definition gbody (ch : choice) (p : proto) (i : nat) (f : tfield) (x : tval) : bytes :=
  match p with PBinary => fbody PBinary f x | PCompact => alt_body ch i f x end.
Definition g_mk (ch : choice) (p : proto) := fix mk (i : nat) (fs : list tfield) (vs : list tval) : list gentry :=
  match fs, vs with
  | f :: fr, x :: vr => (f, (x, (match p with PBinary => false | PCompact => ch [O; i] end, gbody ch p i f x))) :: mk (S i) fr vr
  | _, _ => []
  end.
Lemma g_mk_bin ch : forall fs vs i, g_mk ch PBinary i fs vs = map lift (mk_encs PBinary fs vs).
Proof.
  induction fs as [|f fr IH]; intros [|x vr] i; try reflexivity. rewrite mk_encs_cons. cbn [g_mk map]. rewrite IH. reflexivity.
Qed.
Lemma g_mk_cmp ch : forall fs vs i, g_mk ch PCompact i fs vs = alt_mk ch i fs vs.
Proof. induction fs as [|f fr IH]; intros [|x vr] i; reflexivity. Qed.

Lemma g_mk_ids ch p fs : forall vs k, length vs = length fs -> map eid (g_mk ch p k fs vs) = map fld_id fs.
Proof.
  induction fs as [|f fr IH]; intros [|x vr] k H; try discriminate H; [reflexivity|].
  cbn [g_mk map]. rewrite IH by (cbn in H; lia). reflexivity.
Qed.
Lemma g_mk_in ch p fs : forall vs k e, In e (g_mk ch p k fs vs) ->
  exists i, nth_error fs i = Some (g_fd e) /\ nth_error vs i = Some (g_x e) /\ g_body e = gbody ch p (k + i) (g_fd e) (g_x e).
Proof.
  induction fs as [|f fr IH]; intros [|x vr] k e H; try contradiction H.
  cbn [g_mk] in H. destruct H as [<-|H].
  - exists O. rewrite Nat.add_0_r. repeat split.
  - destruct (IH vr (S k) e H) as [i Hi]. exists (S i). replace (k + S i)%nat with (S k + i)%nat by lia. exact Hi.
Qed.
Lemma g_mk_nth ch p fs : forall vs k i f x, nth_error fs i = Some f -> nth_error vs i = Some x ->
  exists lg, In (f, (x, (lg, gbody ch p (k + i) f x))) (g_mk ch p k fs vs).
Proof.
  induction fs as [|f0 fr IH]; intros [|x0 vr] k [|i] f x Hf Hx; try discriminate.
  - cbn in Hf, Hx. inversion Hf; inversion Hx; subst. eexists. cbn [g_mk]. left. rewrite Nat.add_0_r. reflexivity.
  - cbn in Hf, Hx. destruct (IH vr (S k) i f x Hf Hx) as [lg H]. exists lg. cbn [g_mk]. right.
    replace (k + S i)%nat with (S k + i)%nat by lia. exact H.
Qed.

Lemma genc_struct_eq ch p fs vs : NoDup (map fld_id fs) -> (forall fd, In fd fs -> 1 <= fld_id fd < 2 ^ 15) -> length vs = length fs ->
  genc ch p (ThStruct fs) (TvStruct vs) = gen_go p (sort_by_id (g_mk ch p O fs vs)) 0.
Proof.
  intros Hnd Hids Hlen. destruct p; unfold genc, TMarshal.
  - rewrite enc_struct_eq, g_mk_bin, sort_lift.
    destruct (sort_by_id_spec (mk_encs PBinary fs vs) 0) as [Hasc Hin].
    { rewrite mk_encs_ids by exact Hlen. exact Hnd. }
    { intros e He. destruct (mk_encs_in PBinary fs vs e He) as [i [Hi _]]. unfold eid. apply nth_error_In in Hi. specialize (Hids _ Hi). lia. }
    apply enc_go_gen; [lia | exact Hasc |].
    intros e He. apply Hin in He. destruct (mk_encs_in PBinary fs vs e He) as [i [Hi _]]. apply nth_error_In in Hi. specialize (Hids _ Hi). unfold eid. lia.
  - rewrite alt_struct_eq, alt_go_gen, g_mk_cmp. reflexivity.
Qed.

(* bodies *)
Lemma gbody_noenum ch p i f x : has_flag (fld_flags f) f_enum = false -> gbody ch p i f x = genc (sub ch (S i)) p (fld_ty f) x.
Proof. intros H. destruct f as [id fl ft]. cbn [fld_flags fld_ty] in *. destruct p; unfold gbody, fbody, alt_body; rewrite H; reflexivity. Qed.
Lemma gbody_enum ch p i f z : has_flag (fld_flags f) f_enum = true -> fld_ty f = ThI32 -> - 2 ^ 31 <= z < 2 ^ 31 ->
  gbody ch p i f (TvInt z) = w_i32 p z.
Proof.
  intros H Ht Hz. destruct f as [id fl ft]. cbn [fld_flags fld_ty] in *. subst ft.
  destruct p; unfold gbody, fbody, alt_body; rewrite H; [rewrite s32_id by lia|]; reflexivity.
Qed.

(* scalars and keys: no header with two forms *)
Lemma genc_key ch p kt k : is_key_ty kt = true -> tval_wf kt k = true -> genc ch p kt k = enc p kt k.
Proof.
  intros Hk Hwf. destruct p; [reflexivity|]. unfold genc.
  apply alt_scalar_eq; [destruct kt; try discriminate Hk; reflexivity | exact Hwf |].
  intros ch' v'. destruct kt; try discriminate Hk; destruct v'; reflexivity.
Qed.
