(* Proofs of the statements of section 1 of Thrift/SpecD.v: a declared set / map whose wire item / key / value
   type differs from the declared one (strict and non-strict mode), and the empty-collection special cases of the
   set, list and map decoders.  The skipping loops skip_items / skip_entries are the loops of skip
   (sk_list_spec / sk_map_spec of ProofsC.v), every supported value is skipped entirely (skip_all). *)
From Verif Require Import Base.GoInt Thrift.Model Thrift.Spec Thrift.SpecC Thrift.SpecD.
From Verif Require Thrift.ProofsA.
From Verif Require Import Thrift.ProofsB Thrift.ProofsC.
From Coq Require Import Lia ZifyBool ZifyNat.
Open Scope Z_scope.

(* ---------- the wire format of a set is the wire format of a list ---------- *)
Lemma t_set_wire_is_list : t_set_wire_is_list_statement.
Proof. intros p kt nn ks. reflexivity. Qed.

(* ---------- a declared set, the wire items of another type: the general form over an item list ---------- *)
Lemma set_items_mismatch p kt et' es old flags f rest :
  ty_ok et' = true -> Forall (fun x => tval_wf et' x = true /\ nilp x = false) es ->
  0 < len es < tlim -> type_of et' <> type_of kt ->
  (length (enc_elems p et' es) + tdepth et' <= f)%nat ->
  dec (S f) p (ThSet kt) flags old ((w_list p (len es) (type_of et') ++ enc_elems p et' es) ++ rest) =
    if has_flag flags f_strict then TErr EMismatch else TOk (TvSet true [], rest).
Proof.
  intros Hok HF Hlen Htne Hf.
  rewrite dec_set_eq. rewrite <- app_assoc. pose proof (type_of_range et') as Hty. unfold tlim in Hlen.
  rewrite (rspec_full _ _ _ _ (r_list_spec p (len es) (type_of et') ltac:(lia) ltac:(lia))). cbn [tbind].
  cbv zeta. replace (type_of et' =? c_TRUE) with false by (unfold c_TRUE; lia).
  replace (len es <? 0) with false by lia. replace (len es =? 0) with false by lia.
  replace (type_of kt =? type_of et') with false by (symmetry; apply Z.eqb_neq; congruence). cbn [negb].
  destruct (has_flag flags f_strict); [reflexivity|].
  rewrite skip_items_eq.
  rewrite (sk_list_spec f p et' (skip_all et') Hok es HF); [reflexivity | lia | rewrite app_length; lia].
Qed.

Lemma t_mismatch_set_items : t_mismatch_set_items_statement.
Proof.
  intros p kt et' v old flags fuel rest Hok Hwf Htne Hne Hf. unfold TMarshal in *. destruct v; try discriminate Hwf.
  destruct fuel as [|f]; [cbn [tdepth] in Hf; lia|]. cbn [ty_ok] in Hok. apply wf_list_inv in Hwf. destruct Hwf as [Hlen HF].
  rewrite enc_list_eq in *. rewrite app_length in Hf. cbn [tdepth] in Hf.
  apply set_items_mismatch; try assumption.
  - destruct es; [discriminate Hne|]. unfold len in *. cbn [length] in *. lia.
  - lia.
Qed.

Lemma t_mismatch_set : t_mismatch_set_statement.
Proof.
  intros p kt kt' v old flags fuel rest Hok Hwf Htne Hne Hf. unfold TMarshal in *. destruct v; try discriminate Hwf.
  destruct fuel as [|f]; [cbn [tdepth] in Hf; lia|]. cbn [ty_ok] in Hok. apply wf_set_inv in Hwf. destruct Hwf as [Hlen HD].
  destruct (sdist_split kt' ks HD) as [HW _].
  rewrite enc_set_eq in *. rewrite app_length in Hf. cbn [tdepth] in Hf.
  apply set_items_mismatch; try assumption.
  - destruct kt'; try discriminate Hok; reflexivity.
  - clear - HW Hok. induction HW as [|x r Hx HW IHr]; constructor; [|exact IHr].
    split; [exact Hx | apply (key_facts kt' x Hok Hx)].
  - destruct ks; [discriminate Hne|]. unfold len in *. cbn [length] in *. lia.
  - lia.
Qed.

(* ---------- the empty set and the empty list ---------- *)
Lemma t_mismatch_set_empty : t_mismatch_set_empty_statement.
Proof.
  intros p kt kt' nn old flags fuel rest Hf. unfold TMarshal. destruct fuel as [|f]; [lia|].
  rewrite dec_set_eq, enc_set_eq. rewrite <- app_assoc. pose proof (type_of_range kt') as Hty.
  change (len (@nil tval)) with 0.
  rewrite (rspec_full _ _ _ _ (r_list_spec p 0 (type_of kt') ltac:(lia) ltac:(lia))). cbn [tbind].
  reflexivity.
Qed.

Lemma t_mismatch_list_empty : t_mismatch_list_empty_statement.
Proof.
  intros p et et' nn old flags fuel rest Htne Hf. unfold TMarshal. destruct fuel as [|f]; [lia|].
  rewrite dec_list_eq, enc_list_eq. rewrite <- app_assoc. pose proof (type_of_range et') as Hty.
  change (len (@nil tval)) with 0.
  rewrite (rspec_full _ _ _ _ (r_list_spec p 0 (type_of et') ltac:(lia) ltac:(lia))). cbn [tbind].
  cbv zeta. replace (type_of et' =? c_TRUE) with false by (unfold c_TRUE; lia).
  replace (type_of et =? type_of et') with false by (symmetry; apply Z.eqb_neq; congruence). cbn [negb].
  destruct (has_flag flags f_strict); [reflexivity|].
  rewrite skip_items_eq, sk_list_eq. reflexivity.
Qed.

(* ---------- a declared map, the wire key or value type differing ---------- *)
Lemma t_mismatch_map : t_mismatch_map_statement.
Proof.
  intros p kt vt kt' vt' v old flags fuel rest Hok Hwf Htne Hne Hf. unfold TMarshal in *. destruct v; try discriminate Hwf.
  destruct fuel as [|f]; [cbn [tdepth] in Hf; lia|].
  cbn [ty_ok] in Hok. apply andb_true_iff in Hok. destruct Hok as [Hok _]. apply andb_true_iff in Hok. destruct Hok as [Hkey Hokv].
  apply wf_map_inv in Hwf. destruct Hwf as [Hlen HD].
  assert (Hpos : 0 < len es) by (destruct es; [discriminate Hne|]; unfold len; cbn [length]; lia).
  rewrite dec_map_eq, enc_map_eq in *. rewrite <- app_assoc.
  pose proof (type_of_range kt') as Htk. pose proof (type_of_range vt') as Htv. unfold tlim in Hlen.
  rewrite (rspec_full _ _ _ _ (r_map_spec p (len es) (type_of kt') (type_of vt') ltac:(lia) ltac:(lia) ltac:(lia))).
  cbn [tbind]. rewrite app_length in Hf. cbn [tdepth] in Hf.
  replace (map_res p (len es) (type_of kt') (type_of vt')) with (len es, type_of kt', type_of vt')
    by (unfold map_res; replace (len es =? 0) with false by lia; destruct p; reflexivity).
  cbv iota beta.
  replace (len es <? 0) with false by lia. replace (len es =? 0) with false by lia.
  assert (Hskip : skip_entries f p (type_of kt') (type_of vt') (len es) (enc_pairs p kt' vt' es ++ rest) = TOk rest).
  { rewrite ProofsA.skip_entries_eq.
    apply (sk_map_spec f p kt' vt' (skip_all kt') (skip_all vt') Hkey Hokv es HD); [lia | rewrite app_length; lia]. }
  destruct (type_of kt =? type_of kt') eqn:Ek; cbn [negb].
  - replace (type_of vt =? type_of vt') with false
      by (symmetry; apply Z.eqb_neq; apply Z.eqb_eq in Ek; destruct Htne as [Hn|Hn]; congruence).
    cbn [negb]. destruct (has_flag flags f_strict); [reflexivity|]. rewrite Hskip. reflexivity.
  - destruct (has_flag flags f_strict); [reflexivity|]. rewrite Hskip. reflexivity.
Qed.

Lemma t_mismatch_map_empty : t_mismatch_map_empty_statement.
Proof.
  intros p kt vt kt' vt' nn old flags fuel rest Hf. unfold TMarshal. destruct fuel as [|f]; [lia|].
  rewrite dec_map_eq, enc_map_eq. rewrite <- app_assoc.
  pose proof (type_of_range kt') as Htk. pose proof (type_of_range vt') as Htv.
  change (len (@nil (tval * tval))) with 0.
  rewrite (rspec_full _ _ _ _ (r_map_spec p 0 (type_of kt') (type_of vt') ltac:(lia) ltac:(lia) ltac:(lia))).
  cbn [tbind]. destruct p; reflexivity.
Qed.

(* ---------- the hypotheses are satisfiable: concrete non-trivial instances, both protocols ---------- *)
(* a set of three I32 read as a set of strings, non-strict: all items skipped, the empty non-nil set, the rest kept *)
Example ex_set_compact :
  dec 30 PCompact (ThSet ThStr) 0 (TvSet false [])
      (TMarshal PCompact (ThSet ThI32) (TvSet true [TvInt 5; TvInt 7; TvInt 300]) ++ [9; 9]) = TOk (TvSet true [], [9; 9]).
Proof. vm_compute. reflexivity. Qed.
Example ex_set_binary :
  dec 30 PBinary (ThSet ThStr) 0 (TvSet false [])
      (TMarshal PBinary (ThSet ThI32) (TvSet true [TvInt 5; TvInt 7; TvInt 300]) ++ [9; 9]) = TOk (TvSet true [], [9; 9]).
Proof. vm_compute. reflexivity. Qed.
Example ex_set_strict :
  dec 30 PCompact (ThSet ThStr) f_strict (TvSet false [])
      (TMarshal PCompact (ThSet ThI32) (TvSet true [TvInt 5; TvInt 7; TvInt 300]) ++ [9; 9]) = TErr EMismatch.
Proof. vm_compute. reflexivity. Qed.
Example ex_set_hyps :
  ty_ok (ThSet ThI32) = true /\ tval_wf (ThSet ThI32) (TvSet true [TvInt 5; TvInt 7; TvInt 300]) = true /\
  type_of ThI32 <> type_of ThStr /\ coll_nonempty (TvSet true [TvInt 5; TvInt 7; TvInt 300]) = true /\
  (length (TMarshal PCompact (ThSet ThI32) (TvSet true [TvInt 5; TvInt 7; TvInt 300])) + tdepth (ThSet ThI32) <= 30)%nat /\
  (length (TMarshal PBinary (ThSet ThI32) (TvSet true [TvInt 5; TvInt 7; TvInt 300])) + tdepth (ThSet ThI32) <= 30)%nat.
Proof. repeat split; try reflexivity; try (intros H; discriminate H); apply Nat.leb_le; vm_compute; reflexivity. Qed.
(* a list of lists of strings read as a set of I64 (the items statement, nested items) *)
Example ex_set_items_binary :
  dec 60 PBinary (ThSet ThI64) 0 (TvSet true [TvInt 1])
      (TMarshal PBinary (ThList (ThList ThStr)) (TvList true [TvList true [TvBytes true [104; 105]]; TvList false []]) ++ [1; 2; 3])
  = TOk (TvSet true [], [1; 2; 3]).
Proof. vm_compute. reflexivity. Qed.
(* a map I32 -> string read as a map I16 -> string (key type differs), and as a map I32 -> I32 (value type differs) *)
Example ex_map_key_compact :
  dec 40 PCompact (ThMap ThI16 ThStr) 0 (TvMap false [])
      (TMarshal PCompact (ThMap ThI32 ThStr) (TvMap true [(TvInt 70000, TvBytes true [97; 98]); (TvInt (-3), TvBytes true [])]) ++ [9; 9])
  = TOk (TvMap true [], [9; 9]).
Proof. vm_compute. reflexivity. Qed.
Example ex_map_key_binary :
  dec 40 PBinary (ThMap ThI16 ThStr) 0 (TvMap false [])
      (TMarshal PBinary (ThMap ThI32 ThStr) (TvMap true [(TvInt 70000, TvBytes true [97; 98]); (TvInt (-3), TvBytes true [])]) ++ [9; 9])
  = TOk (TvMap true [], [9; 9]).
Proof. vm_compute. reflexivity. Qed.
Example ex_map_val_compact :
  dec 40 PCompact (ThMap ThI32 ThI32) 0 (TvMap false [])
      (TMarshal PCompact (ThMap ThI32 ThStr) (TvMap true [(TvInt 70000, TvBytes true [97; 98]); (TvInt (-3), TvBytes true [])]) ++ [9; 9])
  = TOk (TvMap true [], [9; 9]).
Proof. vm_compute. reflexivity. Qed.
Example ex_map_val_binary_strict :
  dec 40 PBinary (ThMap ThI32 ThI32) f_strict (TvMap false [])
      (TMarshal PBinary (ThMap ThI32 ThStr) (TvMap true [(TvInt 70000, TvBytes true [97; 98]); (TvInt (-3), TvBytes true [])]) ++ [9; 9])
  = TErr EMismatch.
Proof. vm_compute. reflexivity. Qed.
Example ex_map_hyps :
  let v := TvMap true [(TvInt 70000, TvBytes true [97; 98]); (TvInt (-3), TvBytes true [])] in
  ty_ok (ThMap ThI32 ThStr) = true /\ tval_wf (ThMap ThI32 ThStr) v = true /\
  type_of ThI32 <> type_of ThI16 /\ type_of ThStr <> type_of ThI32 /\ coll_nonempty v = true /\
  (length (TMarshal PCompact (ThMap ThI32 ThStr) v) + tdepth (ThMap ThI32 ThStr) <= 40)%nat /\
  (length (TMarshal PBinary (ThMap ThI32 ThStr) v) + tdepth (ThMap ThI32 ThStr) <= 40)%nat.
Proof. repeat split; try reflexivity; try (intros H; discriminate H); apply Nat.leb_le; vm_compute; reflexivity. Qed.
(* the empty cases: an empty set of I32 read as a set of strings in strict mode is accepted; the list is not *)
Example ex_set_empty_strict :
  dec 1 PCompact (ThSet ThStr) f_strict (TvSet false []) (TMarshal PCompact (ThSet ThI32) (TvSet true []) ++ [9]) = TOk (TvSet true [], [9]).
Proof. vm_compute. reflexivity. Qed.
Example ex_list_empty_strict :
  dec 1 PCompact (ThList ThStr) f_strict (TvList false []) (TMarshal PCompact (ThList ThI32) (TvList true []) ++ [9]) = TErr EMismatch.
Proof. vm_compute. reflexivity. Qed.
Example ex_map_empty_strict :
  dec 1 PBinary (ThMap ThI16 ThStr) f_strict (TvMap false []) (TMarshal PBinary (ThMap ThI32 ThI64) (TvMap true []) ++ [9]) = TOk (TvMap true [], [9]).
Proof. vm_compute. reflexivity. Qed.
