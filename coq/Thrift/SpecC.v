(* Further statements about the thrift model (Thrift/Model.v) for C08 and C13:
   - C13, decode side: every alternative conformant compact encoding (long forms of field headers and of
     list / set headers where a short form exists) is accepted with the same result;
   - C08: fields the target does not declare are skipped (schema widening, both protocols);
     a wrong wire type on a declared field (strict and non-strict mode); missing required fields.
   Definitions only. *)
From Verif Require Import Base.GoInt Thrift.Model Thrift.Spec.
Open Scope Z_scope.

(* ====================================================================== *)
(* ---------- C13: alternative conformant encodings of the compact protocol ---------- *)

(* A choice oracle: one boolean for every place of the encoded value where the compact protocol offers two
   conformant forms. Places are addressed by their path in the value:
     []                 the header of a list / set value
     i :: q             place q inside element i of a list or set; inside key (2 i) / value (2 i + 1) of a map
     [0; i]             the field header of the i-th declared field of a struct
     S i :: q           place q inside the value of the i-th declared field of a struct
   Distinct places have distinct addresses, so every combination of choices is some oracle.
   true = use the long form although a short form exists. *)
Definition choice : Type := list nat -> bool.
Definition sub (ch : choice) (i : nat) : choice := fun q => ch (i :: q).

(* list / set header: short form (size nibble) only below 15 elements; long form 0xF0|type then varint size *)
Definition alt_list_header (long : bool) (code n : Z) : bytes :=
  if (n <? 15) && negb long then [n * 16 + code] else [240 + code] ++ uvarint n.
(* field header: short form (delta nibble) only for 1 <= delta <= 15; long form type byte then zig-zag varint id *)
Definition alt_field_header (long : bool) (last id code : Z) : bytes :=
  let delta := id - last in
  if (0 <? delta) && (delta <=? 15) && negb long then [delta * 16 + code] else [code] ++ uvarint (zz64 id).

(* the compact protocol of spec_enc in the package dialect (pkg_dev: the decoder reads big-endian doubles),
   with the form of every header that has two forms chosen by the oracle *)
Fixpoint spec_enc_alt (ch : choice) (t : tty) (v : tval) {struct t} : bytes :=
  match t, v with
  | ThPtr t', TvPtr (Some x) => spec_enc_alt ch t' x
  | ThPtr t', TvPtr None => spec_enc_alt ch t' (zero_of t')
  | ThList et, TvList _ es =>
      alt_list_header (ch []) (code_of pkg_dev PCompact et) (len es) ++
      (fix go (i : nat) (es : list tval) : bytes :=
         match es with [] => [] | x :: r => spec_enc_alt (sub ch i) et x ++ go (S i) r end) O es
  | ThSet kt, TvSet _ ks =>
      alt_list_header (ch []) (code_of pkg_dev PCompact kt) (len ks) ++
      (fix go (i : nat) (es : list tval) : bytes :=
         match es with [] => [] | x :: r => spec_enc_alt (sub ch i) kt x ++ go (S i) r end) O ks
  | ThMap kt vt, TvMap _ es =>
      (uvarint (len es) ++ (if len es =? 0 then [] else [code_of pkg_dev PCompact kt * 16 + code_of pkg_dev PCompact vt])) ++
      (fix go (i : nat) (es : list (tval * tval)) : bytes :=
         match es with
         | [] => []
         | (k, x) :: r => spec_enc_alt (sub ch (2 * i)) kt k ++ spec_enc_alt (sub ch (2 * i + 1)) vt x ++ go (S i) r
         end) O es
  | ThStruct fs, TvStruct vs =>
      let bodies := (fix mk (i : nat) (fs : list tfield) (vs : list tval) : list (tfield * (tval * (bool * bytes))) :=
                       match fs, vs with
                       | f :: fr, x :: vr =>
                           (f, (x, (ch [O; i],
                                    match f with TField _ fl ft =>
                                      if has_flag fl f_enum then (match x with TvInt z => s_i32 PCompact z | _ => [] end)
                                      else spec_enc_alt (sub ch (S i)) ft x end))) :: mk (S i) fr vr
                       | _, _ => []
                       end) O fs vs in
      (fix go (l : list (tfield * (tval * (bool * bytes)))) (last : Z) : bytes :=
         match l with
         | [] => [0]
         | (f, (x, (long, body))) :: r =>
             if (match x with TvPtr None => true | _ => false end) || (negb (has_flag (fld_flags f) f_required) && is_zero_t (fld_ty f) x)
             then go r last else
             let isbool := spec_code PCompact (fld_ty f) =? 2 in
             let code := if isbool then (if deref_bool x then 1 else 2) else spec_code PCompact (fld_ty f) in
             alt_field_header long last (fld_id f) code ++ (if isbool then [] else body) ++ go r (fld_id f)
         end) (sort_by_id bodies) 0
  | _, _ => spec_enc pkg_dev PCompact t v
  end.

(* with no long form chosen anywhere this is the transcription of the specification in the package dialect ... *)
Definition t_alt_short_statement : Prop :=
  forall ch, (forall q, ch q = false) -> forall t v, spec_enc_alt ch t v = spec_enc pkg_dev PCompact t v.
(* ... hence the bytes Marshal writes *)
Definition t_alt_short_marshal_statement : Prop :=
  forall ch, (forall q, ch q = false) -> forall t v, ty_ok t = true -> tval_wf t v = true ->
    spec_enc_alt ch t v = TMarshal PCompact t v.
(* the alternatives are real: some oracle gives bytes Marshal does not write *)
Definition t_alt_differs_statement : Prop :=
  exists ch t v, ty_ok t = true /\ tval_wf t v = true /\ spec_enc_alt ch t v <> TMarshal PCompact t v.

(* EVERY alternative conformant encoding (every oracle) of every value of every supported type is accepted by
   Unmarshal, with the very result obtained from the bytes Marshal writes, which is the value up to tnorm.
   (A nil pointer is not a value Unmarshal can be asked to produce at top level; inside structs it is covered.) *)
Definition t_alt_accept_statement : Prop :=
  forall t v ch fuel, ty_ok t = true -> tval_wf t v = true -> v <> TvPtr None ->
    (length (spec_enc_alt ch t v) + length (TMarshal PCompact t v) + tdepth t <= fuel)%nat ->
    exists r, TUnmarshal fuel PCompact t (spec_enc_alt ch t v) = TOk r /\
              TUnmarshal fuel PCompact t (TMarshal PCompact t v) = TOk r /\
              tnorm t r = tnorm t v.

(* ====================================================================== *)
(* ---------- C08: unknown fields ---------- *)
(* Insertion of unknown fields is stated on the field list level (compact field ids are delta coded, so the header
   FOLLOWING an inserted field changes): the bytes are the encoding of a WIDER struct -- the declared fields fs with
   values vs plus any further fields gs (ids not declared by fs, any supported type, any flags) with values ws.
   Marshal sorts by id, so the extra fields land at every possible field boundary. Decoding into the narrow type
   gives exactly what decoding the narrow encoding gives. Both protocols. *)
Definition t_unknown_fields_statement : Prop :=
  forall p fs gs vs ws fuel,
    ty_ok (ThStruct (fs ++ gs)) = true -> length vs = length fs ->
    tval_wf (ThStruct (fs ++ gs)) (TvStruct (vs ++ ws)) = true ->
    (length (TMarshal p (ThStruct (fs ++ gs)) (TvStruct (vs ++ ws))) + length (TMarshal p (ThStruct fs) (TvStruct vs))
     + tdepth (ThStruct (fs ++ gs)) <= fuel)%nat ->
    exists r, TUnmarshal fuel p (ThStruct fs) (TMarshal p (ThStruct (fs ++ gs)) (TvStruct (vs ++ ws))) = TOk r /\
              TUnmarshal fuel p (ThStruct fs) (TMarshal p (ThStruct fs) (TvStruct vs)) = TOk r /\
              tnorm (ThStruct fs) r = tnorm (ThStruct fs) (TvStruct vs).

(* ---------- C08: missing required fields ---------- *)
(* the bytes are the encoding of a NARROWER struct: the target type without one of its fields, at any position;
   when that field is required the decoder reports MissingField, for both protocols *)
Definition t_missing_field_statement : Prop :=
  forall p fs1 fd fs2 vs1 vs2 fuel,
    ty_ok (ThStruct (fs1 ++ fd :: fs2)) = true -> length vs1 = length fs1 ->
    tval_wf (ThStruct (fs1 ++ fs2)) (TvStruct (vs1 ++ vs2)) = true ->
    has_flag (fld_flags fd) f_required = true ->
    (length (TMarshal p (ThStruct (fs1 ++ fs2)) (TvStruct (vs1 ++ vs2))) + tdepth (ThStruct (fs1 ++ fd :: fs2)) <= fuel)%nat ->
    TUnmarshal fuel p (ThStruct (fs1 ++ fd :: fs2)) (TMarshal p (ThStruct (fs1 ++ fs2)) (TvStruct (vs1 ++ vs2))) = TErr EMissing.
(* (that a required field which is present is not reported is part of t_roundtrip_statement) *)
(* and it is not reported when the field is not required: the field keeps its zero value *)
Definition t_absent_optional_statement : Prop :=
  forall p fs1 fd fs2 vs1 vs2 fuel,
    ty_ok (ThStruct (fs1 ++ fd :: fs2)) = true -> length vs1 = length fs1 ->
    tval_wf (ThStruct (fs1 ++ fs2)) (TvStruct (vs1 ++ vs2)) = true ->
    has_flag (fld_flags fd) f_required = false ->
    (length (TMarshal p (ThStruct (fs1 ++ fs2)) (TvStruct (vs1 ++ vs2))) + tdepth (ThStruct (fs1 ++ fd :: fs2)) <= fuel)%nat ->
    exists r, TUnmarshal fuel p (ThStruct (fs1 ++ fd :: fs2)) (TMarshal p (ThStruct (fs1 ++ fs2)) (TvStruct (vs1 ++ vs2))) = TOk r /\
              tnorm (ThStruct (fs1 ++ fd :: fs2)) r =
              tnorm (ThStruct (fs1 ++ fd :: fs2)) (TvStruct (vs1 ++ zero_of (fld_ty fd) :: vs2)).

(* ====================================================================== *)
(* ---------- C08: a declared field carrying a different wire type ---------- *)
(* Decoder.Decode after SetStrict(strict), with the trailing-bytes check of Unmarshal; TUnmarshal is TDecode false *)
Definition TDecode (fuel : nat) (strict : bool) (p : proto) (t : tty) (b : bytes) : tres tval :=
  tlet (v, r) <- dec fuel p t (if strict then f_strict else 0) (zero_of t) b in
  match r with [] => TOk v | _ => TErr EOther end.
(* the rule by which Marshal omits a field *)
Definition field_omitted (fd : tfield) (x : tval) : bool :=
  (match x with TvPtr None => true | _ => false end) || (negb (has_flag (fld_flags fd) f_required) && is_zero_t (fld_ty fd) x).

(* The bytes are Marshal's for a CONFLICTING schema: the target's fields, except that the id of one declared field
   (at any position) is declared with another type ft' (any flags fl'), so that the field arrives with a wire type
   other than the declared one.  Either protocol.
   strict mode: TypeMismatch, whenever the field is on the wire at all *)
Definition t_mismatch_strict_statement : Prop :=
  forall p fs1 id fl fl' ft ft' fs2 vs1 x vs2 fuel,
    ty_ok (ThStruct (fs1 ++ TField id fl ft :: fs2)) = true -> ty_ok (ThStruct (fs1 ++ TField id fl' ft' :: fs2)) = true ->
    type_of ft' <> type_of ft -> length vs1 = length fs1 ->
    tval_wf (ThStruct (fs1 ++ TField id fl' ft' :: fs2)) (TvStruct (vs1 ++ x :: vs2)) = true ->
    field_omitted (TField id fl' ft') x = false ->
    (length (TMarshal p (ThStruct (fs1 ++ TField id fl' ft' :: fs2)) (TvStruct (vs1 ++ x :: vs2)))
     + tdepth (ThStruct (fs1 ++ TField id fl ft :: fs2)) + tdepth (ThStruct (fs1 ++ TField id fl' ft' :: fs2)) <= fuel)%nat ->
    TDecode fuel true p (ThStruct (fs1 ++ TField id fl ft :: fs2))
      (TMarshal p (ThStruct (fs1 ++ TField id fl' ft' :: fs2)) (TvStruct (vs1 ++ x :: vs2))) = TErr EMismatch.
(* non-strict mode: the field is skipped like an unknown field -- the declared field keeps its zero value, every other
   field is decoded as usual (the value is consumed entirely), and the field counts as seen: no MissingField even when
   the declared field is required *)
Definition t_mismatch_skipped_statement : Prop :=
  forall p fs1 id fl fl' ft ft' fs2 vs1 x vs2 fuel,
    ty_ok (ThStruct (fs1 ++ TField id fl ft :: fs2)) = true -> ty_ok (ThStruct (fs1 ++ TField id fl' ft' :: fs2)) = true ->
    type_of ft' <> type_of ft -> length vs1 = length fs1 ->
    tval_wf (ThStruct (fs1 ++ TField id fl' ft' :: fs2)) (TvStruct (vs1 ++ x :: vs2)) = true ->
    (has_flag fl f_required = true -> field_omitted (TField id fl' ft') x = false) ->
    (length (TMarshal p (ThStruct (fs1 ++ TField id fl' ft' :: fs2)) (TvStruct (vs1 ++ x :: vs2)))
     + tdepth (ThStruct (fs1 ++ TField id fl ft :: fs2)) + tdepth (ThStruct (fs1 ++ TField id fl' ft' :: fs2)) <= fuel)%nat ->
    exists r, TDecode fuel false p (ThStruct (fs1 ++ TField id fl ft :: fs2))
                (TMarshal p (ThStruct (fs1 ++ TField id fl' ft' :: fs2)) (TvStruct (vs1 ++ x :: vs2))) = TOk r /\
              tnorm (ThStruct (fs1 ++ TField id fl ft :: fs2)) r =
              tnorm (ThStruct (fs1 ++ TField id fl ft :: fs2)) (TvStruct (vs1 ++ zero_of ft :: vs2)).

(* the same for the items of a list: a list value whose item type differs from the declared one gives TypeMismatch in
   strict mode; otherwise it is consumed entirely, the previous value is kept, and decoding continues after it *)
Definition t_mismatch_list_statement : Prop :=
  forall p et et' v old flags fuel rest,
    ty_ok (ThList et') = true -> tval_wf (ThList et') v = true -> type_of et' <> type_of et ->
    (length (TMarshal p (ThList et') v) + tdepth (ThList et') <= fuel)%nat ->
    dec fuel p (ThList et) flags old (TMarshal p (ThList et') v ++ rest) =
      if has_flag flags f_strict then TErr EMismatch else TOk (old, rest).

(* ====================================================================== *)
(* What was listed here as not proved yet (nested unknown fields, the set and map variants of t_mismatch_list_statement,
   prefixes of alternative and widened encodings) is stated in Thrift/SpecD.v and proved in Thrift/ProofsD*.v; the end of
   SpecD.v lists what remains open. *)
