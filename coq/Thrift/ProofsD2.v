(* Thrift/ProofsD2.v: the prefix-aware (three-way) version of ProofsC.skip_all, for every header form.
   skipG_all: skipping a value of any supported type whose general encoding genc (either protocol, any choice of
   long / short header forms) has been cut at ANY offset j inside it fails with eofc j (io.EOF at j = 0,
   ErrUnexpectedEOF otherwise); on complete input it returns exactly what follows the value. *)
From Verif Require Import Base.GoInt Thrift.Model Thrift.Spec Thrift.SpecC Thrift.SpecD.
From Verif Require Thrift.ProofsA.
From Verif Require Import Thrift.ProofsB Thrift.ProofsC Thrift.ProofsD0.
From Coq Require Import Lia ZifyBool ZifyNat.
Open Scope Z_scope.

Definition skipG (t : tty) : Prop := forall p ch v fuel, ty_ok t = true -> tval_wf t v = true -> nilp v = false ->
  (length (genc ch p t v) + tdepth t <= fuel)%nat -> sk3 (skip fuel p (type_of t)) (genc ch p t v).

Lemma genc_len_pos ch p t v : ty_ok t = true -> tval_wf t v = true -> nilp v = false -> (1 <= length (genc ch p t v))%nat.
Proof.
  intros Hok Hwf Hn. destruct p; unfold genc, TMarshal; [apply enc_len_pos | apply lenA_all]; assumption.
Qed.

(* ---------- small facts about the three-way form ---------- *)
Lemma dee_sk3 (j n : nat) (x : bytes) :
  dont_expect_eof (if (j <? n)%nat then TErr (eofc j) else TOk x) = if (j <? n)%nat then TErr EUnexpectedEOF else TOk x.
Proof. destruct (j <? n)%nat; [apply dee_eofc | reflexivity]. Qed.
Lemma sk_err_hdr nf j : 0 <= nf ->
  (if (nf >? 0) && (match eofc j with EEOF => true | _ => false end) then EUnexpectedEOF else eofc j) =
  (if (nf =? 0) && (j =? 0)%nat then EEOF else EUnexpectedEOF).
Proof.
  intros H. unfold eofc. destruct j; cbn [Nat.eqb]; destruct (nf =? 0) eqn:E1; destruct (nf >? 0) eqn:E2; try reflexivity; lia.
Qed.
Lemma sk3_nil (S : bytes -> tres bytes) : (forall b, S b = TOk b) -> sk3 S [].
Proof. intros H j rest. rewrite H. cbn [app length Nat.ltb Nat.leb]. rewrite Nat.sub_0_r. reflexivity. Qed.

(* ---------- scalars ---------- *)
Lemma genc_scalar ch p t v : ty_ok t = true -> tval_wf t v = true ->
  (forall ch v, spec_enc_alt ch t v = spec_enc pkg_dev PCompact t v) -> genc ch p t v = enc p t v.
Proof. intros Hok Hwf H. destruct p; [reflexivity|]. unfold genc. apply alt_scalar_eq; assumption. Qed.

Lemma sk3_byte f p ty x : (1 <= f)%nat -> (ty = c_TRUE \/ ty = c_BOOL \/ ty = c_I8) -> sk3 (skip f p ty) [x].
Proof.
  intros Hf Hty. destruct f; [lia|]. intros j rest. rewrite ProofsA.skip_S. unfold ProofsA.skip_body.
  replace ((ty =? c_TRUE) || (ty =? c_BOOL) || (ty =? c_I8)) with true
    by (destruct Hty as [->|[->| ->]]; reflexivity).
  exact (sk3_of_rspec _ _ _ (r_byte_spec x) j rest).
Qed.
Lemma sk3_i16 f p z : (1 <= f)%nat -> - 2 ^ 15 <= z < 2 ^ 15 -> sk3 (skip f p c_I16) (w_i16 p z).
Proof.
  intros Hf Hz. destruct f; [lia|]. intros j rest. rewrite ProofsA.skip_S. unfold ProofsA.skip_body.
  unfold c_TRUE, c_BOOL, c_I8, c_I16. cbn [Z.eqb Pos.eqb orb].
  exact (sk3_of_rspec _ _ _ (r_i16_spec p z Hz) j rest).
Qed.
Lemma sk3_i32 f p z : (1 <= f)%nat -> - 2 ^ 31 <= z < 2 ^ 31 -> sk3 (skip f p c_I32) (w_i32 p z).
Proof.
  intros Hf Hz. destruct f; [lia|]. intros j rest. rewrite ProofsA.skip_S. unfold ProofsA.skip_body.
  unfold c_TRUE, c_BOOL, c_I8, c_I16, c_I32. cbn [Z.eqb Pos.eqb orb].
  exact (sk3_of_rspec _ _ _ (r_i32_spec p z Hz) j rest).
Qed.
Lemma sk3_i64 f p z : (1 <= f)%nat -> - 2 ^ 63 <= z < 2 ^ 63 -> sk3 (skip f p c_I64) (w_i64 p z).
Proof.
  intros Hf Hz. destruct f; [lia|]. intros j rest. rewrite ProofsA.skip_S. unfold ProofsA.skip_body.
  unfold c_TRUE, c_BOOL, c_I8, c_I16, c_I32, c_I64. cbn [Z.eqb Pos.eqb orb].
  exact (sk3_of_rspec _ _ _ (r_i64_spec p z Hz) j rest).
Qed.
Lemma sk3_f64 f p z : (1 <= f)%nat -> 0 <= z < 2 ^ 64 -> sk3 (skip f p c_DOUBLE) (w_f64 p z).
Proof.
  intros Hf Hz. destruct f; [lia|]. intros j rest. rewrite ProofsA.skip_S. unfold ProofsA.skip_body.
  unfold c_TRUE, c_BOOL, c_I8, c_I16, c_I32, c_I64, c_DOUBLE. cbn [Z.eqb Pos.eqb orb].
  exact (sk3_of_rspec _ _ _ (r_f64_spec p z Hz) j rest).
Qed.

(* the c_BINARY branch of skip: length, then that many bytes *)
Lemma skip_binary3 p s : len s < 2 ^ 31 ->
  sk3 (fun b => tlet (n, r) <- r_len p b in
               if n =? 0 then TOk r else if len r <? n then TErr EUnexpectedEOF else TOk (slice_from r n)) (w_bytes p s).
Proof.
  intros Hs j rest. cbv beta. unfold w_bytes. rewrite <- app_assoc.
  assert (Hn : 0 <= len s < 2 ^ 31) by (unfold len in *; lia).
  rewrite (r_len_spec p (len s) Hn j (s ++ rest)), tbind_res3.
  pose proof (w_len_length p (len s)) as Hl. rewrite app_length.
  set (h := length (w_len p (len s))) in *.
  destruct (Nat.ltb_spec j h) as [Hj|Hj].
  - replace (j <? h + length s)%nat with true by (symmetry; apply Nat.ltb_lt; lia). reflexivity.
  - destruct (len s =? 0) eqn:E0.
    + destruct s; [|unfold len in E0; cbn [length] in E0; lia]. cbn [app length].
      replace (j <? h + 0)%nat with false by (symmetry; apply Nat.ltb_ge; lia). do 2 f_equal. lia.
    + destruct (Nat.ltb_spec (j - h) (length s)) as [Hb|Hb].
      * rewrite firstn_app_lt by lia. unfold len at 1. rewrite firstn_length_le by lia.
        replace (Z.of_nat (j - h) <? len s) with true by (unfold len; lia).
        replace (j <? h + length s)%nat with true by (symmetry; apply Nat.ltb_lt; lia).
        rewrite eofc_pos by lia. reflexivity.
      * rewrite firstn_app_ge by lia. unfold len at 1. rewrite app_length.
        replace (Z.of_nat _ <? len s) with false by (unfold len; lia).
        replace (j <? h + length s)%nat with false by (symmetry; apply Nat.ltb_ge; lia).
        unfold slice_from, len. rewrite Nat2Z.id.
        rewrite skipn_app, Nat.sub_diag, skipn_all. cbn [app skipn].
        do 2 f_equal. lia.
Qed.
Lemma sk3_binary f p s : (1 <= f)%nat -> len s < 2 ^ 31 -> sk3 (skip f p c_BINARY) (w_bytes p s).
Proof.
  intros Hf Hs. destruct f; [lia|]. intros j rest. rewrite ProofsA.skip_S. unfold ProofsA.skip_body.
  unfold c_TRUE, c_BOOL, c_I8, c_I16, c_I32, c_I64, c_DOUBLE, c_BINARY. cbn [Z.eqb Pos.eqb orb].
  exact (skip_binary3 p s Hs j rest).
Qed.

Lemma skipG_bool : skipG ThBool.
Proof.
  intros p ch v fuel Hok Hwf _ Hf. rewrite (genc_scalar ch p ThBool v Hok Hwf) in * by (intros ch' v'; destruct v'; reflexivity).
  destruct v; try discriminate Hwf. cbn [enc type_of tdepth] in *. apply sk3_byte; [lia | auto].
Qed.
Lemma skipG_i8 : skipG ThI8.
Proof.
  intros p ch v fuel Hok Hwf _ Hf. rewrite (genc_scalar ch p ThI8 v Hok Hwf) in * by (intros ch' v'; destruct v'; reflexivity).
  destruct v; try discriminate Hwf. cbn [enc type_of tdepth] in *. apply sk3_byte; [lia | auto].
Qed.
Lemma skipG_i16 : skipG ThI16.
Proof.
  intros p ch v fuel Hok Hwf _ Hf. rewrite (genc_scalar ch p ThI16 v Hok Hwf) in * by (intros ch' v'; destruct v'; reflexivity).
  destruct v; try discriminate Hwf. cbn [enc type_of tdepth tval_wf] in *. apply sk3_i16; lia.
Qed.
Lemma skipG_i32 : skipG ThI32.
Proof.
  intros p ch v fuel Hok Hwf _ Hf. rewrite (genc_scalar ch p ThI32 v Hok Hwf) in * by (intros ch' v'; destruct v'; reflexivity).
  destruct v; try discriminate Hwf. cbn [enc type_of tdepth tval_wf] in *. apply sk3_i32; lia.
Qed.
Lemma skipG_i64 : skipG ThI64.
Proof.
  intros p ch v fuel Hok Hwf _ Hf. rewrite (genc_scalar ch p ThI64 v Hok Hwf) in * by (intros ch' v'; destruct v'; reflexivity).
  destruct v; try discriminate Hwf. cbn [enc type_of tdepth tval_wf] in *. apply sk3_i64; lia.
Qed.
Lemma skipG_f64 : skipG ThF64.
Proof.
  intros p ch v fuel Hok Hwf _ Hf. rewrite (genc_scalar ch p ThF64 v Hok Hwf) in * by (intros ch' v'; destruct v'; reflexivity).
  destruct v; try discriminate Hwf. cbn [enc type_of tdepth tval_wf] in *. apply sk3_f64; lia.
Qed.
Lemma skipG_str : skipG ThStr.
Proof.
  intros p ch v fuel Hok Hwf _ Hf. rewrite (genc_scalar ch p ThStr v Hok Hwf) in * by (intros ch' v'; destruct v'; reflexivity).
  destruct v; try discriminate Hwf. cbn [enc type_of tdepth tval_wf] in *. unfold tlim in Hwf. apply sk3_binary; lia.
Qed.
Lemma skipG_bytes : skipG ThBytes.
Proof.
  intros p ch v fuel Hok Hwf _ Hf. rewrite (genc_scalar ch p ThBytes v Hok Hwf) in * by (intros ch' v'; destruct v'; reflexivity).
  destruct v; try discriminate Hwf. cbn [enc type_of tdepth tval_wf] in *. unfold tlim in Hwf. apply sk3_binary; lia.
Qed.

(* ---------- pointers ---------- *)
Lemma skipG_ptr t : skipG t -> skipG (ThPtr t).
Proof.
  intros IH p ch v fuel Hok Hwf Hn Hf. destruct v; try discriminate Hwf. destruct o; [|discriminate Hn].
  cbn [ty_ok] in Hok. apply andb_true_iff in Hok. destruct Hok as [Hok1 Hok2].
  rewrite genc_ptr_eq in *. cbn [type_of tval_wf tdepth] in *.
  apply IH; try assumption; [eapply wf_not_ptr; eauto | lia].
Qed.

(* ====================================================================== *)
(* ---------- the item loop of lists and sets (also skip_items), three-way, over abstract item encodings ---------- *)
Lemma sk_list3 (skipf : Z -> bytes -> tres bytes) (ty : Z) : forall ws,
  Forall (fun w => (1 <= length w)%nat /\ sk3 (skipf ty) w) ws ->
  forall K j rest, (length (firstn j (concat ws ++ rest)) < K)%nat ->
  ProofsA.sk_list skipf ty K (len ws) (firstn j (concat ws ++ rest)) =
    if (j <? length (concat ws))%nat then TErr EUnexpectedEOF else TOk (firstn (j - length (concat ws)) rest).
Proof.
  induction ws as [|w ws' IHw]; intros HF K j rest HK; rewrite sk_list_eq.
  - cbn. rewrite Nat.sub_0_r. reflexivity.
  - replace (len (w :: ws') <=? 0) with false by (unfold len; cbn [length]; lia).
    destruct K as [|K']; [lia|]. inversion HF as [|? ? [Hw1 Hw2] HF']; subst.
    cbn [concat] in *. rewrite app_length in *. rewrite <- app_assoc in *.
    rewrite (Hw2 j (concat ws' ++ rest)), dee_sk3.
    destruct (Nat.ltb_spec j (length w)) as [Hj|Hj].
    + replace (j <? _)%nat with true by (symmetry; apply Nat.ltb_lt; lia). reflexivity.
    + cbn [tbind]. replace (len (w :: ws') - 1) with (len ws') by (unfold len; cbn [length]; lia).
      rewrite IHw; [| exact HF' | eapply firstn_len_step; eauto].
      destruct (Nat.ltb_spec (j - length w) (length (concat ws'))).
      * replace (j <? _)%nat with true by (symmetry; apply Nat.ltb_lt; lia). reflexivity.
      * replace (j <? _)%nat with false by (symmetry; apply Nat.ltb_ge; lia). do 2 f_equal. lia.
Qed.

(* ---------- the entry loop of maps (also skip_entries), three-way, over abstract key / value encodings ---------- *)
Definition pcat (wd : bytes * bytes) : bytes := fst wd ++ snd wd.
Lemma sk_map3 (skipf : Z -> bytes -> tres bytes) (kt vt : Z) : forall ws,
  Forall (fun wd => (1 <= length (fst wd))%nat /\ sk3 (skipf kt) (fst wd) /\ sk3 (skipf vt) (snd wd)) ws ->
  forall K j rest, (length (firstn j (concat (map pcat ws) ++ rest)) < K)%nat ->
  ProofsA.sk_map skipf kt vt K (len ws) (firstn j (concat (map pcat ws) ++ rest)) =
    if (j <? length (concat (map pcat ws)))%nat then TErr EUnexpectedEOF
    else TOk (firstn (j - length (concat (map pcat ws))) rest).
Proof.
  induction ws as [|[wk wv] ws' IHw]; intros HF K j rest HK; rewrite sk_map_eq.
  - cbn. rewrite Nat.sub_0_r. reflexivity.
  - replace (len ((wk, wv) :: ws') <=? 0) with false by (unfold len; cbn [length]; lia).
    destruct K as [|K']; [lia|]. inversion HF as [|? ? [Hw1 [Hw2 Hw3]] HF']; subst. cbn [fst snd] in *.
    cbn [map concat] in *. unfold pcat at 1 in HK. unfold pcat at 1. unfold pcat at 2. unfold pcat at 3. cbn [fst snd] in *.
    rewrite !app_length in *. rewrite <- !app_assoc in *.
    rewrite (Hw2 j (wv ++ concat (map pcat ws') ++ rest)), dee_sk3.
    destruct (Nat.ltb_spec j (length wk)) as [Hj|Hj].
    + replace (j <? _)%nat with true by (symmetry; apply Nat.ltb_lt; lia). reflexivity.
    + cbn [tbind]. rewrite (Hw3 (j - length wk)%nat (concat (map pcat ws') ++ rest)), dee_sk3.
      destruct (Nat.ltb_spec (j - length wk) (length wv)) as [Hj2|Hj2].
      * replace (j <? _)%nat with true by (symmetry; apply Nat.ltb_lt; lia). reflexivity.
      * cbn [tbind]. replace (len ((wk, wv) :: ws') - 1) with (len ws') by (unfold len; cbn [length]; lia).
        rewrite IHw; [| exact HF' | revert HK; rewrite !firstn_length, !app_length; lia].
        destruct (Nat.ltb_spec (j - length wk - length wv) (length (concat (map pcat ws')))).
        -- replace (j <? _)%nat with true by (symmetry; apply Nat.ltb_lt; lia). reflexivity.
        -- replace (j <? _)%nat with false by (symmetry; apply Nat.ltb_ge; lia). do 2 f_equal. lia.
Qed.

(* ---------- the item encodings of a general list / set value ---------- *)
Fixpoint g_ws (ch : choice) (p : proto) (et : tty) (i : nat) (es : list tval) : list bytes :=
  match es with [] => [] | x :: r => genc (sub ch i) p et x :: g_ws ch p et (S i) r end.
Lemma g_ws_bytes ch p et : forall es i, concat (g_ws ch p et i es) = genc_elems ch p et i es.
Proof. induction es as [|x r IH]; intros i; [reflexivity|]. cbn [g_ws concat]. rewrite genc_elems_cons, IH. reflexivity. Qed.
Lemma g_ws_len ch p et : forall es i, len (g_ws ch p et i es) = len es.
Proof. induction es as [|x r IH]; intros i; [reflexivity|]. unfold len in *. cbn [g_ws length]. specialize (IH (S i)). lia. Qed.
Lemma g_ws_ok f ch p et : skipG et -> ty_ok et = true -> forall es i,
  Forall (fun x => tval_wf et x = true /\ nilp x = false) es ->
  (length (genc_elems ch p et i es) + tdepth et <= f)%nat ->
  Forall (fun w => (1 <= length w)%nat /\ sk3 (skip f p (type_of et)) w) (g_ws ch p et i es).
Proof.
  intros IH Hok. induction es as [|x r IHr]; intros i HF Hf; [constructor|].
  inversion HF as [|? ? [Hx1 Hx2] HF']; subst. rewrite genc_elems_cons, app_length in Hf. cbn [g_ws]. constructor.
  - split; [apply genc_len_pos; assumption|]. apply IH; try assumption. lia.
  - apply IHr; [exact HF' | lia].
Qed.

Lemma sk_list_g3 f ch p et : skipG et -> ty_ok et = true -> forall es,
  Forall (fun x => tval_wf et x = true /\ nilp x = false) es ->
  (length (genc_elems ch p et O es) + tdepth et <= f)%nat ->
  forall K j rest, (length (firstn j (genc_elems ch p et O es ++ rest)) < K)%nat ->
  ProofsA.sk_list (skip f p) (type_of et) K (len es) (firstn j (genc_elems ch p et O es ++ rest)) =
    if (j <? length (genc_elems ch p et O es))%nat then TErr EUnexpectedEOF
    else TOk (firstn (j - length (genc_elems ch p et O es)) rest).
Proof.
  intros IH Hok es HF Hf K j rest HK.
  rewrite <- (g_ws_bytes ch p et es O) in *. rewrite <- (g_ws_len ch p et es O).
  apply sk_list3; [apply g_ws_ok; try assumption; rewrite <- g_ws_bytes; exact Hf | exact HK].
Qed.

(* header + items: shared by lists and sets *)
Lemma skip_coll3 f ch p et cty es : (cty = c_LIST \/ cty = c_SET) -> skipG et -> ty_ok et = true -> len es < 2 ^ 31 ->
  Forall (fun x => tval_wf et x = true /\ nilp x = false) es ->
  (length (gl_hdr ch p (type_of et) (len es) ++ genc_elems ch p et O es) + tdepth et <= f)%nat ->
  sk3 (skip (S f) p cty) (gl_hdr ch p (type_of et) (len es) ++ genc_elems ch p et O es).
Proof.
  intros Hc IH Hok Hlen HF Hf j rest. rewrite ProofsA.skip_S. unfold ProofsA.skip_body.
  replace ((cty =? c_TRUE) || (cty =? c_BOOL) || (cty =? c_I8)) with false by (destruct Hc as [->| ->]; reflexivity).
  replace (cty =? c_I16) with false by (destruct Hc as [->| ->]; reflexivity).
  replace (cty =? c_I32) with false by (destruct Hc as [->| ->]; reflexivity).
  replace (cty =? c_I64) with false by (destruct Hc as [->| ->]; reflexivity).
  replace (cty =? c_DOUBLE) with false by (destruct Hc as [->| ->]; reflexivity).
  replace (cty =? c_BINARY) with false by (destruct Hc as [->| ->]; reflexivity).
  replace ((cty =? c_LIST) || (cty =? c_SET)) with true by (destruct Hc as [->| ->]; reflexivity).
  pose proof (type_of_range et) as Hty. rewrite <- app_assoc.
  rewrite (gl_hdr_rspec ch p (type_of et) (len es) ltac:(unfold len in *; lia) ltac:(lia) j), tbind_res3.
  rewrite app_length in *. pose proof (gl_hdr_len ch p (type_of et) (len es)) as Hh.
  set (h := length (gl_hdr ch p (type_of et) (len es))) in *.
  destruct (Nat.ltb_spec j h) as [Hj|Hj].
  - replace (j <? h + _)%nat with true by (symmetry; apply Nat.ltb_lt; lia). reflexivity.
  - cbv iota beta. rewrite (sk_list_g3 f ch p et IH Hok es HF ltac:(lia)) by lia.
    destruct (Nat.ltb_spec (j - h) (length (genc_elems ch p et O es))).
    + replace (j <? h + _)%nat with true by (symmetry; apply Nat.ltb_lt; lia). rewrite eofc_pos by lia. reflexivity.
    + replace (j <? h + _)%nat with false by (symmetry; apply Nat.ltb_ge; lia). do 2 f_equal. lia.
Qed.

Lemma skipG_list et : skipG et -> skipG (ThList et).
Proof.
  intros IH p ch v fuel Hok Hwf Hn Hf. destruct v; try discriminate Hwf. destruct fuel; [simpl in Hf; lia|].
  cbn [ty_ok] in Hok. apply wf_list_inv in Hwf. destruct Hwf as [Hlen HF]. unfold tlim in Hlen.
  rewrite genc_list_eq in *. cbn [type_of tdepth] in *.
  apply skip_coll3; try assumption; [left; reflexivity | lia].
Qed.
Lemma skipG_set kt : skipG kt -> skipG (ThSet kt).
Proof.
  intros IH p ch v fuel Hok Hwf Hn Hf. destruct v; try discriminate Hwf. destruct fuel; [simpl in Hf; lia|].
  cbn [ty_ok] in Hok. apply wf_set_inv in Hwf. destruct Hwf as [Hlen HD]. unfold tlim in Hlen.
  destruct (sdist_split kt ks HD) as [HW _].
  rewrite genc_set_eq in *. cbn [type_of tdepth] in *.
  apply skip_coll3; try assumption; [right; reflexivity | destruct kt; try discriminate Hok; reflexivity | | lia].
  clear - HW Hok. induction HW as [|x r Hx HW IHr]; constructor; [|exact IHr]. split; [exact Hx | apply (key_facts kt x Hok Hx)].
Qed.

(* ---------- maps ---------- *)
Fixpoint g_pws (ch : choice) (p : proto) (kt vt : tty) (i : nat) (es : list (tval * tval)) : list (bytes * bytes) :=
  match es with
  | [] => []
  | kx :: r => (genc (sub ch (2 * i)) p kt (fst kx), genc (sub ch (2 * i + 1)) p vt (snd kx)) :: g_pws ch p kt vt (S i) r
  end.
Lemma g_pws_bytes ch p kt vt : forall es i, concat (map pcat (g_pws ch p kt vt i es)) = genc_pairs ch p kt vt i es.
Proof.
  induction es as [|kx r IH]; intros i; [reflexivity|]. cbn [g_pws map concat]. rewrite genc_pairs_cons, IH.
  unfold pcat at 1. cbn [fst snd]. rewrite <- app_assoc. reflexivity.
Qed.
Lemma g_pws_len ch p kt vt : forall es i, len (g_pws ch p kt vt i es) = len es.
Proof. induction es as [|x r IH]; intros i; [reflexivity|]. unfold len in *. cbn [g_pws length]. specialize (IH (S i)). lia. Qed.
Lemma g_pws_ok f ch p kt vt : skipG kt -> skipG vt -> is_key_ty kt = true -> ty_ok vt = true -> forall es i,
  mdist kt vt es ->
  (length (genc_pairs ch p kt vt i es) + Nat.max (tdepth kt) (tdepth vt) <= f)%nat ->
  Forall (fun wd => (1 <= length (fst wd))%nat /\ sk3 (skip f p (type_of kt)) (fst wd) /\ sk3 (skip f p (type_of vt)) (snd wd))
         (g_pws ch p kt vt i es).
Proof.
  intros IHk IHv Hkey Hokv. induction es as [|[k x] r IHr]; intros i HD Hf; [constructor|].
  cbn [mdist fst snd] in HD. destruct HD as [Hk1 [Hx1 [Hx2 [_ HD]]]].
  destruct (key_facts kt k Hkey Hk1) as [_ [Hk2 Hokk]].
  rewrite genc_pairs_cons, !app_length in Hf. cbn [fst snd] in Hf. cbn [g_pws fst snd]. constructor.
  - cbn [fst snd]. split; [apply genc_len_pos; assumption|]. split.
    + apply IHk; try assumption. lia.
    + apply IHv; try assumption. lia.
  - apply IHr; [exact HD | lia].
Qed.

Lemma skipG_map kt vt : skipG kt -> skipG vt -> skipG (ThMap kt vt).
Proof.
  intros IHk IHv p ch v fuel Hok Hwf Hn Hf. destruct v; try discriminate Hwf. destruct fuel as [|f]; [simpl in Hf; lia|].
  cbn [ty_ok] in Hok. apply andb_true_iff in Hok. destruct Hok as [Hok _]. apply andb_true_iff in Hok. destruct Hok as [Hkey Hokv].
  apply wf_map_inv in Hwf. destruct Hwf as [Hlen HD]. unfold tlim in Hlen.
  rewrite genc_map_eq in *. cbn [type_of tdepth] in *.
  pose proof (type_of_range kt) as Htk. pose proof (type_of_range vt) as Htv.
  intros j rest. rewrite ProofsA.skip_S. unfold ProofsA.skip_body.
  unfold c_TRUE, c_BOOL, c_I8, c_I16, c_I32, c_I64, c_DOUBLE, c_BINARY, c_LIST, c_SET, c_MAP. cbn [Z.eqb Pos.eqb orb].
  rewrite <- app_assoc.
  rewrite (r_map_spec p (len es) (type_of kt) (type_of vt) ltac:(unfold len in *; lia) ltac:(lia) ltac:(lia) j), tbind_res3.
  rewrite app_length in *. pose proof (w_map_length p (len es) (type_of kt) (type_of vt)) as Hh.
  set (h := length (w_map p (len es) (type_of kt) (type_of vt))) in *.
  destruct (Nat.ltb_spec j h) as [Hj|Hj].
  { replace (j <? h + _)%nat with true by (symmetry; apply Nat.ltb_lt; lia). reflexivity. }
  destruct (len es =? 0) eqn:E0.
  - destruct es; [|unfold len in E0; cbn [length] in E0; lia].
    cbn [genc_pairs app length]. replace (j <? h + 0)%nat with false by (symmetry; apply Nat.ltb_ge; lia).
    replace (map_res p (len []) (type_of kt) (type_of vt)) with (0, (if p then type_of kt else 0), (if p then type_of vt else 0)) by (destruct p; reflexivity).
    cbv iota beta. rewrite ProofsC.sk_map_eq. cbn [Z.leb Z.compare]. do 2 f_equal. lia.
  - replace (map_res p (len es) (type_of kt) (type_of vt)) with (len es, type_of kt, type_of vt) by (unfold map_res; rewrite E0; destruct p; reflexivity).
    cbv iota beta.
    rewrite <- (g_pws_bytes ch p kt vt es O) in *. rewrite <- (g_pws_len ch p kt vt es O).
    rewrite sk_map3; [ | apply g_pws_ok; try assumption; rewrite <- g_pws_bytes; lia | lia].
    destruct (Nat.ltb_spec (j - h) (length (concat (map pcat (g_pws ch p kt vt 0 es))))).
    + replace (j <? h + _)%nat with true by (symmetry; apply Nat.ltb_lt; lia). rewrite eofc_pos by lia. reflexivity.
    + replace (j <? h + _)%nat with false by (symmetry; apply Nat.ltb_ge; lia). do 2 f_equal. lia.
Qed.

(* ====================================================================== *)
(* ---------- the field loop of structs, three-way, over a general field sequence with abstract bodies ---------- *)
Lemma sk_struct3 f p : forall l last K nf j rest,
  (forall e, In e l -> fskip (g_fd e) (g_x e) = false ->
     1 <= fld_id (g_fd e) < 2 ^ 15 /\
     (coalesce p (type_of (fld_ty (g_fd e))) = false -> sk3 (skip f p (type_of (fld_ty (g_fd e)))) (g_body e))) ->
  asc last (map eid l) -> 0 <= last -> 0 <= nf -> (length (gen_go p l last) <= K)%nat ->
  ProofsA.sk_struct p (skip f p) K (firstn j (gen_go p l last ++ rest)) last nf =
    if (j <? length (gen_go p l last))%nat then TErr (if (nf =? 0) && (j =? 0)%nat then EEOF else EUnexpectedEOF)
    else TOk (firstn (j - length (gen_go p l last)) rest).
Proof.
  induction l as [|e l' IHl]; intros last K nf j rest Hent Hasc Hlast Hnf HK.
  - cbn [gen_go] in *. pose proof (stop_length p) as Hsl. destruct K as [|K']; [lia|].
    rewrite sk_struct_S, (r_field_stop_spec p j rest).
    destruct (Nat.ltb_spec j (length (w_field p 0 c_STOP))).
    + rewrite res3_lt by lia. cbv iota. f_equal. apply sk_err_hdr. exact Hnf.
    + rewrite res3_ge by lia. reflexivity.
  - assert (Hent' : forall e', In e' l' -> fskip (g_fd e') (g_x e') = false ->
       1 <= fld_id (g_fd e') < 2 ^ 15 /\ (coalesce p (type_of (fld_ty (g_fd e'))) = false ->
        sk3 (skip f p (type_of (fld_ty (g_fd e')))) (g_body e'))) by (intros e' He'; apply Hent; right; exact He').
    cbn [map asc] in Hasc. destruct Hasc as [Hlt Hasc]. change (eid e) with (fld_id (g_fd e)) in *.
    cbn [gen_go] in *. destruct (fskip (g_fd e) (g_x e)) eqn:Es.
    + apply IHl; try assumption. eapply asc_weaken; [|exact Hasc]. lia.
    + destruct (Hent e (or_introl eq_refl) Es) as [Hid Hsk]. cbv zeta in *.
      set (ty := type_of (fld_ty (g_fd e))) in *.
      set (wty := if coalesce p ty && deref_bool (g_x e) then c_TRUE else ty) in *.
      assert (Hty : 2 <= ty <= 12) by apply type_of_range.
      assert (Hwty : 1 <= wty <= 12) by (unfold wty, c_TRUE; destruct (coalesce p ty && deref_bool (g_x e)); lia).
      destruct (ghdr_rspec p (g_long e) last (fld_id (g_fd e)) wty ltac:(lia) ltac:(lia) Hwty) as [rid [isd [Hh Hrid]]].
      pose proof (ghdr_len p (g_long e) last (fld_id (g_fd e)) wty) as Hhl.
      pose proof (gen_go_len_pos p l' (fld_id (g_fd e))) as Hgl.
      set (B := if coalesce p ty then [] else g_body e) in *.
      set (H := ghdr p (g_long e) last (fld_id (g_fd e)) wty) in *.
      rewrite !app_length in *. destruct K as [|K']; [lia|].
      rewrite sk_struct_S. rewrite <- !app_assoc. rewrite (Hh j (B ++ gen_go p l' (fld_id (g_fd e)) ++ rest)).
      destruct (Nat.ltb_spec j (length H)) as [Hj|Hj].
      { rewrite res3_lt by lia. replace (j <? _)%nat with true by (symmetry; apply Nat.ltb_lt; lia).
        cbv iota. f_equal. apply sk_err_hdr. exact Hnf. }
      rewrite res3_ge by lia.
      cbv iota beta. replace (wty =? c_STOP) with false by (unfold c_STOP; lia). cbv zeta. rewrite Hrid.
      assert (Hnf1 : 0 <= nf + 1) by lia.
      assert (Hl1 : 0 <= fld_id (g_fd e)) by lia.
      unfold wty, B in *. clear wty B. destruct (coalesce p ty) eqn:Ec.
      * destruct p; [discriminate Ec|]. cbn [coalesce] in Ec. assert (Ety : ty = c_BOOL) by lia.
        cbn [andb app length] in *. rewrite Ety in *.
        replace ((((if deref_bool (g_x e) then c_TRUE else c_BOOL) =? c_TRUE) || ((if deref_bool (g_x e) then c_TRUE else c_BOOL) =? c_BOOL)) && true) with true by (destruct (deref_bool (g_x e)); reflexivity).
        cbn [dont_expect_eof tbind].
        rewrite (IHl (fld_id (g_fd e)) K' (nf + 1) (j - length H)%nat rest Hent' Hasc Hl1 Hnf1) by lia.
        destruct (Nat.ltb_spec (j - length H) (length (gen_go PCompact l' (fld_id (g_fd e))))).
        -- replace (j <? _)%nat with true by (symmetry; apply Nat.ltb_lt; lia).
           replace (nf + 1 =? 0) with false by lia. replace (j =? 0)%nat with false by (symmetry; apply Nat.eqb_neq; lia).
           rewrite andb_false_r. reflexivity.
        -- replace (j <? _)%nat with false by (symmetry; apply Nat.ltb_ge; lia). do 2 f_equal. lia.
      * cbn [andb] in *.
        replace (((ty =? c_TRUE) || (ty =? c_BOOL)) && (match p with PCompact => true | PBinary => false end)) with false.
        2:{ destruct p; [rewrite andb_false_r; reflexivity|]. cbn [coalesce] in Ec. rewrite Ec. replace (ty =? c_TRUE) with false by (unfold c_TRUE; lia). reflexivity. }
        rewrite (Hsk eq_refl (j - length H)%nat (gen_go p l' (fld_id (g_fd e)) ++ rest)), dee_sk3.
        destruct (Nat.ltb_spec (j - length H) (length (g_body e))) as [Hb|Hb].
        -- replace (j <? _)%nat with true by (symmetry; apply Nat.ltb_lt; lia). cbn [tbind].
           replace (j =? 0)%nat with false by (symmetry; apply Nat.eqb_neq; lia). rewrite andb_false_r. reflexivity.
        -- cbn [tbind].
           rewrite (IHl (fld_id (g_fd e)) K' (nf + 1) (j - length H - length (g_body e))%nat rest Hent' Hasc Hl1 Hnf1) by lia.
           destruct (Nat.ltb_spec (j - length H - length (g_body e)) (length (gen_go p l' (fld_id (g_fd e))))).
           ++ replace (j <? _)%nat with true by (symmetry; apply Nat.ltb_lt; lia).
              replace (nf + 1 =? 0) with false by lia. replace (j =? 0)%nat with false by (symmetry; apply Nat.eqb_neq; lia).
              rewrite andb_false_r. reflexivity.
           ++ replace (j <? _)%nat with false by (symmetry; apply Nat.ltb_ge; lia). do 2 f_equal. lia.
Qed.

(* one field body of the general encoding, skipped (enum fields carry an int32 body) *)
Lemma gbody_skip3 f ch p i fd x : fgood fd x -> skipG (fld_ty fd) -> nilp x = false ->
  (length (gbody ch p i fd x) + tdepth (fld_ty fd) <= f)%nat ->
  sk3 (skip f p (type_of (fld_ty fd))) (gbody ch p i fd x).
Proof.
  intros [Hid [Hok [Hwf [Hen _]]]] IH Hn Hf.
  destruct (has_flag (fld_flags fd) f_enum) eqn:E.
  - pose proof (Hen eq_refl) as Ht. rewrite Ht in *. destruct x; try discriminate Hwf. cbn [tval_wf] in Hwf.
    rewrite (gbody_enum ch p i fd z E Ht ltac:(lia)) in *. cbn [type_of tdepth] in *. apply sk3_i32; lia.
  - rewrite (gbody_noenum ch p i fd x E) in *. apply IH; assumption.
Qed.

Lemma skipG_struct fs : Forall (fun f => skipG (fld_ty f)) fs -> skipG (ThStruct fs).
Proof.
  intros HP p ch v fuel Hok Hwf Hn Hf. destruct v; try discriminate Hwf.
  destruct (struct_good fs vs Hok Hwf ltac:(apply Forall_forall; intros; apply main_all)) as [Hnd HF].
  destruct (tdepth_struct fs) as [D [HD1 HD2]]. rewrite HD1 in Hf.
  destruct fuel as [|f]; [lia|].
  assert (Hlen : length vs = length fs) by (symmetry; eapply Forall2_len; eauto).
  assert (Hids : forall fd, In fd fs -> 1 <= fld_id fd < 2 ^ 15) by (intros fd Hfd; destruct (Forall2_in_l _ _ _ _ HF Hfd) as [b [Hb _]]; lia).
  destruct (sort_by_id_spec (g_mk ch p O fs vs) 0) as [Hasc Hin].
  { rewrite g_mk_ids by exact Hlen. exact Hnd. }
  { intros e He. destruct (g_mk_in ch p fs vs O e He) as [i [Hi _]]. unfold eid. apply nth_error_In in Hi.
    specialize (Hids _ Hi). unfold g_fd in Hids. lia. }
  rewrite (genc_struct_eq ch p fs vs Hnd Hids Hlen) in *.
  intros j rest. rewrite ProofsA.skip_S. unfold ProofsA.skip_body. cbn [type_of].
  unfold c_TRUE, c_BOOL, c_I8, c_I16, c_I32, c_I64, c_DOUBLE, c_BINARY, c_LIST, c_SET, c_MAP, c_STRUCT. cbn [Z.eqb Pos.eqb orb].
  rewrite (sk_struct3 f p (sort_by_id (g_mk ch p O fs vs)) 0 f 0 j rest); try lia; try assumption.
  - destruct (j <? _)%nat; [|reflexivity]. unfold eofc. rewrite Z.eqb_refl. cbn [andb]. reflexivity.
  - intros e He Hs. pose proof He as He1. apply Hin in He1.
    destruct (g_mk_in ch p fs vs O e He1) as [i [Hi1 [Hi2 Hi3]]]. cbn [Nat.add] in Hi3.
    pose proof (Forall2_nth_error _ _ _ _ _ _ HF Hi1 Hi2) as Hg.
    split; [apply Hids; eapply nth_error_In; eauto|]. intros Hc.
    pose proof (gen_go_body_len p _ 0 e He Hs Hc) as Hbl.
    assert (HDe : (tdepth (fld_ty (g_fd e)) <= D)%nat) by (apply HD2; eapply nth_error_In; eauto).
    rewrite Hi3 in *. apply gbody_skip3; try assumption.
    + apply (proj1 (Forall_forall _ fs) HP). eapply nth_error_In; eauto.
    + unfold fskip in Hs. apply orb_false_elim in Hs. apply Hs.
    + clear - Hbl HDe Hf. lia.
Qed.

Theorem skipG_all : forall t, skipG t.
Proof.
  apply tty_ind'.
  - exact skipG_bool. - exact skipG_i8. - exact skipG_i16. - exact skipG_i32. - exact skipG_i64. - exact skipG_f64.
  - exact skipG_str. - exact skipG_bytes. - exact skipG_list. - exact skipG_set. - exact skipG_map. - exact skipG_struct. - exact skipG_ptr.
Qed.

(* corollaries: complete input, and a cut strictly inside the value *)
Corollary skipG_full t p ch v fuel rest : ty_ok t = true -> tval_wf t v = true -> nilp v = false ->
  (length (genc ch p t v) + tdepth t <= fuel)%nat -> skip fuel p (type_of t) (genc ch p t v ++ rest) = TOk rest.
Proof. intros Hok Hwf Hn Hf. apply sk3_full. apply skipG_all; assumption. Qed.
Corollary skipG_prefix t p ch v fuel j : ty_ok t = true -> tval_wf t v = true -> nilp v = false ->
  (length (genc ch p t v) + tdepth t <= fuel)%nat -> (j < length (genc ch p t v))%nat ->
  skip fuel p (type_of t) (firstn j (genc ch p t v)) = TErr (eofc j).
Proof.
  intros Hok Hwf Hn Hf Hj. pose proof (skipG_all t p ch v fuel Hok Hwf Hn Hf j []) as H. rewrite app_nil_r in H.
  replace (j <? length (genc ch p t v))%nat with true in H by (symmetry; apply Nat.ltb_lt; lia). exact H.
Qed.
