(* A declared collection field whose wire item / key / value type differs from the declared one, on the level of the
   enclosing struct: three-way (prefix-aware) skipping of the whole collection in non-strict mode, the other fields
   being decoded as usual (struct_core of ProofsD3.v); TypeMismatch in strict mode. *)
From Verif Require Import Base.GoInt Thrift.Model Thrift.Spec Thrift.SpecC Thrift.SpecD.
From Verif Require Thrift.ProofsA.
From Verif Require Import Thrift.ProofsB Thrift.ProofsC Thrift.ProofsD0 Thrift.ProofsD2 Thrift.ProofsD3.
From Verif Require Thrift.ProofsD1.
From Coq Require Import Lia ZifyBool ZifyNat.
Open Scope Z_scope.

(* ---------- one collection, non-strict, three-way ---------- *)
Lemma mism3_list f p ch et et' nn es fl old : ty_ok et' = true -> tval_wf (ThList et') (TvList nn es) = true ->
  type_of et' <> type_of et -> has_flag fl f_strict = false ->
  (length (genc ch p (ThList et') (TvList nn es)) + tdepth (ThList et') <= S f)%nat ->
  rspec (dec (S f) p (ThList et) fl old) (genc ch p (ThList et') (TvList nn es)) old.
Proof.
  intros Hok Hwf Htne Hns Hf. apply wf_list_inv in Hwf. destruct Hwf as [Hlen HF].
  rewrite genc_list_eq in *. rewrite app_length in Hf. cbn [tdepth] in Hf.
  intros j rest. rewrite dec_list_eq. rewrite <- app_assoc.
  pose proof (type_of_range et') as Hty. unfold tlim in Hlen.
  rewrite (gl_hdr_rspec ch p (type_of et') (len es) ltac:(unfold len in *; lia) ltac:(lia) j), tbind_res3.
  rewrite app_length. pose proof (gl_hdr_len ch p (type_of et') (len es)) as Hh.
  destruct (Nat.ltb_spec j (length (gl_hdr ch p (type_of et') (len es)))); [rewrite res3_lt by lia; reflexivity|].
  cbv zeta. replace (type_of et' =? c_TRUE) with false by (unfold c_TRUE; lia).
  replace (type_of et =? type_of et') with false by (symmetry; apply Z.eqb_neq; congruence). cbn [negb]. rewrite Hns.
  rewrite ProofsA.skip_items_eq.
  rewrite (sk_list_g3 f ch p et' (skipG_all et') Hok es HF ltac:(lia)) by lia.
  destruct (Nat.ltb_spec (j - length (gl_hdr ch p (type_of et') (len es))) (length (genc_elems ch p et' 0 es))).
  - rewrite res3_lt by lia. rewrite eofc_pos by lia. reflexivity.
  - rewrite res3_ge by lia. cbn [tbind]. do 3 f_equal. lia.
Qed.

Lemma mism3_set f p ch kt et' nn es fl old : ty_ok et' = true -> tval_wf (ThList et') (TvList nn es) = true ->
  type_of et' <> type_of kt -> has_flag fl f_strict = false ->
  (length (genc ch p (ThList et') (TvList nn es)) + tdepth (ThList et') <= S f)%nat ->
  rspec (dec (S f) p (ThSet kt) fl old) (genc ch p (ThList et') (TvList nn es)) (TvSet true []).
Proof.
  intros Hok Hwf Htne Hns Hf. apply wf_list_inv in Hwf. destruct Hwf as [Hlen HF].
  rewrite genc_list_eq in *. rewrite app_length in Hf. cbn [tdepth] in Hf.
  intros j rest. rewrite dec_set_eq. rewrite <- app_assoc.
  pose proof (type_of_range et') as Hty. unfold tlim in Hlen.
  rewrite (gl_hdr_rspec ch p (type_of et') (len es) ltac:(unfold len in *; lia) ltac:(lia) j), tbind_res3.
  rewrite app_length. pose proof (gl_hdr_len ch p (type_of et') (len es)) as Hh.
  destruct (Nat.ltb_spec j (length (gl_hdr ch p (type_of et') (len es)))); [rewrite res3_lt by lia; reflexivity|].
  cbv zeta. replace (type_of et' =? c_TRUE) with false by (unfold c_TRUE; lia).
  replace (len es <? 0) with false by (unfold len; lia).
  destruct (len es =? 0) eqn:E0.
  - destruct es; [|unfold len in E0; cbn [length] in E0; lia]. cbn [genc_elems app length].
    rewrite res3_ge by lia. do 3 f_equal. lia.
  - replace (type_of kt =? type_of et') with false by (symmetry; apply Z.eqb_neq; congruence). cbn [negb]. rewrite Hns.
    rewrite ProofsA.skip_items_eq.
    rewrite (sk_list_g3 f ch p et' (skipG_all et') Hok es HF ltac:(lia)) by lia.
    destruct (Nat.ltb_spec (j - length (gl_hdr ch p (type_of et') (len es))) (length (genc_elems ch p et' 0 es))).
    + rewrite res3_lt by lia. rewrite eofc_pos by lia. reflexivity.
    + rewrite res3_ge by lia. cbn [tbind]. do 3 f_equal. lia.
Qed.

Lemma mism3_map f p ch kt vt kt' vt' nn es fl old : ty_ok (ThMap kt' vt') = true -> tval_wf (ThMap kt' vt') (TvMap nn es) = true ->
  (type_of kt' <> type_of kt \/ type_of vt' <> type_of vt) -> has_flag fl f_strict = false ->
  (length (genc ch p (ThMap kt' vt') (TvMap nn es)) + tdepth (ThMap kt' vt') <= S f)%nat ->
  rspec (dec (S f) p (ThMap kt vt) fl old) (genc ch p (ThMap kt' vt') (TvMap nn es)) (TvMap true []).
Proof.
  intros Hok Hwf Htne Hns Hf. cbn [ty_ok] in Hok.
  apply andb_true_iff in Hok. destruct Hok as [Hok _]. apply andb_true_iff in Hok. destruct Hok as [Hkey Hokv].
  apply wf_map_inv in Hwf. destruct Hwf as [Hlen HD].
  rewrite genc_map_eq in *. rewrite app_length in Hf. cbn [tdepth] in Hf.
  intros j rest. rewrite dec_map_eq. rewrite <- app_assoc.
  pose proof (type_of_range kt') as Htk. pose proof (type_of_range vt') as Htv. unfold tlim in Hlen.
  rewrite (r_map_spec p (len es) (type_of kt') (type_of vt') ltac:(unfold len in *; lia) ltac:(lia) ltac:(lia) j), tbind_res3.
  rewrite app_length. pose proof (w_map_length p (len es) (type_of kt') (type_of vt')) as Hh.
  destruct (Nat.ltb_spec j (length (w_map p (len es) (type_of kt') (type_of vt')))); [rewrite res3_lt by lia; reflexivity|].
  destruct (len es =? 0) eqn:E0.
  - destruct es; [|unfold len in E0; cbn [length] in E0; lia].
    replace (map_res p (len []) (type_of kt') (type_of vt')) with (0, (if p then type_of kt' else 0), (if p then type_of vt' else 0)) by (destruct p; reflexivity).
    cbn [genc_pairs app length]. unfold len in *. cbn [length Z.of_nat] in *. cbn.
    rewrite res3_ge by lia. do 3 f_equal. lia.
  - replace (map_res p (len es) (type_of kt') (type_of vt')) with (len es, type_of kt', type_of vt') by (unfold map_res; rewrite E0; destruct p; reflexivity).
    cbv iota beta. rewrite E0. replace (len es <? 0) with false by (unfold len; lia).
    assert (Hsk : forall X : tval,
      (tlet r <- skip_entries f p (type_of kt') (type_of vt') (len es)
                  (firstn (j - length (w_map p (len es) (type_of kt') (type_of vt'))) (genc_pairs ch p kt' vt' 0 es ++ rest)) in TOk (X, r)) =
      res3 j (length (w_map p (len es) (type_of kt') (type_of vt')) + length (genc_pairs ch p kt' vt' 0 es)) X rest).
    { intros X. rewrite ProofsA.skip_entries_eq.
      assert (HOK : Forall (fun wd => (1 <= length (fst wd))%nat /\ sk3 (skip f p (type_of kt')) (fst wd) /\ sk3 (skip f p (type_of vt')) (snd wd))
                           (g_pws ch p kt' vt' 0 es)).
      { apply g_pws_ok; try assumption; try apply skipG_all. lia. }
      pose proof (sk_map3 (skip f p) (type_of kt') (type_of vt') _ HOK) as Hm. rewrite g_pws_bytes, g_pws_len in Hm.
      rewrite Hm by lia.
      destruct (Nat.ltb_spec (j - length (w_map p (len es) (type_of kt') (type_of vt'))) (length (genc_pairs ch p kt' vt' 0 es))).
      - rewrite res3_lt by lia. rewrite eofc_pos by lia. reflexivity.
      - rewrite res3_ge by lia. cbn [tbind]. do 3 f_equal. lia. }
    destruct (type_of kt =? type_of kt') eqn:Ek; cbn [negb].
    + destruct (type_of vt =? type_of vt') eqn:Ev; cbn [negb]; [exfalso; destruct Htne as [H1|H1]; apply H1; lia|].
      rewrite Hns. apply Hsk.
    + rewrite Hns. apply Hsk.
Qed.

(* ---------- no long form chosen: the bytes Marshal writes ---------- *)
Definition ch0 : choice := fun _ => false.
Lemma genc_ch0 p t v : ty_ok t = true -> tval_wf t v = true -> genc ch0 p t v = TMarshal p t v.
Proof. intros Hok Hwf. destruct p; [reflexivity|]. unfold genc. apply t_alt_short_marshal; [intros q; reflexivity | exact Hok | exact Hwf]. Qed.

(* ---------- flags of declared fields ---------- *)
Lemma fok_flags fs id fl ft : ProofsA.fok fs = true -> In (TField id fl ft) fs ->
  has_flag fl f_strict = false /\ Z.lor (Z.land 0 f_strict) fl = fl /\ Z.lor (Z.land f_strict f_strict) fl = f_strict + fl /\
  has_flag (f_strict + fl) f_strict = true /\
  (has_flag fl f_enum = true -> ft = ThI32).
Proof.
  induction fs as [|[id0 fl0 ft0] fr IH]; intros H Hin; [contradiction|]. cbn [ProofsA.fok] in H.
  apply andb_true_iff in H. destruct H as [H Hr]. destruct Hin as [Heq|Hin]; [|apply IH; assumption].
  inversion Heq; subst. clear Heq IH Hr.
  apply andb_true_iff in H. destruct H as [H Hfl]. apply andb_true_iff in H. destruct H as [_ Hen].
  assert (Hcases : fl = 0 \/ fl = f_required \/ fl = f_optional \/ fl = f_enum \/ fl = f_enum + f_required \/ fl = f_enum + f_optional).
  { clear - Hfl. repeat (apply orb_true_iff in Hfl; destruct Hfl as [Hfl|Hfl]); apply Z.eqb_eq in Hfl; tauto. }
  assert (Hen' : has_flag fl f_enum = true -> ft = ThI32).
  { intros He. rewrite He in Hen. cbn [negb orb] in Hen. destruct ft; try discriminate Hen. reflexivity. }
  clear Hfl Hen.
  destruct Hcases as [->|[->|[->|[->|[->| ->]]]]]; (split; [reflexivity|]; split; [reflexivity|]; split; [reflexivity|]; split; [reflexivity | exact Hen']).
Qed.

(* the kinds of conflict *)
Lemma coll_conflict_inv ft ft' : coll_conflict ft ft' = true ->
  (exists et et', ft = ThList et /\ ft' = ThList et' /\ type_of et' <> type_of et) \/
  (exists kt kt', ft = ThSet kt /\ ft' = ThSet kt' /\ type_of kt' <> type_of kt) \/
  (exists kt vt kt' vt', ft = ThMap kt vt /\ ft' = ThMap kt' vt' /\ (type_of kt' <> type_of kt \/ type_of vt' <> type_of vt)).
Proof.
  intros H. destruct ft; try discriminate H; destruct ft'; try discriminate H; cbn [coll_conflict] in H.
  - left. do 2 eexists. repeat split. apply negb_true_iff in H. apply Z.eqb_neq in H. congruence.
  - right. left. do 2 eexists. repeat split. apply negb_true_iff in H. apply Z.eqb_neq in H. congruence.
  - right. right. do 4 eexists. repeat split. apply orb_true_iff in H.
    destruct H as [H|H]; apply negb_true_iff in H; apply Z.eqb_neq in H; [left | right]; congruence.
Qed.

(* the set on the wire as a list *)
Lemma set_as_list ch p kt nn ks : ty_ok (ThSet kt) = true -> tval_wf (ThSet kt) (TvSet nn ks) = true ->
  genc ch p (ThSet kt) (TvSet nn ks) = genc ch p (ThList kt) (TvList nn ks) /\ ty_ok kt = true /\ tval_wf (ThList kt) (TvList nn ks) = true.
Proof.
  intros Hok Hwf. split; [rewrite genc_set_eq, genc_list_eq; reflexivity|]. cbn [ty_ok] in Hok.
  split; [destruct kt; try discriminate Hok; reflexivity|].
  pose proof Hwf as Hwf0. apply wf_set_inv in Hwf. destruct Hwf as [Hlen HD]. destruct (sdist_split kt ks HD) as [HW _].
  rewrite ProofsA.wf_set in Hwf0. rewrite ProofsA.wf_list.
  apply andb_true_iff in Hwf0. destruct Hwf0 as [H1 _]. rewrite H1. cbn [andb].
  clear - HW Hok. induction HW as [|x r Hx HW IH]; [reflexivity|]. cbn [ProofsA.wfL].
  destruct (key_facts kt x Hok Hx) as [_ [Hn _]]. unfold nilp in Hn. rewrite Hx, Hn, IH. reflexivity.
Qed.

(* the conflicting field, seen from the target *)
Lemma conflict_field_rel f p i id fl fl' ft ft' x :
  coll_conflict ft ft' = true -> fgood (TField id fl' ft') x -> has_flag fl f_strict = false -> has_flag fl f_enum = false ->
  (has_flag fl f_required = true -> fskip (TField id fl' ft') x = false) ->
  field_rel f p ch0 0 i (TField id fl' ft') x (TField id fl ft) (zero_of ft).
Proof.
  intros Hc [_ [Hok' [Hwf' [Hen' _]]]] Hns Hne Hreq. cbn [fld_ty fld_flags] in *. split; [|exact Hreq].
  intros Hbody. cbn [fld_ty fld_flags] in *.
  assert (Hen'' : has_flag fl' f_enum = false).
  { destruct (has_flag fl' f_enum) eqn:E; [|reflexivity]. rewrite (Hen' eq_refl) in Hc. destruct ft; discriminate Hc. }
  assert (HFL : Z.lor (Z.land 0 f_strict) fl = fl) by reflexivity.
  destruct (coll_conflict_inv ft ft' Hc) as [[et [et' [-> [-> Hne1]]]]|[[kt [kt' [-> [-> Hne1]]]]|[kt [vt [kt' [vt' [-> [-> Hne1]]]]]]]].
  - (* list *)
    destruct x as [| | |nn es| | | |]; try discriminate Hwf'.
    exists (zero_of (ThList et)). split; [|destruct (fskip _ _); reflexivity].
    intros Hs. split; [reflexivity|]. replace (coalesce p (type_of (ThList et'))) with false by (destruct p; reflexivity).
    specialize (Hbody Hs ltac:(destruct p; reflexivity)).
    rewrite (gbody_noenum ch0 p i (TField id fl' (ThList et')) _ Hen'') in *. cbn [fld_ty] in *.
    unfold fdec. cbn [fld_flags fld_ty]. rewrite Hne, HFL.
    destruct f as [|f']; [cbn [tdepth] in Hbody; lia|].
    apply mism3_list; try assumption.
  - (* set *)
    destruct x as [| | | |nn ks| | |]; try discriminate Hwf'.
    exists (TvSet true []). split; [|destruct (fskip _ _); reflexivity].
    intros Hs. split; [reflexivity|]. replace (coalesce p (type_of (ThSet kt'))) with false by (destruct p; reflexivity).
    specialize (Hbody Hs ltac:(destruct p; reflexivity)).
    rewrite (gbody_noenum ch0 p i (TField id fl' (ThSet kt')) _ Hen'') in *. cbn [fld_ty] in *.
    unfold fdec. cbn [fld_flags fld_ty]. rewrite Hne, HFL.
    destruct f as [|f']; [cbn [tdepth] in Hbody; lia|].
    destruct (set_as_list (sub ch0 (S i)) p kt' nn ks Hok' Hwf') as [Heq [Hokk Hwfl]]. rewrite Heq in *.
    apply mism3_set; try assumption.
  - (* map *)
    destruct x as [| | | | |nn es| |]; try discriminate Hwf'.
    exists (TvMap true []). split; [|destruct (fskip _ _); reflexivity].
    intros Hs. split; [reflexivity|]. replace (coalesce p (type_of (ThMap kt' vt'))) with false by (destruct p; reflexivity).
    specialize (Hbody Hs ltac:(destruct p; reflexivity)).
    rewrite (gbody_noenum ch0 p i (TField id fl' (ThMap kt' vt')) _ Hen'') in *. cbn [fld_ty] in *.
    unfold fdec. cbn [fld_flags fld_ty]. rewrite Hne, HFL.
    destruct f as [|f']; [cbn [tdepth] in Hbody; lia|].
    apply mism3_map; try assumption.
Qed.

(* ---------- the struct, non-strict: three-way ---------- *)
Lemma coll_conflict_rspec p fs1 id fl fl' ft ft' fs2 vs1 x vs2 fuel :
  ty_ok (ThStruct (fs1 ++ TField id fl ft :: fs2)) = true -> ty_ok (ThStruct (fs1 ++ TField id fl' ft' :: fs2)) = true ->
  coll_conflict ft ft' = true -> length vs1 = length fs1 ->
  tval_wf (ThStruct (fs1 ++ TField id fl' ft' :: fs2)) (TvStruct (vs1 ++ x :: vs2)) = true ->
  (has_flag fl f_required = true -> field_omitted (TField id fl' ft') x = false) ->
  (length (TMarshal p (ThStruct (fs1 ++ TField id fl' ft' :: fs2)) (TvStruct (vs1 ++ x :: vs2)))
   + tdepth (ThStruct (fs1 ++ TField id fl' ft' :: fs2)) <= fuel)%nat ->
  exists r, rspec (dec fuel p (ThStruct (fs1 ++ TField id fl ft :: fs2)) 0 (zero_of (ThStruct (fs1 ++ TField id fl ft :: fs2))))
                  (TMarshal p (ThStruct (fs1 ++ TField id fl' ft' :: fs2)) (TvStruct (vs1 ++ x :: vs2))) r /\
            tnorm (ThStruct (fs1 ++ TField id fl ft :: fs2)) r =
            tnorm (ThStruct (fs1 ++ TField id fl ft :: fs2)) (TvStruct (vs1 ++ zero_of ft :: vs2)).
Proof.
  intros Hok Hoke Hc Hlen Hwf Hom Hf.
  set (T := fs1 ++ TField id fl ft :: fs2) in *. set (E := fs1 ++ TField id fl' ft' :: fs2) in *.
  set (XS := vs1 ++ x :: vs2) in *. set (VN := vs1 ++ zero_of ft :: vs2).
  destruct (struct_good E XS Hoke Hwf (all_mainP _)) as [Hnde HFe].
  assert (Hlene : length XS = length E) by (symmetry; eapply Forall2_len; eauto).
  assert (HlenT : length E = length T) by (unfold E, T; rewrite !app_length; reflexivity).
  assert (HlenV : length VN = length T).
  { pose proof Hlene as HL. unfold XS, E in HL. rewrite !app_length in HL. cbn [length] in HL. unfold VN, T. rewrite !app_length. cbn [length]. clear - HL Hlen. lia. }
  pose proof Hok as Hok0. rewrite ProofsA.ok_struct in Hok0. apply andb_true_iff in Hok0. destruct Hok0 as [Hd Hfok].
  pose proof (distinctZ_NoDup _ Hd) as Hnd.
  assert (Hids : forall y, In y (map fld_id T) -> 1 <= y).
  { intros y Hy. apply in_map_iff in Hy. destruct Hy as [fd' [<- Hfd']]. pose proof (ProofsA.fok_range T fd' Hfok Hfd'). lia. }
  destruct (fok_flags T id fl ft Hfok ltac:(unfold T; apply in_or_app; right; left; reflexivity)) as [Hns [_ [_ [_ Hent]]]].
  assert (Hne : has_flag fl f_enum = false).
  { destruct (has_flag fl f_enum) eqn:E0; [|reflexivity]. rewrite (Hent eq_refl) in Hc. discriminate Hc. }
  rewrite <- (genc_ch0 p (ThStruct E) (TvStruct XS) Hoke Hwf) in *.
  rewrite tdepth_struct_eq in Hf. destruct fuel as [|f]; [clear - Hf; lia|].
  assert (HokeN : ty_ok (ThStruct (E ++ [])) = true) by (rewrite app_nil_r; exact Hoke).
  assert (HwfN : tval_wf (ThStruct (E ++ [])) (TvStruct (XS ++ [])) = true) by (rewrite !app_nil_r; exact Hwf).
  pose proof (struct_core f p ch0 T VN E XS [] [] 0 Hnd Hids HlenV Hlene HlenT HokeN HwfN) as HC. rewrite !app_nil_r in HC.
  apply HC; [|clear - Hf; lia]. clear HC.
  intros i wfd wx H1 H2.
  pose proof (Forall2_nth_error _ _ _ i _ _ HFe H1 H2) as Hg.
  destruct (Nat.eq_dec i (length fs1)) as [->|Hne_i].
  - unfold E in H1. rewrite nth_error_mid in H1. inversion H1; subst wfd.
    unfold XS in H2. rewrite <- Hlen in H2. rewrite nth_error_mid in H2. inversion H2; subst wx.
    assert (HV : nth_error VN (length fs1) = Some (zero_of ft)) by (unfold VN; rewrite <- Hlen; apply nth_error_mid).
    assert (HT : nth_error T (length fs1) = Some (TField id fl ft)) by (unfold T; apply nth_error_mid).
    exists (TField id fl ft), (zero_of ft). split; [exact HT|]. split; [exact HV|]. split; [reflexivity|].
    apply conflict_field_rel; assumption.
  - destruct (replace_case fs1 fs2 (TField id fl ft) (TField id fl' ft') vs1 vs2 (zero_of ft) x i wfd Hlen H1 Hne_i) as [Ha Hb].
    exists wfd, wx. split; [exact Ha|]. split; [unfold VN; rewrite <- Hb; exact H2|]. split; [reflexivity|].
    apply widens_field_rel; try assumption; [apply mainW_all | reflexivity | apply W_refl].
Qed.

(* ====================================================================== *)
(* ---------- strict mode: the conflicting field stops the struct loop with TypeMismatch ---------- *)
Local Ltac dmlia := Z.div_mod_to_equations; lia.

(* one written entry, complete input *)
Lemma sloop_step f p fs flags e k :
  NoDup (map fld_id fs) -> (forall y, In y (map fld_id fs) -> 1 <= y) ->
  gek_ok f p fs flags (e, k) -> fskip (g_fd e) (g_x e) = false ->
  forall last K' nf seen cur R, 0 <= last < fld_id (g_fd e) -> zero_above fs last cur ->
  sloop f p fs flags (S K')
    (ghdr p (g_long e) last (fld_id (g_fd e))
       (if coalesce p (type_of (fld_ty (g_fd e))) && deref_bool (g_x e) then c_TRUE else type_of (fld_ty (g_fd e))) ++
     (if coalesce p (type_of (fld_ty (g_fd e))) then [] else g_body e) ++ R) last nf cur seen =
  sloop f p fs flags K' R (fld_id (g_fd e)) (nf + 1)
    (match k with KKnown i r => set_nth cur i r | KUnknown => cur end)
    (match k with KKnown _ _ => (fld_id (g_fd e) - s_minID fs) :: seen | KUnknown => seen end).
Proof.
  intros Hnd Hids [Hid Hk] Es last K' nf seen cur R Hlast Hz. cbn [fst snd] in Hid, Hk.
  set (id := fld_id (g_fd e)) in *.
  set (ty := type_of (fld_ty (g_fd e))) in *.
  set (wty := if coalesce p ty && deref_bool (g_x e) then c_TRUE else ty) in *.
  assert (Hty : 2 <= ty <= 12) by apply type_of_range.
  assert (Hwty : 1 <= wty <= 12) by (unfold wty, c_TRUE; destruct (coalesce p ty && deref_bool (g_x e)); lia).
  destruct (ghdr_rspec p (g_long e) last id wty ltac:(lia) ltac:(lia) Hwty) as [rid [isd [Hh Hrid]]].
  rewrite sloop_S. rewrite (rspec_full _ _ _ _ Hh).
  cbv iota beta. replace (wty =? c_STOP) with false by (unfold c_STOP; lia).
  cbv zeta. rewrite Hrid.
  destruct k as [i r|].
  - destruct Hk as [fd [Hi1 [Heq Hw]]]. destruct (Hw Es) as [Hteq Hbody]. clear Hw.
    fold id in Heq. fold ty in Hteq, Hbody.
    pose proof (NoDup_uniq fs i fd Hnd Hi1) as Hu.
    assert (Hin : In id (map fld_id fs)) by (rewrite <- Heq; apply in_map; eapply nth_error_In; eauto).
    pose proof (slot_bounds fs id Hids Hin) as Hsb.
    replace ((id - s_minID fs <? 0) || (id - s_minID fs >=? s_maxID fs - s_minID fs + 1)) with false by lia.
    assert (Hlk : lookup_go id fs 0 = Some (i, fd)) by (rewrite <- Heq; apply (lookup_go_found fs O i fd Hi1 Hu)).
    rewrite Hlk. cbv iota beta.
    replace (_ / 64 >=? _ / 64 + 1) with false by (symmetry; rewrite Z.geb_leb; apply Z.leb_gt; dmlia).
    rewrite Hteq.
    assert (Hold : nth i cur (zero_of (fld_ty fd)) = zero_of (fld_ty fd)) by (apply Hz; [exact Hi1 | lia]).
    unfold wty in *. clear wty. destruct (coalesce p ty) eqn:Ec.
    + destruct p; [discriminate Ec|]. cbn [coalesce] in Ec. assert (Ety : ty = c_BOOL) by lia.
      cbn [andb is_compact app] in *. rewrite Ety in *.
      replace (negb ((if deref_bool (g_x e) then c_TRUE else c_BOOL) =? c_BOOL) && negb (((if deref_bool (g_x e) then c_TRUE else c_BOOL) =? c_TRUE) && (c_BOOL =? c_BOOL))) with false by (destruct (deref_bool (g_x e)); reflexivity).
      replace (((if deref_bool (g_x e) then c_TRUE else c_BOOL) =? c_TRUE) || ((if deref_bool (g_x e) then c_TRUE else c_BOOL) =? c_BOOL)) with true by (destruct (deref_bool (g_x e)); reflexivity).
      replace ((if deref_bool (g_x e) then c_TRUE else c_BOOL) =? c_TRUE) with (deref_bool (g_x e)) by (destruct (deref_bool (g_x e)); reflexivity).
      rewrite <- Hbody. reflexivity.
    + cbn [andb] in *. rewrite Z.eqb_refl. cbn [negb andb].
      replace (is_compact p && ((ty =? c_TRUE) || (ty =? c_BOOL))) with false.
      2:{ destruct p; [reflexivity|]. cbn [coalesce] in Ec. rewrite Ec. replace (ty =? c_TRUE) with false by (unfold c_TRUE; lia). reflexivity. }
      rewrite Hold. rewrite (rspec_full _ _ _ R Hbody). reflexivity.
  - destruct Hk as [Hnin Hsk]. fold id in Hnin. fold ty in Hsk.
    replace (if (id - s_minID fs <? 0) || (id - s_minID fs >=? s_maxID fs - s_minID fs + 1)
             then None else lookup_go id fs 0) with (@None (nat * tfield)).
    2:{ destruct (_ || _); [reflexivity|]. symmetry. apply lookup_go_none. exact Hnin. }
    unfold wty in *. clear wty. destruct (coalesce p ty) eqn:Ec.
    + destruct p; [discriminate Ec|]. cbn [coalesce] in Ec. assert (Ety : ty = c_BOOL) by lia.
      cbn [andb is_compact app] in *. rewrite Ety in *.
      replace ((((if deref_bool (g_x e) then c_TRUE else c_BOOL) =? c_TRUE) || ((if deref_bool (g_x e) then c_TRUE else c_BOOL) =? c_BOOL)) && true) with true by (destruct (deref_bool (g_x e)); reflexivity).
      reflexivity.
    + cbn [andb] in *.
      replace (((ty =? c_TRUE) || (ty =? c_BOOL)) && is_compact p) with false.
      2:{ destruct p; [rewrite andb_false_r; reflexivity|]. cbn [coalesce] in Ec. rewrite Ec. replace (ty =? c_TRUE) with false by (unfold c_TRUE; lia). reflexivity. }
      rewrite (sk3_full _ _ R (Hsk Es eq_refl)). reflexivity.
Qed.

(* the entries l1 are decoded, then the entry e of a declared field whose value the field decoder refuses *)
Lemma sloop_strict_err f p fs flags e i fd L2 :
  NoDup (map fld_id fs) -> (forall y, In y (map fld_id fs) -> 1 <= y) ->
  1 <= fld_id (g_fd e) < 2 ^ 15 -> fskip (g_fd e) (g_x e) = false -> coalesce p (type_of (fld_ty (g_fd e))) = false ->
  nth_error fs i = Some fd -> fld_id fd = fld_id (g_fd e) -> type_of (fld_ty fd) = type_of (fld_ty (g_fd e)) ->
  (forall rest, fdec f p fd (Z.lor (Z.land flags f_strict) (fld_flags fd)) (zero_of (fld_ty fd)) (g_body e ++ rest) = TErr EMismatch) ->
  forall (l1 : list gek) last K nf seen cur rest,
  (forall ek, In ek l1 -> gek_ok f p fs flags ek) ->
  asc last (map eid (map fst l1 ++ e :: L2)) -> 0 <= last -> zero_above fs last cur ->
  (length (gen_go p (map fst l1 ++ e :: L2) last) <= K)%nat ->
  sloop f p fs flags K (gen_go p (map fst l1 ++ e :: L2) last ++ rest) last nf cur seen = TErr EMismatch.
Proof.
  intros Hnd Hids Hid Es Ec Hi1 Heq Hteq Hbad.
  induction l1 as [|[e1 k1] l1' IH]; intros last K nf seen cur rest Hent Hasc Hlast Hz HK.
  - cbn [map app gen_go] in *. rewrite Es in *. cbv zeta in *. rewrite Ec in *. cbn [andb] in *.
    cbn [asc] in Hasc. destruct Hasc as [Hlt _]. change (eid e) with (fld_id (g_fd e)) in Hlt.
    set (id := fld_id (g_fd e)) in *. set (ty := type_of (fld_ty (g_fd e))) in *.
    assert (Hty : 2 <= ty <= 12) by apply type_of_range.
    destruct (ghdr_rspec p (g_long e) last id ty ltac:(lia) ltac:(lia) ltac:(lia)) as [rid [isd [Hh Hrid]]].
    pose proof (ghdr_len p (g_long e) last id ty) as Hhl. rewrite !app_length in HK. destruct K as [|K']; [lia|].
    rewrite sloop_S. rewrite <- !app_assoc. rewrite (rspec_full _ _ _ _ Hh).
    cbv iota beta. replace (ty =? c_STOP) with false by (unfold c_STOP; lia).
    cbv zeta. rewrite Hrid.
    pose proof (NoDup_uniq fs i fd Hnd Hi1) as Hu.
    assert (Hin : In id (map fld_id fs)) by (rewrite <- Heq; apply in_map; eapply nth_error_In; eauto).
    pose proof (slot_bounds fs id Hids Hin) as Hsb.
    replace ((id - s_minID fs <? 0) || (id - s_minID fs >=? s_maxID fs - s_minID fs + 1)) with false by lia.
    assert (Hlk : lookup_go id fs 0 = Some (i, fd)) by (rewrite <- Heq; apply (lookup_go_found fs O i fd Hi1 Hu)).
    rewrite Hlk. cbv iota beta.
    replace (_ / 64 >=? _ / 64 + 1) with false by (symmetry; rewrite Z.geb_leb; apply Z.leb_gt; dmlia).
    rewrite Hteq. rewrite Z.eqb_refl. cbn [negb andb].
    replace (is_compact p && ((ty =? c_TRUE) || (ty =? c_BOOL))) with false.
    2:{ destruct p; [reflexivity|]. cbn [coalesce] in Ec. fold ty in Ec. rewrite Ec. replace (ty =? c_TRUE) with false by (unfold c_TRUE; lia). reflexivity. }
    rewrite (Hz i fd Hi1 ltac:(lia)). rewrite Hbad. reflexivity.
  - assert (Hent' : forall ek, In ek l1' -> gek_ok f p fs flags ek) by (intros ek Hek; apply Hent; right; exact Hek).
    pose proof (Hent (e1, k1) (or_introl eq_refl)) as Hg1. pose proof Hg1 as [Hid1 _]. cbn [fst] in Hid1.
    cbn [map fst app asc] in Hasc. destruct Hasc as [Hlt Hasc]. change (eid e1) with (fld_id (g_fd e1)) in *.
    cbn [map fst app gen_go] in *.
    destruct (fskip (g_fd e1) (g_x e1)) eqn:Es1.
    + apply IH; try assumption. eapply asc_weaken; [|exact Hasc]. lia.
    + cbv zeta in *. rewrite !app_length in HK.
      pose proof (ghdr_len p (g_long e1) last (fld_id (g_fd e1))
        (if coalesce p (type_of (fld_ty (g_fd e1))) && deref_bool (g_x e1) then c_TRUE else type_of (fld_ty (g_fd e1)))) as Hhl.
      destruct K as [|K']; [lia|]. rewrite <- !app_assoc.
      rewrite (sloop_step f p fs flags e1 k1 Hnd Hids Hg1 Es1 last K' nf seen cur _ ltac:(lia) Hz).
      apply IH; try assumption; try lia.
      intros i' fd' Hi' Hlt'. destruct k1 as [i1 r1|]; [|apply Hz; [exact Hi' | lia]].
      rewrite nth_set_nth_other; [apply Hz; [exact Hi' | lia]|].
      intros ->. destruct Hg1 as [_ [fd1 [Hfd1 [Heq1 _]]]]. cbn [fst] in Heq1. rewrite Hi' in Hfd1. inversion Hfd1; subst fd1. lia.
Qed.

Lemma genc_short ch p t v : (forall q, ch q = false) -> ty_ok t = true -> tval_wf t v = true -> genc ch p t v = TMarshal p t v.
Proof. intros H Hok Hwf. destruct p; [reflexivity|]. unfold genc. apply t_alt_short_marshal; assumption. Qed.

Lemma coll_conflict_strict p fs1 id fl fl' ft ft' fs2 vs1 x vs2 fuel :
  ty_ok (ThStruct (fs1 ++ TField id fl ft :: fs2)) = true -> ty_ok (ThStruct (fs1 ++ TField id fl' ft' :: fs2)) = true ->
  coll_conflict ft ft' = true -> length vs1 = length fs1 ->
  tval_wf (ThStruct (fs1 ++ TField id fl' ft' :: fs2)) (TvStruct (vs1 ++ x :: vs2)) = true ->
  field_omitted (TField id fl' ft') x = false ->
  (match ft with ThList _ => true | _ => coll_nonempty x end) = true ->
  (length (TMarshal p (ThStruct (fs1 ++ TField id fl' ft' :: fs2)) (TvStruct (vs1 ++ x :: vs2)))
   + tdepth (ThStruct (fs1 ++ TField id fl' ft' :: fs2)) <= fuel)%nat ->
  forall rest,
  dec fuel p (ThStruct (fs1 ++ TField id fl ft :: fs2)) f_strict (zero_of (ThStruct (fs1 ++ TField id fl ft :: fs2)))
    (TMarshal p (ThStruct (fs1 ++ TField id fl' ft' :: fs2)) (TvStruct (vs1 ++ x :: vs2)) ++ rest) = TErr EMismatch.
Proof.
  intros Hok Hoke Hc Hlen Hwf Hom Hne0 Hf rest.
  set (T := fs1 ++ TField id fl ft :: fs2) in *. set (E := fs1 ++ TField id fl' ft' :: fs2) in *.
  set (XS := vs1 ++ x :: vs2) in *.
  destruct (struct_good E XS Hoke Hwf (all_mainP _)) as [Hnde HFe].
  assert (Hlene : length XS = length E) by (symmetry; eapply Forall2_len; eauto).
  assert (HidsE : forall fd, In fd E -> 1 <= fld_id fd < 2 ^ 15) by (intros fd Hfd; destruct (Forall2_in_l _ _ _ _ HFe Hfd) as [b [Hb _]]; lia).
  pose proof Hok as Hok0. rewrite ProofsA.ok_struct in Hok0. apply andb_true_iff in Hok0. destruct Hok0 as [Hd Hfok].
  pose proof (distinctZ_NoDup _ Hd) as Hnd.
  assert (Hids : forall y, In y (map fld_id T) -> 1 <= y).
  { intros y Hy. apply in_map_iff in Hy. destruct Hy as [fd' [<- Hfd']]. pose proof (ProofsA.fok_range T fd' Hfok Hfd'). lia. }
  destruct (fok_flags T id fl ft Hfok ltac:(unfold T; apply in_or_app; right; left; reflexivity)) as [_ [_ [HFL [Hst Hent]]]].
  assert (Hne : has_flag fl f_enum = false).
  { destruct (has_flag fl f_enum) eqn:E0; [|reflexivity]. rewrite (Hent eq_refl) in Hc. discriminate Hc. }
  rewrite <- (genc_ch0 p (ThStruct E) (TvStruct XS) Hoke Hwf) in *.
  rewrite tdepth_struct_eq in Hf. destruct fuel as [|f]; [clear - Hf; lia|].
  rewrite (genc_struct_eq ch0 p E XS Hnde HidsE Hlene) in *.
  destruct (sort_by_id_spec (g_mk ch0 p O E XS) 0) as [Hasc Hin].
  { rewrite g_mk_ids by exact Hlene. exact Hnde. }
  { intros e He. destruct (g_mk_in ch0 p E XS O e He) as [i [Hi _]]. unfold eid. apply nth_error_In in Hi. specialize (HidsE _ Hi). unfold g_fd in HidsE. clear - HidsE. lia. }
  set (L := sort_by_id (g_mk ch0 p O E XS)) in *.
  (* the conflicting entry *)
  assert (HEm : nth_error E (length fs1) = Some (TField id fl' ft')) by (unfold E; apply nth_error_mid).
  assert (HXm : nth_error XS (length fs1) = Some x) by (unfold XS; rewrite <- Hlen; apply nth_error_mid).
  assert (HTm : nth_error T (length fs1) = Some (TField id fl ft)) by (unfold T; apply nth_error_mid).
  destruct (g_mk_nth ch0 p E XS O (length fs1) _ _ HEm HXm) as [lg Hmk]. apply Hin in Hmk. fold L in Hmk. cbn [Nat.add] in Hmk.
  set (em := (TField id fl' ft', (x, (lg, gbody ch0 p (length fs1) (TField id fl' ft') x)))) in *.
  destruct (in_split _ _ Hmk) as [L1 [L2 Hsplit]].
  assert (HndL : NoDup (map eid L)) by (eapply asc_NoDup; exact Hasc).
  pose proof (Forall2_nth_error _ _ _ _ _ _ HFe HEm HXm) as [_ [Hokm [Hwfm [Henm _]]]]. cbn [fld_ty fld_flags] in Hokm, Hwfm, Henm.
  assert (Hen' : has_flag fl' f_enum = false).
  { destruct (has_flag fl' f_enum) eqn:E0; [|reflexivity]. rewrite (Henm eq_refl) in Hc. destruct ft; discriminate Hc. }
  assert (Hcm : coalesce p (type_of ft') = false).
  { destruct (coll_conflict_inv ft ft' Hc) as [[? [? [_ [-> _]]]]|[[? [? [_ [-> _]]]]|[? [? [? [? [_ [-> _]]]]]]]]; destruct p; reflexivity. }
  assert (Hbm : (length (g_body em) + tdepth ft' <= f)%nat).
  { pose proof (gen_go_body_len p L 0 em Hmk Hom Hcm) as Hbl.
    pose proof (fdepth_in E _ (nth_error_In _ _ HEm)) as Hdm. cbn [fld_ty] in Hdm. clear - Hbl Hdm Hf. lia. }
  (* the entries before it *)
  assert (HQ : forall e, In e L1 -> exists k, gek_ok f p T f_strict (e, k)).
  { intros e He1. assert (He0 : In e L) by (rewrite Hsplit; apply in_or_app; left; exact He1).
    pose proof He0 as He. apply Hin in He. destruct (g_mk_in ch0 p E XS O e He) as [iE [Hi1 [Hi2 Hi3]]]. cbn [Nat.add] in Hi3.
    pose proof (Forall2_nth_error _ _ _ _ _ _ HFe Hi1 Hi2) as Hg.
    assert (Hne_i : iE <> length fs1).
    { intros ->. rewrite HEm in Hi1. inversion Hi1 as [Hfd].
      rewrite Hsplit in HndL. apply (nodup_split_neq eid L1 em L2 HndL e (or_introl He1)). unfold eid, em. cbn [fst]. unfold g_fd in Hfd. rewrite <- Hfd. reflexivity. }
    destruct (replace_case fs1 fs2 (TField id fl ft) (TField id fl' ft') vs1 vs2 x x iE (g_fd e) Hlen Hi1 Hne_i) as [Ha _].
    assert (Hfr : field_rel f p ch0 f_strict iE (g_fd e) (g_x e) (g_fd e) (g_x e)).
    { apply widens_field_rel; try assumption; [apply mainW_all | reflexivity | apply W_refl]. }
    destruct Hfr as [Hfr _]. rewrite <- Hi3 in Hfr.
    assert (Hbody : fskip (g_fd e) (g_x e) = false -> coalesce p (type_of (fld_ty (g_fd e))) = false ->
              (length (g_body e) + tdepth (fld_ty (g_fd e)) <= f)%nat).
    { intros Hs Hcc. pose proof (gen_go_body_len p L 0 e He0 Hs Hcc) as Hbl.
      pose proof (fdepth_in E (g_fd e) (nth_error_In _ _ Hi1)) as Hdd. clear - Hbl Hdd Hf. lia. }
    destruct (Hfr Hbody) as [r [Hr1 _]].
    exists (KKnown iE r). split; [cbn [fst]; destruct Hg as [Hg _]; exact Hg|]. cbn [fst snd].
    exists (g_fd e). split; [exact Ha|]. split; [reflexivity | exact Hr1]. }
  destruct (choose_kinds (fun e k => gek_ok f p T f_strict (e, k)) L1 HQ) as [l1 [Hl1 Hl1ok]].
  rewrite dec_struct_eq, zero_struct_eq. rewrite Hsplit in *. rewrite <- Hl1 in *.
  assert (P1 : 1 <= fld_id (g_fd em) < 2 ^ 15) by exact (HidsE _ (nth_error_In _ _ HEm)).
  assert (P6 : type_of (fld_ty (TField id fl ft)) = type_of (fld_ty (g_fd em))).
  { cbn [fld_ty]. destruct (coll_conflict_inv ft ft' Hc) as [[? [? [-> [-> _]]]]|[[? [? [-> [-> _]]]]|[? [? [? [? [-> [-> _]]]]]]]]; reflexivity. }
  assert (Hbad : forall rest0, fdec f p (TField id fl ft) (Z.lor (Z.land f_strict f_strict) (fld_flags (TField id fl ft))) (zero_of (fld_ty (TField id fl ft)))
                                 (g_body em ++ rest0) = TErr EMismatch).
  { intros rest0. unfold fdec. cbn [fld_flags fld_ty]. rewrite Hne, HFL.
    change (g_body em) with (gbody ch0 p (length fs1) (TField id fl' ft') x) in *.
    rewrite (gbody_noenum ch0 p (length fs1) (TField id fl' ft') x Hen') in *. cbn [fld_ty] in *.
    rewrite (genc_short (sub ch0 (S (length fs1))) p ft' x ltac:(intros q; reflexivity) Hokm Hwfm) in *.
    destruct (coll_conflict_inv ft ft' Hc) as [[et [et' [-> [-> Hne1]]]]|[[kt [kt' [-> [-> Hne1]]]]|[kt [vt [kt' [vt' [-> [-> Hne1]]]]]]]].
    + rewrite (t_mismatch_list p et et' x (zero_of (ThList et)) (f_strict + fl) f rest0 Hokm Hwfm Hne1 Hbm). rewrite Hst. reflexivity.
    + rewrite (ProofsD1.t_mismatch_set p kt kt' x (zero_of (ThSet kt)) (f_strict + fl) f rest0 Hokm Hwfm Hne1 Hne0 Hbm). rewrite Hst. reflexivity.
    + rewrite (ProofsD1.t_mismatch_map p kt vt kt' vt' x (zero_of (ThMap kt vt)) (f_strict + fl) f rest0 Hokm Hwfm Hne1 Hne0 Hbm). rewrite Hst. reflexivity. }
  assert (Pent : forall ek, In ek l1 -> gek_ok f p T f_strict ek) by (intros [e k] Hek; exact (Hl1ok _ Hek)).
  assert (Plen : (length (gen_go p (map fst l1 ++ em :: L2) 0) <= f)%nat).
  { eapply Nat.le_trans; [apply (Nat.le_add_r _ (fdepth E))|]. apply le_S_n. rewrite <- Nat.add_succ_r. exact Hf. }
  exact (sloop_strict_err f p T f_strict em (length fs1) (TField id fl ft) L2 Hnd Hids P1 Hom Hcm HTm eq_refl P6 Hbad
           l1 0 f 0 [] (zero_fields T) rest Pent Hasc (Z.le_refl 0) (zero_above_zero T 0) Plen).
Qed.
