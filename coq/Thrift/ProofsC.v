(* Proofs of the statements of Thrift/SpecC.v (C13 alternative encodings; C08 unknown fields, missing fields,
   type mismatch).  Only complete input is considered here (fspec: reader applied to w ++ rest returns the value
   and rest); the three-way specification with prefixes is in ProofsB. *)
From Verif Require Import Base.GoInt Thrift.Model Thrift.Spec Thrift.SpecC.
From Verif Require Thrift.ProofsA.
From Verif Require Import Thrift.ProofsB.
From Coq Require Import ZifyBool.
Open Scope Z_scope.

Local Ltac dmlia := Z.div_mod_to_equations; lia.

(* ---------- full-input reader specification ---------- *)
Definition fspec {A} (R : bytes -> tres (A * bytes)) (w : bytes) (a : A) : Prop :=
  forall rest, R (w ++ rest) = TOk (a, rest).
Lemma rspec_fspec {A} (R : bytes -> tres (A * bytes)) w a : rspec R w a -> fspec R w a.
Proof. intros H rest. apply rspec_full. exact H. Qed.

(* ---------- long and short headers of the compact protocol ---------- *)
Lemma r_list_long size ty : 0 <= size < 2 ^ 31 -> 1 <= ty <= 12 ->
  fspec (r_list PCompact) ([240 + ty] ++ uvarint size) (size, ty).
Proof.
  intros Hs Hty rest. unfold r_list. rewrite <- app_assoc. cbn [app r_byte tbind].
  replace (240 + ty) with (ty + 15 * 16) by lia. rewrite nib_hi, nib_lo by lia. cbn [Z.eqb Pos.eqb negb].
  rewrite (rspec_full _ _ _ rest (r_uvarint_spec (2 ^ 31 - 1) size ltac:(lia) ltac:(lia))). reflexivity.
Qed.
Lemma alt_list_header_spec long ty n : 0 <= n < 2 ^ 31 -> 1 <= ty <= 12 ->
  fspec (r_list PCompact) (alt_list_header long ty n) (n, ty).
Proof.
  intros Hn Hty. unfold alt_list_header. destruct ((n <? 15) && negb long) eqn:E.
  - apply andb_true_iff in E. destruct E as [E _].
    replace [n * 16 + ty] with (w_list PCompact n ty).
    + apply rspec_fspec. apply r_list_spec; lia.
    + unfold w_list. replace (n <=? 14) with true by lia. rewrite nib by lia. f_equal. lia.
  - apply r_list_long; assumption.
Qed.
Lemma alt_list_header_len long ty n : (1 <= length (alt_list_header long ty n))%nat.
Proof. unfold alt_list_header. destruct (_ && _); cbn [length app]; lia. Qed.
Lemma alt_list_header_short ty n : alt_list_header false ty n = s_list_header PCompact ty n.
Proof. unfold alt_list_header, s_list_header. rewrite andb_true_r. reflexivity. Qed.

Lemma r_field_long id ty : - 2 ^ 15 <= id < 2 ^ 15 -> 1 <= ty <= 12 ->
  fspec (r_field PCompact) ([ty] ++ uvarint (zz64 id)) (id, ty, false).
Proof.
  intros Hid Hty rest. unfold r_field. rewrite <- app_assoc. cbn [app r_byte tbind].
  replace (ty =? c_STOP) with false by (unfold c_STOP; lia).
  replace (Z.shiftr ty 4) with 0 by (rewrite Z.shiftr_div_pow2 by lia; change (2 ^ 4) with 16; dmlia).
  cbn [Z.eqb negb].
  pose proof (rspec_full _ _ _ rest (r_i16_spec PCompact id ltac:(lia))) as H. cbn [w_i16] in H. unfold varint in H.
  rewrite H. cbn [dont_expect_eof tbind]. do 3 f_equal.
  unfold s8, w8. change (2 ^ 8) with 256. change (2 ^ 7) with 128. rewrite Z.mod_small by lia.
  replace (ty <? 128) with true by lia. reflexivity.
Qed.
Lemma alt_field_header_fhdr last id ty : 0 <= last < id -> id < 2 ^ 15 -> 1 <= ty <= 12 ->
  alt_field_header false last id ty = fhdr PCompact last id ty.
Proof.
  intros Hl Hid Hty. unfold alt_field_header, fhdr. rewrite s16_id by lia. unfold w_field.
  replace (ty =? c_STOP) with false by (unfold c_STOP; lia). rewrite andb_true_r.
  replace (0 <? id - last) with true by lia. cbn [andb].
  destruct (id - last <=? 15) eqn:E.
  - rewrite E. rewrite nib by lia. f_equal. lia.
  - replace (id <=? 15) with false by lia. unfold varint.
    replace (w8 ty) with ty by (unfold w8; change (2 ^ 8) with 256; rewrite Z.mod_small by lia; reflexivity). reflexivity.
Qed.

(* the header of a written field: binary has one form; compact short or long *)
Definition ghdr (p : proto) (long : bool) (last id wty : Z) : bytes :=
  match p with PBinary => fhdr PBinary last id wty | PCompact => alt_field_header long last id wty end.
Lemma ghdr_spec p long last id wty : 0 <= last < id -> id < 2 ^ 15 -> 1 <= wty <= 12 ->
  exists rid isd, fspec (r_field p) (ghdr p long last id wty) (rid, wty, isd) /\ (if isd then s16 (rid + last) else rid) = id.
Proof.
  intros Hl Hid Hty. destruct p; cbn [ghdr].
  - exists id, false. split; [|reflexivity]. apply rspec_fspec. apply (r_field_spec PBinary last id wty); assumption.
  - unfold alt_field_header. destruct ((0 <? id - last) && (id - last <=? 15) && negb long) eqn:E.
    + apply andb_true_iff in E. destruct E as [E _]. apply andb_true_iff in E. destruct E as [E1 E2].
      exists (id - last), true. split.
      * pose proof (r_field_spec PCompact last id wty Hl Hid Hty) as H. unfold fhdr_res in H. rewrite E2 in H.
        rewrite <- (alt_field_header_fhdr last id wty Hl Hid Hty) in H. unfold alt_field_header in H.
        rewrite E1, E2 in H. cbn [andb negb] in H. apply rspec_fspec. exact H.
      * replace (id - last + last) with id by lia. apply s16_id. lia.
    + exists id, false. split; [|reflexivity]. apply r_field_long; lia.
Qed.
Lemma ghdr_len p long last id wty : (1 <= length (ghdr p long last id wty))%nat.
Proof.
  destruct p; cbn [ghdr]; [apply fhdr_length|]. unfold alt_field_header. destruct (_ && _); cbn [length app]; lia.
Qed.

(* ====================================================================== *)
(* ---------- a general field sequence: known and unknown entries, any header form, abstract bodies ---------- *)
Definition gentry : Type := (tfield * (tval * (bool * bytes)))%type.
Definition g_fd (e : gentry) : tfield := fst e.
Definition g_x (e : gentry) : tval := fst (snd e).
Definition g_long (e : gentry) : bool := fst (snd (snd e)).
Definition g_body (e : gentry) : bytes := snd (snd (snd e)).

Fixpoint gen_go (p : proto) (l : list gentry) (last : Z) : bytes :=
  match l with
  | [] => w_field p 0 c_STOP
  | e :: r =>
      if fskip (g_fd e) (g_x e) then gen_go p r last else
      let ty := type_of (fld_ty (g_fd e)) in
      let wty := if coalesce p ty && deref_bool (g_x e) then c_TRUE else ty in
      ghdr p (g_long e) last (fld_id (g_fd e)) wty ++ (if coalesce p ty then [] else g_body e) ++ gen_go p r (fld_id (g_fd e))
  end.

Definition gentry_ok (f : nat) (p : proto) (fs : list tfield) (vs0 : list tval) (e : gentry) : Prop :=
  1 <= fld_id (g_fd e) < 2 ^ 15 /\
  ((exists i, nth_error fs i = Some (g_fd e) /\ nth_error vs0 i = Some (g_x e) /\
      (fskip (g_fd e) (g_x e) = false ->
         ty_ok (fld_ty (g_fd e)) = true /\ tval_wf (fld_ty (g_fd e)) (g_x e) = true /\
         (coalesce p (type_of (fld_ty (g_fd e))) = false ->
            forall fl rest, fdec f p (g_fd e) fl (zero_of (fld_ty (g_fd e))) (g_body e ++ rest) =
                            TOk (dval (fld_ty (g_fd e)) (g_x e), rest))))
   \/ (~ In (fld_id (g_fd e)) (map fld_id fs) /\
       (fskip (g_fd e) (g_x e) = false -> coalesce p (type_of (fld_ty (g_fd e))) = false ->
          forall rest, skip f p (type_of (fld_ty (g_fd e))) (g_body e ++ rest) = TOk rest))).

(* the slots marked in the seen bitset after the sequence *)
Fixpoint seen_after (fs : list tfield) (l : list gentry) (seen : list Z) : list Z :=
  match l with
  | [] => seen
  | e :: r =>
      if fskip (g_fd e) (g_x e) then seen_after fs r seen
      else if existsb (Z.eqb (fld_id (g_fd e))) (map fld_id fs) then seen_after fs r ((fld_id (g_fd e) - s_minID fs) :: seen)
      else seen_after fs r seen
  end.

Lemma lookup_go_none id fs : forall k, ~ In id (map fld_id fs) -> lookup_go id fs k = None.
Proof.
  induction fs as [|a r IH]; intros k H; [reflexivity|]. rewrite lookup_go_cons. cbn [map In] in H.
  replace (fld_id a =? id) with false by (symmetry; apply Z.eqb_neq; tauto). apply IH. tauto.
Qed.
Lemma existsb_eqb_in id l : In id l -> existsb (Z.eqb id) l = true.
Proof. intros H. apply existsb_exists. exists id. split; [exact H | apply Z.eqb_refl]. Qed.
Lemma existsb_eqb_notin id l : ~ In id l -> existsb (Z.eqb id) l = false.
Proof. intros H. apply existsb_false. intros y Hy. apply Z.eqb_neq. intros ->. exact (H Hy). Qed.

(* a third kind of entry: the id of a declared field with another wire type *)
Definition gconflict_ok (f : nat) (p : proto) (fs : list tfield) (vs0 : list tval) (e : gentry) : Prop :=
  exists i fd' x0, nth_error fs i = Some fd' /\ fld_id fd' = fld_id (g_fd e) /\ nth_error vs0 i = Some x0 /\ fskip fd' x0 = true /\
    type_of (fld_ty fd') <> type_of (fld_ty (g_fd e)) /\
    (fskip (g_fd e) (g_x e) = false -> coalesce p (type_of (fld_ty (g_fd e))) = false ->
       forall rest, skip f p (type_of (fld_ty (g_fd e))) (g_body e ++ rest) = TOk rest).
Definition is_conflict (fs : list tfield) (e : gentry) : bool :=
  negb (fskip (g_fd e) (g_x e)) &&
  existsb (fun fd' => (fld_id fd' =? fld_id (g_fd e)) && negb (type_of (fld_ty fd') =? type_of (fld_ty (g_fd e)))) fs.
Lemma no_conflict_known fs i fd : NoDup (map fld_id fs) -> nth_error fs i = Some fd ->
  existsb (fun fd' => (fld_id fd' =? fld_id fd) && negb (type_of (fld_ty fd') =? type_of (fld_ty fd))) fs = false.
Proof.
  intros Hnd Hi. apply existsb_false. intros fd' Hfd'. destruct (Z.eqb_spec (fld_id fd') (fld_id fd)) as [E|E]; [|reflexivity].
  apply In_nth_error in Hfd'. destruct Hfd' as [i' Hi']. pose proof (NoDup_uniq fs i fd Hnd Hi i' fd' Hi' E). subst i'.
  rewrite Hi in Hi'. inversion Hi'; subst fd'. rewrite Z.eqb_refl. reflexivity.
Qed.
Lemma no_conflict_unknown fs id ty : ~ In id (map fld_id fs) ->
  existsb (fun fd' => (fld_id fd' =? id) && negb (type_of (fld_ty fd') =? ty)) fs = false.
Proof.
  intros Hn. apply existsb_false. intros fd' Hfd'. replace (fld_id fd' =? id) with false; [reflexivity|].
  symmetry. apply Z.eqb_neq. intros E. apply Hn. rewrite <- E. apply in_map. exact Hfd'.
Qed.

Lemma sloop_gen3 f p fs vs0 flags :
  NoDup (map fld_id fs) -> (forall y, In y (map fld_id fs) -> 1 <= y) ->
  forall l last K nf seen rest,
  (forall e, In e l -> gentry_ok f p fs vs0 e \/ (1 <= fld_id (g_fd e) < 2 ^ 15 /\ gconflict_ok f p fs vs0 e)) ->
  asc last (map eid l) -> 0 <= last ->
  (length (gen_go p l last) <= K)%nat ->
  sloop f p fs flags K (gen_go p l last ++ rest) last nf (cur_of (map eid l) fs vs0) seen =
    if has_flag flags f_strict && existsb (is_conflict fs) l then TErr EMismatch else
    if smissing fs (seen_after fs l seen) then TErr EMissing else TOk (TvStruct (cur_of [] fs vs0), rest).
Proof.
  intros Hnd Hids.
  induction l as [|e l' IHl]; intros last K nf seen rest Hent Hasc Hlast HK.
  - cbn [gen_go existsb] in *. rewrite andb_false_r. pose proof (stop_length p) as Hsl. destruct K as [|K']; [lia|].
    rewrite sloop_S, (rspec_full _ _ _ rest (r_field_stop_spec p)).
    cbv iota beta. change (0 =? c_STOP) with true. cbv iota. reflexivity.
  - assert (Hid : 1 <= fld_id (g_fd e) < 2 ^ 15) by (destruct (Hent e (or_introl eq_refl)) as [[H _]|[H _]]; exact H).
    pose proof (Hent e (or_introl eq_refl)) as Hcase.
    assert (Hent' : forall e', In e' l' -> gentry_ok f p fs vs0 e' \/ (1 <= fld_id (g_fd e') < 2 ^ 15 /\ gconflict_ok f p fs vs0 e')) by (intros e' He'; apply Hent; right; exact He').
    cbn [map asc] in Hasc. destruct Hasc as [Hlt Hasc]. change (eid e) with (fld_id (g_fd e)) in *.
    cbn [gen_go seen_after map existsb] in *. change (eid e) with (fld_id (g_fd e)).
    destruct (fskip (g_fd e) (g_x e)) eqn:Es.
    + (* not written *)
      replace (is_conflict fs e) with false by (unfold is_conflict; rewrite Es; reflexivity). cbn [orb].
      replace (cur_of (fld_id (g_fd e) :: map eid l') fs vs0) with (cur_of (map eid l') fs vs0).
      * apply IHl; try assumption. eapply asc_weaken; [|exact Hasc]. lia.
      * symmetry. destruct Hcase as [[_ [[i [Hi1 [Hi2 _]]]|[Hnin _]]]|[_ [i [fd' [x0 [Hi1 [Heq [Hi2 [Hsk0 _]]]]]]]]].
        -- eapply cur_of_skip; eauto. eapply NoDup_uniq; eauto.
        -- apply cur_of_irrel. intros fd Hfd Heq. apply Hnin. rewrite <- Heq. apply in_map. exact Hfd.
        -- rewrite <- Heq. eapply cur_of_skip; eauto. eapply NoDup_uniq; eauto.
    + (* written *)
      cbv zeta in *.
      set (ty := type_of (fld_ty (g_fd e))) in *.
      set (wty := if coalesce p ty && deref_bool (g_x e) then c_TRUE else ty) in *.
      set (B := if coalesce p ty then [] else g_body e) in *.
      assert (Hty : 2 <= ty <= 12) by apply type_of_range.
      assert (Hwty : 1 <= wty <= 12) by (unfold wty, c_TRUE; destruct (coalesce p ty && deref_bool (g_x e)); lia).
      destruct (ghdr_spec p (g_long e) last (fld_id (g_fd e)) wty ltac:(lia) ltac:(lia) Hwty) as [rid [isd [Hh Hrid]]].
      pose proof (ghdr_len p (g_long e) last (fld_id (g_fd e)) wty) as Hhl.
      rewrite !app_length in HK. destruct K as [|K']; [lia|].
      rewrite sloop_S. rewrite <- !app_assoc. rewrite (Hh _).
      cbv iota beta. replace (wty =? c_STOP) with false by (unfold c_STOP; lia).
      cbv zeta. rewrite Hrid.
      destruct Hcase as [[_ [[i [Hi1 [Hi2 Hk]]]|[Hnin Hsk]]]|[_ [i [fd' [x0 [Hi1 [Heq [Hi2 [Hsk0 [Htne Hsk]]]]]]]]]].
      * (* a declared field *)
        replace (is_conflict fs e) with false by (unfold is_conflict; rewrite (no_conflict_known fs i _ Hnd Hi1); symmetry; apply andb_false_r). cbn [orb].
        destruct (Hk Es) as [Hok [Hwf Hbody]].
        pose proof (NoDup_uniq fs i (g_fd e) Hnd Hi1) as Hu.
        assert (Hin : In (fld_id (g_fd e)) (map fld_id fs)) by (apply in_map; eapply nth_error_In; eauto).
        pose proof (slot_bounds fs (fld_id (g_fd e)) Hids Hin) as Hsb.
        replace ((fld_id (g_fd e) - s_minID fs <? 0) || (fld_id (g_fd e) - s_minID fs >=? s_maxID fs - s_minID fs + 1)) with false by lia.
        rewrite (lookup_go_found fs O i (g_fd e) Hi1 Hu). cbn [Nat.add]. cbv iota beta.
        replace (_ / 64 >=? _ / 64 + 1) with false by (symmetry; rewrite Z.geb_leb; apply Z.leb_gt; dmlia).
        rewrite (existsb_eqb_in _ _ Hin).
        assert (Hnil : nilp (g_x e) = false) by (unfold fskip in Es; apply orb_false_elim in Es; apply Es).
        assert (Hold : nth i (cur_of (fld_id (g_fd e) :: map eid l') fs vs0) (zero_of (fld_ty (g_fd e))) = zero_of (fld_ty (g_fd e))).
        { apply nth_error_nth. rewrite (cur_of_nth_error _ fs vs0 i _ _ Hi1 Hi2). cbn [existsb]. rewrite Z.eqb_refl. reflexivity. }
        pose proof (cur_of_step (fld_id (g_fd e)) (map eid l') fs vs0 i _ _ Hi1 Hi2 eq_refl Hu) as Hstep.
        replace (existsb (Z.eqb (fld_id (g_fd e))) (map eid l')) with false in Hstep.
        2:{ symmetry. apply existsb_false. intros y Hy. apply Z.eqb_neq. intros Heq. subst y. revert Hy. eapply asc_notin; [exact Hasc | lia]. }
        rewrite Es in Hstep. cbn [orb] in Hstep.
        fold ty. unfold wty, B in *. clear wty B. destruct (coalesce p ty) eqn:Ec.
        -- destruct p; [discriminate Ec|]. cbn [coalesce] in Ec. assert (Ety : ty = c_BOOL) by lia.
           cbn [andb is_compact app length] in *. rewrite Ety in *.
           replace (negb ((if deref_bool (g_x e) then c_TRUE else c_BOOL) =? c_BOOL) && negb (((if deref_bool (g_x e) then c_TRUE else c_BOOL) =? c_TRUE) && (c_BOOL =? c_BOOL))) with false by (destruct (deref_bool (g_x e)); reflexivity).
           replace (((if deref_bool (g_x e) then c_TRUE else c_BOOL) =? c_TRUE) || ((if deref_bool (g_x e) then c_TRUE else c_BOOL) =? c_BOOL)) with true by (destruct (deref_bool (g_x e)); reflexivity).
           rewrite (bool_field (fld_ty (g_fd e)) (g_x e) Hok Ety Hwf Hnil). rewrite Hstep.
           apply IHl; try assumption; lia.
        -- cbn [andb] in *. rewrite Z.eqb_refl. cbn [negb andb].
           replace (is_compact p && ((ty =? c_TRUE) || (ty =? c_BOOL))) with false.
           2:{ destruct p; [reflexivity|]. cbn [coalesce] in Ec. rewrite Ec. replace (ty =? c_TRUE) with false by (unfold c_TRUE; lia). reflexivity. }
           rewrite Hold. rewrite (Hbody Ec). cbn [dont_expect_eof tbind]. rewrite Hstep.
           apply IHl; try assumption; lia.
      * (* a field the target does not declare *)
        replace (is_conflict fs e) with false by (unfold is_conflict; rewrite (no_conflict_unknown fs _ _ Hnin); symmetry; apply andb_false_r). cbn [orb].
        rewrite (existsb_eqb_notin _ _ Hnin).
        replace (if (fld_id (g_fd e) - s_minID fs <? 0) || (fld_id (g_fd e) - s_minID fs >=? s_maxID fs - s_minID fs + 1)
                 then None else lookup_go (fld_id (g_fd e)) fs 0) with (@None (nat * tfield)).
        2:{ destruct (_ || _); [reflexivity|]. symmetry. apply lookup_go_none. exact Hnin. }
        replace (cur_of (fld_id (g_fd e) :: map eid l') fs vs0) with (cur_of (map eid l') fs vs0).
        2:{ symmetry. apply cur_of_irrel. intros fd Hfd Heq. apply Hnin. rewrite <- Heq. apply in_map. exact Hfd. }
        fold ty. unfold wty, B in *. clear wty B. destruct (coalesce p ty) eqn:Ec.
        -- destruct p; [discriminate Ec|]. cbn [coalesce] in Ec. assert (Ety : ty = c_BOOL) by lia.
           cbn [andb is_compact app length] in *. rewrite Ety in *.
           replace ((((if deref_bool (g_x e) then c_TRUE else c_BOOL) =? c_TRUE) || ((if deref_bool (g_x e) then c_TRUE else c_BOOL) =? c_BOOL)) && true) with true by (destruct (deref_bool (g_x e)); reflexivity).
           cbn [dont_expect_eof tbind]. apply IHl; try assumption; lia.
        -- cbn [andb] in *.
           replace (((ty =? c_TRUE) || (ty =? c_BOOL)) && is_compact p) with false.
           2:{ destruct p; [rewrite andb_false_r; reflexivity|]. cbn [coalesce] in Ec. rewrite Ec. replace (ty =? c_TRUE) with false by (unfold c_TRUE; lia). reflexivity. }
           rewrite (Hsk Es Ec). cbn [dont_expect_eof tbind]. apply IHl; try assumption; lia.
      * (* the id of a declared field with another wire type *)
        assert (Hin : In (fld_id (g_fd e)) (map fld_id fs)) by (rewrite <- Heq; apply in_map; eapply nth_error_In; eauto).
        replace (is_conflict fs e) with true.
        2:{ symmetry. unfold is_conflict. rewrite Es. cbn [negb andb]. apply existsb_exists. exists fd'. split; [eapply nth_error_In; eauto|].
            rewrite Heq, Z.eqb_refl. cbn [andb]. apply negb_true_iff. apply Z.eqb_neq. exact Htne. }
        cbn [orb]. rewrite andb_true_r.
        pose proof (NoDup_uniq fs i fd' Hnd Hi1) as Hu.
        pose proof (slot_bounds fs (fld_id (g_fd e)) Hids Hin) as Hsb.
        replace ((fld_id (g_fd e) - s_minID fs <? 0) || (fld_id (g_fd e) - s_minID fs >=? s_maxID fs - s_minID fs + 1)) with false by lia.
        rewrite <- Heq at 1. rewrite (lookup_go_found fs O i fd' Hi1 Hu). cbn [Nat.add]. cbv iota beta.
        replace (_ / 64 >=? _ / 64 + 1) with false by (symmetry; rewrite Z.geb_leb; apply Z.leb_gt; dmlia).
        rewrite (existsb_eqb_in _ _ Hin).
        pose proof (type_of_range (fld_ty fd')) as Hfexp. fold ty in Htne.
        replace (negb (wty =? type_of (fld_ty fd')) && negb ((wty =? c_TRUE) && (type_of (fld_ty fd') =? c_BOOL))) with true.
        2:{ unfold wty. destruct p; cbn [coalesce andb]; unfold c_TRUE, c_BOOL in *.
            - lia.
            - destruct (ty =? 2) eqn:E2; cbn [andb]; [destruct (deref_bool (g_x e))|]; lia. }
        destruct (has_flag flags f_strict); [reflexivity|]. cbn [andb].
        replace (cur_of (fld_id (g_fd e) :: map eid l') fs vs0) with (cur_of (map eid l') fs vs0).
        2:{ symmetry. rewrite <- Heq. eapply cur_of_skip; eauto. }
        unfold wty, B in *. clear wty B. destruct (coalesce p ty) eqn:Ec.
        -- destruct p; [discriminate Ec|]. cbn [coalesce] in Ec. assert (Ety : ty = c_BOOL) by lia.
           cbn [andb is_compact app length] in *. rewrite Ety in *.
           replace ((((if deref_bool (g_x e) then c_TRUE else c_BOOL) =? c_TRUE) || ((if deref_bool (g_x e) then c_TRUE else c_BOOL) =? c_BOOL)) && true) with true by (destruct (deref_bool (g_x e)); reflexivity).
           cbn [dont_expect_eof tbind]. apply IHl; try assumption; lia.
        -- cbn [andb] in *.
           replace (((ty =? c_TRUE) || (ty =? c_BOOL)) && is_compact p) with false.
           2:{ destruct p; [rewrite andb_false_r; reflexivity|]. cbn [coalesce] in Ec. rewrite Ec. replace (ty =? c_TRUE) with false by (unfold c_TRUE; lia). reflexivity. }
           rewrite (Hsk Es Ec). cbn [dont_expect_eof tbind]. apply IHl; try assumption; lia.
Qed.

Lemma no_conflict_all f p fs vs0 l : NoDup (map fld_id fs) -> (forall e, In e l -> gentry_ok f p fs vs0 e) -> existsb (is_conflict fs) l = false.
Proof.
  intros Hnd H. apply existsb_false. intros e He. destruct (H e He) as [_ [[i [Hi1 _]]|[Hnin _]]]; unfold is_conflict.
  - rewrite (no_conflict_known fs i _ Hnd Hi1). apply andb_false_r.
  - rewrite (no_conflict_unknown fs _ _ Hnin). apply andb_false_r.
Qed.
Lemma sloop_gen f p fs vs0 flags :
  NoDup (map fld_id fs) -> (forall y, In y (map fld_id fs) -> 1 <= y) ->
  forall l last K nf seen rest,
  (forall e, In e l -> gentry_ok f p fs vs0 e) ->
  asc last (map eid l) -> 0 <= last ->
  (length (gen_go p l last) <= K)%nat ->
  sloop f p fs flags K (gen_go p l last ++ rest) last nf (cur_of (map eid l) fs vs0) seen =
    if smissing fs (seen_after fs l seen) then TErr EMissing else TOk (TvStruct (cur_of [] fs vs0), rest).
Proof.
  intros Hnd Hids l last K nf seen rest Hent Hasc Hlast HK.
  rewrite (sloop_gen3 f p fs vs0 flags Hnd Hids l last K nf seen rest); try assumption.
  - rewrite (no_conflict_all f p fs vs0 l Hnd Hent), andb_false_r. reflexivity.
  - intros e He. left. apply Hent. exact He.
Qed.

(* ====================================================================== *)
(* ---------- collection loops over abstract element encodings ---------- *)
Definition elem_ok (f : nat) (p : proto) (et : tty) (fl : Z) (wd : bytes * tval) : Prop :=
  (1 <= length (fst wd))%nat /\ forall rest, dec f p et fl (zero_of et) (fst wd ++ rest) = TOk (snd wd, rest).

Lemma lloop_f f p et flags : forall ws, Forall (elem_ok f p et (Z.land flags f_strict)) ws ->
  forall K acc rest, (length (concat (map fst ws)) + length rest < K)%nat ->
  lloop f p et flags K (len ws) acc (concat (map fst ws) ++ rest) = TOk (TvList true (rev acc ++ map snd ws), rest).
Proof.
  induction ws as [|wd ws' IH]; intros HF K acc rest HK.
  - rewrite lloop_eq. cbn. rewrite app_nil_r. reflexivity.
  - rewrite lloop_eq. replace (len (wd :: ws') <=? 0) with false by (unfold len; cbn [length]; lia).
    inversion HF as [|? ? [Hl Hd] HF']; subst. cbn [map concat] in *. rewrite app_length in HK.
    destruct K as [|K']; [lia|]. rewrite <- app_assoc. rewrite Hd. cbn [dont_expect_eof tbind].
    replace (len (wd :: ws') - 1) with (len ws') by (unfold len; cbn [length]; lia).
    rewrite IH by (try assumption; lia). cbn [rev]. rewrite <- app_assoc. reflexivity.
Qed.

Fixpoint pdist (ks : list tval) : Prop :=
  match ks with [] => True | x :: r => (forall y, In y r -> tval_eqb x y = false) /\ pdist r end.
Lemma stloop_f f p kt flags : forall ws, Forall (elem_ok f p kt (Z.land flags f_strict)) ws ->
  forall K acc rest, (forall a y, In a acc -> In y (map snd ws) -> tval_eqb a y = false) -> pdist (map snd ws) ->
  (length (concat (map fst ws)) + length rest < K)%nat ->
  stloop f p kt flags K (len ws) acc (concat (map fst ws) ++ rest) = TOk (TvSet true (acc ++ map snd ws), rest).
Proof.
  induction ws as [|wd ws' IH]; intros HF K acc rest Hacc HD HK.
  - rewrite stloop_eq. cbn. rewrite app_nil_r. reflexivity.
  - rewrite stloop_eq. replace (len (wd :: ws') <=? 0) with false by (unfold len; cbn [length]; lia).
    inversion HF as [|? ? [Hl Hd] HF']; subst. cbn [map concat pdist] in *. rewrite app_length in HK. destruct HD as [HD1 HD2].
    destruct K as [|K']; [lia|]. rewrite <- app_assoc. rewrite Hd. cbn [dont_expect_eof tbind].
    replace (len (wd :: ws') - 1) with (len ws') by (unfold len; cbn [length]; lia).
    rewrite set_add_new by (intros a Ha; apply Hacc; [exact Ha | left; reflexivity]).
    rewrite IH; try assumption; try lia.
    + rewrite <- app_assoc. reflexivity.
    + intros a y Ha Hy. apply in_app_or in Ha. destruct Ha as [Ha|[Ha|[]]].
      * apply Hacc; [exact Ha | right; exact Hy].
      * subst a. apply HD1. exact Hy.
Qed.

Definition pair_ok (f : nat) (p : proto) (kt vt : tty) (fl : Z) (wd : (bytes * tval) * (bytes * tval)) : Prop :=
  elem_ok f p kt fl (fst wd) /\ elem_ok f p vt fl (snd wd).
Definition pbytes (wd : (bytes * tval) * (bytes * tval)) : bytes := fst (fst wd) ++ fst (snd wd).
Definition pval (wd : (bytes * tval) * (bytes * tval)) : tval * tval := (snd (fst wd), snd (snd wd)).
Lemma mloop_f f p kt vt flags : forall ws, Forall (pair_ok f p kt vt (Z.land flags f_strict)) ws ->
  forall K acc rest, (forall a kv, In a acc -> In kv (map pval ws) -> tval_eqb (fst a) (fst kv) = false) ->
  pdist (map (fun wd => fst (pval wd)) ws) ->
  (length (concat (map pbytes ws)) + length rest < K)%nat ->
  mloop f p kt vt flags K (len ws) acc (concat (map pbytes ws) ++ rest) = TOk (TvMap true (acc ++ map pval ws), rest).
Proof.
  induction ws as [|wd ws' IH]; intros HF K acc rest Hacc HD HK.
  - rewrite mloop_eq. cbn. rewrite app_nil_r. reflexivity.
  - rewrite mloop_eq. replace (len (wd :: ws') <=? 0) with false by (unfold len; cbn [length]; lia).
    inversion HF as [|? ? [[Hl1 Hd1] [Hl2 Hd2]] HF']; subst. cbn [map concat pdist] in *. unfold pbytes at 1 in HK. rewrite !app_length in HK.
    destruct HD as [HD1 HD2].
    destruct K as [|K']; [lia|]. unfold pbytes at 1. rewrite <- !app_assoc. rewrite Hd1. cbn [dont_expect_eof tbind].
    rewrite Hd2. cbn [dont_expect_eof tbind].
    replace (len (wd :: ws') - 1) with (len ws') by (unfold len; cbn [length]; lia).
    rewrite map_set_new by (intros a Ha; apply (Hacc a (pval wd)); [exact Ha | left; reflexivity]).
    rewrite IH; try assumption; try lia.
    + rewrite <- app_assoc. reflexivity.
    + intros a kv Ha Hkv. apply in_app_or in Ha. destruct Ha as [Ha|[Ha|[]]].
      * apply Hacc; [exact Ha | right; exact Hkv].
      * subst a. cbn [fst]. apply HD1.
        apply in_map_iff in Hkv. destruct Hkv as [w [<- Hw]]. apply (in_map (fun wd => fst (pval wd)) _ _ Hw).
Qed.

(* ====================================================================== *)
(* ---------- C13: alternative encodings ---------- *)
Definition alt_elems (ch : choice) (et : tty) := fix go (i : nat) (es : list tval) : bytes :=
  match es with [] => [] | x :: r => spec_enc_alt (sub ch i) et x ++ go (S i) r end.
Definition alt_pairs (ch : choice) (kt vt : tty) := fix go (i : nat) (es : list (tval * tval)) : bytes :=
  match es with
  | [] => []
  | (k, x) :: r => spec_enc_alt (sub ch (2 * i)) kt k ++ spec_enc_alt (sub ch (2 * i + 1)) vt x ++ go (S i) r
  end.
Definition alt_body (ch : choice) (i : nat) (f : tfield) (x : tval) : bytes :=
  match f with TField _ fl ft =>
    if has_flag fl f_enum then (match x with TvInt z => s_i32 PCompact z | _ => [] end)
    else spec_enc_alt (sub ch (S i)) ft x end.
Definition alt_mk (ch : choice) := fix mk (i : nat) (fs : list tfield) (vs : list tval) : list gentry :=
  match fs, vs with
  | f :: fr, x :: vr => (f, (x, (ch [O; i], alt_body ch i f x))) :: mk (S i) fr vr
  | _, _ => []
  end.
Definition alt_go := fix go (l : list gentry) (last : Z) : bytes :=
  match l with
  | [] => [0]
  | (f, (x, (long, body))) :: r =>
      if (match x with TvPtr None => true | _ => false end) || (negb (has_flag (fld_flags f) f_required) && is_zero_t (fld_ty f) x)
      then go r last else
      let isbool := spec_code PCompact (fld_ty f) =? 2 in
      let code := if isbool then (if deref_bool x then 1 else 2) else spec_code PCompact (fld_ty f) in
      alt_field_header long last (fld_id f) code ++ (if isbool then [] else body) ++ go r (fld_id f)
  end.
Lemma alt_list_eq ch et nn es : spec_enc_alt ch (ThList et) (TvList nn es) =
  alt_list_header (ch []) (code_of pkg_dev PCompact et) (len es) ++ alt_elems ch et O es.
Proof. reflexivity. Qed.
Lemma alt_set_eq ch kt nn ks : spec_enc_alt ch (ThSet kt) (TvSet nn ks) =
  alt_list_header (ch []) (code_of pkg_dev PCompact kt) (len ks) ++ alt_elems ch kt O ks.
Proof. reflexivity. Qed.
Lemma alt_map_eq ch kt vt nn es : spec_enc_alt ch (ThMap kt vt) (TvMap nn es) =
  (uvarint (len es) ++ (if len es =? 0 then [] else [code_of pkg_dev PCompact kt * 16 + code_of pkg_dev PCompact vt])) ++
  alt_pairs ch kt vt O es.
Proof. reflexivity. Qed.
Lemma alt_struct_eq ch fs vs : spec_enc_alt ch (ThStruct fs) (TvStruct vs) = alt_go (sort_by_id (alt_mk ch O fs vs)) 0.
Proof. reflexivity. Qed.

Lemma alt_go_gen : forall l last, alt_go l last = gen_go PCompact l last.
Proof.
  induction l as [|[f [x [long body]]] r IH]; intros last; [reflexivity|].
  cbn [alt_go gen_go g_fd g_x g_long g_body fst snd]. rewrite !IH.
  change ((match x with TvPtr None => true | _ => false end) || (negb (has_flag (fld_flags f) f_required) && is_zero_t (fld_ty f) x)) with (fskip f x).
  destruct (fskip f x); [reflexivity|]. cbv zeta. rewrite ProofsA.spec_code_compact. cbn [coalesce ghdr].
  change 2 with c_BOOL. destruct (type_of (fld_ty f) =? c_BOOL) eqn:E; [|reflexivity].
  cbn [andb]. assert (type_of (fld_ty f) = c_BOOL) by lia. destruct (deref_bool x); [reflexivity | rewrite H; reflexivity].
Qed.

Lemma gen_go_len_pos p l : forall last, (1 <= length (gen_go p l last))%nat.
Proof.
  induction l as [|e r IH]; intros last; cbn [gen_go]; [apply stop_length|].
  destruct (fskip _ _); [apply IH|]. cbv zeta. rewrite app_length.
  pose proof (ghdr_len p (g_long e) last (fld_id (g_fd e))
    (if coalesce p (type_of (fld_ty (g_fd e))) && deref_bool (g_x e) then c_TRUE else type_of (fld_ty (g_fd e)))). lia.
Qed.
Lemma gen_go_body_len p l : forall last e, In e l -> fskip (g_fd e) (g_x e) = false -> coalesce p (type_of (fld_ty (g_fd e))) = false ->
  (length (g_body e) + 2 <= length (gen_go p l last))%nat.
Proof.
  induction l as [|a r IH]; intros last e [] Hs Hc; cbn [gen_go].
  - subst a. rewrite Hs. cbv zeta. rewrite Hc. rewrite !app_length.
    pose proof (ghdr_len p (g_long e) last (fld_id (g_fd e)) (if false && deref_bool (g_x e) then c_TRUE else type_of (fld_ty (g_fd e)))).
    pose proof (gen_go_len_pos p r (fld_id (g_fd e))). lia.
  - destruct (fskip (g_fd a) (g_x a)); [exact (IH last e H Hs Hc)|]. cbv zeta. rewrite !app_length.
    specialize (IH (fld_id (g_fd a)) e H Hs Hc). lia.
Qed.

Lemma seen_after_mono fs l : forall seen s, In s seen -> In s (seen_after fs l seen).
Proof.
  induction l as [|a r IH]; intros seen s Hs; cbn [seen_after]; [exact Hs|].
  destruct (fskip _ _); [apply IH; exact Hs|]. destruct (existsb _ _); apply IH; [right|]; exact Hs.
Qed.
Lemma seen_after_in fs l : forall seen e, In e l -> fskip (g_fd e) (g_x e) = false -> In (fld_id (g_fd e)) (map fld_id fs) ->
  In (fld_id (g_fd e) - s_minID fs) (seen_after fs l seen).
Proof.
  induction l as [|a r IH]; intros seen e [] Hs Hin; cbn [seen_after].
  - subst a. rewrite Hs, (existsb_eqb_in _ _ Hin). apply seen_after_mono. left. reflexivity.
  - destruct (fskip (g_fd a) (g_x a)); [apply IH; assumption|]. destruct (existsb _ _); apply IH; assumption.
Qed.
Lemma smissing_false fs seen :
  (forall fd, In fd fs -> has_flag (fld_flags fd) f_required = true -> In (fld_id fd - s_minID fs) seen) -> smissing fs seen = false.
Proof.
  intros H. apply existsb_false. intros fd Hfd. destruct (has_flag (fld_flags fd) f_required) eqn:Er; [|reflexivity].
  cbn [andb]. rewrite (existsb_eqb_in _ _ (H fd Hfd Er)). reflexivity.
Qed.

Definition mainA (t : tty) : Prop := forall ch v flags fuel, ty_ok t = true -> tval_wf t v = true -> nilp v = false ->
  (length (spec_enc_alt ch t v) + tdepth t <= fuel)%nat ->
  fspec (dec fuel PCompact t flags (zero_of t)) (spec_enc_alt ch t v) (dval t v).
Definition lenA (t : tty) : Prop := forall ch v, ty_ok t = true -> tval_wf t v = true -> nilp v = false ->
  (1 <= length (spec_enc_alt ch t v))%nat.

Lemma alt_scalar_eq t ch v : ty_ok t = true -> tval_wf t v = true ->
  (forall ch v, spec_enc_alt ch t v = spec_enc pkg_dev PCompact t v) -> spec_enc_alt ch t v = enc PCompact t v.
Proof. intros Hok Hwf H. rewrite H. symmetry. apply ProofsA.conforms_gen; [exact Hok | left; exact Hwf]. Qed.
Lemma mainA_scalar t : (forall ch v, spec_enc_alt ch t v = spec_enc pkg_dev PCompact t v) -> mainA t.
Proof.
  intros H ch v flags fuel Hok Hwf Hn Hf. rewrite (alt_scalar_eq t ch v Hok Hwf H) in *.
  apply rspec_fspec. apply main_all; assumption.
Qed.
Lemma lenA_scalar t : (forall ch v, spec_enc_alt ch t v = spec_enc pkg_dev PCompact t v) -> lenA t.
Proof. intros H ch v Hok Hwf Hn. rewrite (alt_scalar_eq t ch v Hok Hwf H). apply enc_len_pos; assumption. Qed.

Lemma lenA_all : forall t, lenA t.
Proof.
  apply tty_ind'; try (apply lenA_scalar; intros ch v; destruct v; reflexivity).
  - intros et _ ch v Hok Hwf Hn. destruct v; try discriminate Hwf. rewrite alt_list_eq, app_length.
    pose proof (alt_list_header_len (ch []) (code_of pkg_dev PCompact et) (len es)). lia.
  - intros et _ ch v Hok Hwf Hn. destruct v; try discriminate Hwf. rewrite alt_set_eq, app_length.
    pose proof (alt_list_header_len (ch []) (code_of pkg_dev PCompact et) (len ks)). lia.
  - intros kt vt _ _ ch v Hok Hwf Hn. destruct v; try discriminate Hwf. rewrite alt_map_eq, !app_length.
    pose proof (uvarint_length (len es)). lia.
  - intros fs _ ch v Hok Hwf Hn. destruct v; try discriminate Hwf. rewrite alt_struct_eq, alt_go_gen. apply gen_go_len_pos.
  - intros t IH ch v Hok Hwf Hn. destruct v; try discriminate Hwf. destruct o; [|discriminate Hn].
    cbn [ty_ok] in Hok. apply andb_true_iff in Hok. destruct Hok as [Hok1 Hok2]. cbn [spec_enc_alt]. cbn [tval_wf] in Hwf.
    apply IH; [exact Hok1 | exact Hwf |]. eapply wf_not_ptr; eauto.
Qed.

Lemma mainA_ptr t : mainA t -> mainA (ThPtr t).
Proof.
  intros IH ch v flags fuel Hok Hwf Hn Hf. destruct v; try discriminate Hwf. destruct o; [|discriminate Hn].
  cbn [ty_ok] in Hok. apply andb_true_iff in Hok. destruct Hok as [Hok1 Hok2].
  destruct fuel; [simpl in Hf; lia|].
  intros rest. rewrite dec_ptr_eq. cbn [spec_enc_alt dval zero_of] in *. cbn [tval_wf] in Hwf. cbn [tdepth] in Hf.
  rewrite (IH ch t0 flags fuel Hok1 Hwf (wf_not_ptr _ _ Hwf Hok2) ltac:(lia) rest). reflexivity.
Qed.

(* element lists *)
Fixpoint alt_ws (ch : choice) (et : tty) (i : nat) (es : list tval) : list (bytes * tval) :=
  match es with [] => [] | x :: r => (spec_enc_alt (sub ch i) et x, dval et x) :: alt_ws ch et (S i) r end.
Lemma alt_ws_bytes ch et : forall es i, concat (map fst (alt_ws ch et i es)) = alt_elems ch et i es.
Proof. induction es as [|x r IH]; intros i; [reflexivity|]. cbn [alt_ws map concat alt_elems fst]. rewrite IH. reflexivity. Qed.
Lemma alt_ws_vals ch et : forall es i, map snd (alt_ws ch et i es) = map (dval et) es.
Proof. induction es as [|x r IH]; intros i; [reflexivity|]. cbn [alt_ws map snd]. rewrite IH. reflexivity. Qed.
Lemma alt_ws_len ch et : forall es i, len (alt_ws ch et i es) = len es.
Proof. unfold len. induction es as [|x r IH]; intros i; [reflexivity|]. cbn [alt_ws length]. specialize (IH (S i)). lia. Qed.
Lemma alt_ws_ok f et fl ch : mainA et -> ty_ok et = true -> forall es i,
  Forall (fun x => tval_wf et x = true /\ nilp x = false) es ->
  (length (alt_elems ch et i es) + tdepth et <= f)%nat ->
  Forall (elem_ok f PCompact et fl) (alt_ws ch et i es).
Proof.
  intros IH Hok. induction es as [|x r IHr]; intros i HF Hf; [constructor|].
  inversion HF as [|? ? [Hx1 Hx2] HF']; subst. cbn [alt_elems] in Hf. rewrite app_length in Hf. fold (alt_elems ch et) in Hf.
  cbn [alt_ws]. constructor.
  - split; cbn [fst snd]; [apply lenA_all; assumption|]. intros rest. apply IH; try assumption. lia.
  - apply IHr; [exact HF' | lia].
Qed.

Lemma mainA_list et : mainA et -> mainA (ThList et).
Proof.
  intros IH ch v flags fuel Hok Hwf Hn Hf. destruct v; try discriminate Hwf.
  destruct fuel; [simpl in Hf; lia|]. cbn [ty_ok] in Hok. apply wf_list_inv in Hwf. destruct Hwf as [Hlen HF].
  intros rest. rewrite dec_list_eq, alt_list_eq in *. rewrite ProofsA.code_of_pkg in *. rewrite <- app_assoc. cbn [dval].
  pose proof (type_of_range et) as Hty. unfold tlim in Hlen.
  rewrite (alt_list_header_spec (ch []) (type_of et) (len es) ltac:(unfold len in *; lia) ltac:(lia)). cbn [tbind].
  cbv zeta. replace (type_of et =? c_TRUE) with false by (unfold c_TRUE; lia).
  rewrite Z.eqb_refl. cbn [negb]. replace (len es <? 0) with false by (unfold len; lia).
  rewrite app_length in Hf. cbn [tdepth] in Hf.
  rewrite <- (alt_ws_bytes ch et es O), <- (alt_ws_len ch et es O).
  rewrite lloop_f.
  - rewrite alt_ws_vals. reflexivity.
  - apply alt_ws_ok; try assumption. lia.
  - rewrite app_length. lia.
Qed.

Lemma sdist_split kt ks : sdist kt ks -> Forall (fun x => tval_wf kt x = true) ks /\ pdist ks.
Proof.
  induction ks as [|x r IH]; cbn [sdist pdist]; [split; [constructor | exact I]|].
  intros [H1 [H2 H3]]. destruct (IH H3). split; [constructor; assumption | split; assumption].
Qed.
Lemma map_dval_key kt ks : is_key_ty kt = true -> Forall (fun x => tval_wf kt x = true) ks -> map (dval kt) ks = ks.
Proof.
  intros Hk HF. induction HF as [|x r Hx HF IH]; [reflexivity|]. cbn [map]. rewrite IH.
  destruct (key_facts kt x Hk Hx) as [-> _]. reflexivity.
Qed.

Lemma mainA_set kt : mainA kt -> mainA (ThSet kt).
Proof.
  intros IH ch v flags fuel Hok Hwf Hn Hf. destruct v; try discriminate Hwf.
  destruct fuel; [simpl in Hf; lia|]. cbn [ty_ok] in Hok. apply wf_set_inv in Hwf. destruct Hwf as [Hlen HD].
  destruct (sdist_split kt ks HD) as [HW HP].
  intros rest. rewrite dec_set_eq, alt_set_eq in *. rewrite ProofsA.code_of_pkg in *. rewrite <- app_assoc. cbn [dval].
  pose proof (type_of_range kt) as Hty. unfold tlim in Hlen.
  rewrite (alt_list_header_spec (ch []) (type_of kt) (len ks) ltac:(unfold len in *; lia) ltac:(lia)). cbn [tbind].
  cbv zeta. replace (type_of kt =? c_TRUE) with false by (unfold c_TRUE; lia).
  rewrite Z.eqb_refl. cbn [negb]. replace (len ks <? 0) with false by (unfold len; lia).
  destruct (len ks =? 0) eqn:E0.
  - destruct ks; [|unfold len in E0; cbn [length] in E0; lia]. reflexivity.
  - rewrite app_length in Hf. cbn [tdepth] in Hf.
    rewrite <- (alt_ws_bytes ch kt ks O), <- (alt_ws_len ch kt ks O).
    assert (Hokk : ty_ok kt = true) by (destruct kt; try discriminate Hok; reflexivity).
    rewrite stloop_f.
    + rewrite alt_ws_vals, (map_dval_key kt ks Hok HW). reflexivity.
    + apply alt_ws_ok; try assumption; [|lia].
      clear - HW Hok. induction HW as [|x r Hx HW IHr]; constructor; [|exact IHr].
      split; [exact Hx|]. apply (key_facts kt x Hok Hx).
    + intros a y [].
    + rewrite alt_ws_vals, (map_dval_key kt ks Hok HW). exact HP.
    + rewrite app_length. lia.
Qed.

(* maps *)
Fixpoint alt_pws (ch : choice) (kt vt : tty) (i : nat) (es : list (tval * tval)) : list ((bytes * tval) * (bytes * tval)) :=
  match es with
  | [] => []
  | kx :: r => ((spec_enc_alt (sub ch (2 * i)) kt (fst kx), dval kt (fst kx)),
                (spec_enc_alt (sub ch (2 * i + 1)) vt (snd kx), dval vt (snd kx))) :: alt_pws ch kt vt (S i) r
  end.
Lemma alt_pws_bytes ch kt vt : forall es i, concat (map pbytes (alt_pws ch kt vt i es)) = alt_pairs ch kt vt i es.
Proof.
  induction es as [|[k x] r IH]; intros i; [reflexivity|]. cbn [alt_pws map concat alt_pairs fst snd]. rewrite IH.
  unfold pbytes. cbn [fst snd]. rewrite <- app_assoc. reflexivity.
Qed.
Lemma alt_pws_len ch kt vt : forall es i, len (alt_pws ch kt vt i es) = len es.
Proof. unfold len. induction es as [|x r IH]; intros i; [reflexivity|]. cbn [alt_pws length]. specialize (IH (S i)). lia. Qed.
Lemma alt_pws_vals ch kt vt : is_key_ty kt = true -> forall es i, mdist kt vt es -> map pval (alt_pws ch kt vt i es) = map (dpair vt) es.
Proof.
  intros Hk. induction es as [|[k x] r IH]; intros i HD; [reflexivity|]. cbn [mdist fst snd] in HD. destruct HD as [Hk1 [_ [_ [_ HD]]]].
  cbn [alt_pws map fst snd]. rewrite IH by exact HD. unfold pval at 1, dpair at 2. cbn [fst snd].
  destruct (key_facts kt k Hk Hk1) as [-> _]. reflexivity.
Qed.
Lemma alt_pws_ok f kt vt fl ch : mainA kt -> mainA vt -> is_key_ty kt = true -> ty_ok vt = true -> forall es i,
  mdist kt vt es -> (length (alt_pairs ch kt vt i es) + Nat.max (tdepth kt) (tdepth vt) <= f)%nat ->
  Forall (pair_ok f PCompact kt vt fl) (alt_pws ch kt vt i es).
Proof.
  intros IHk IHv Hk Hokv. induction es as [|[k x] r IHr]; intros i HD Hf; [constructor|].
  cbn [mdist fst snd] in HD. destruct HD as [Hk1 [Hx1 [Hx2 [_ HD]]]].
  destruct (key_facts kt k Hk Hk1) as [_ [Hk2 Hokk]].
  cbn [alt_pairs] in Hf. rewrite !app_length in Hf. fold (alt_pairs ch kt vt) in Hf.
  cbn [alt_pws fst snd]. constructor.
  - split; split; cbn [fst snd]; try (apply lenA_all; assumption).
    + intros rest. apply IHk; try assumption. lia.
    + intros rest. apply IHv; try assumption. lia.
  - apply IHr; [exact HD | lia].
Qed.
Lemma mdist_keys kt vt es : mdist kt vt es -> pdist (map fst es).
Proof.
  induction es as [|kx r IH]; cbn [mdist map pdist]; [auto|]. intros [_ [_ [_ [H HD]]]]. split; [|apply IH; exact HD].
  intros y Hy. apply in_map_iff in Hy. destruct Hy as [kv [<- Hkv]]. apply H. exact Hkv.
Qed.
Lemma alt_map_hdr n k v : 1 <= k <= 12 -> 1 <= v <= 12 ->
  uvarint n ++ (if n =? 0 then [] else [k * 16 + v]) = w_map PCompact n k v.
Proof. intros Hk Hv. unfold w_map. rewrite nib by lia. do 2 f_equal. destruct (n =? 0); [reflexivity|]. f_equal. lia. Qed.

Lemma mainA_map kt vt : mainA kt -> mainA vt -> mainA (ThMap kt vt).
Proof.
  intros IHk IHv ch v flags fuel Hok Hwf Hn Hf. destruct v; try discriminate Hwf.
  destruct fuel; [simpl in Hf; lia|]. cbn [ty_ok] in Hok.
  apply andb_true_iff in Hok. destruct Hok as [Hok _]. apply andb_true_iff in Hok. destruct Hok as [Hkey Hokv].
  apply wf_map_inv in Hwf. destruct Hwf as [Hlen HD].
  pose proof (type_of_range kt) as Htk. pose proof (type_of_range vt) as Htv. unfold tlim in Hlen.
  intros rest. rewrite dec_map_eq, alt_map_eq in *. rewrite !ProofsA.code_of_pkg in *.
  rewrite (alt_map_hdr (len es) (type_of kt) (type_of vt) ltac:(lia) ltac:(lia)) in *. rewrite <- app_assoc. cbn [dval].
  rewrite (rspec_full _ _ _ _ (r_map_spec PCompact (len es) (type_of kt) (type_of vt) ltac:(unfold len in *; lia) ltac:(lia) ltac:(lia))).
  cbn [tbind]. unfold map_res. destruct (len es =? 0) eqn:E0.
  - destruct es; [|unfold len in E0; cbn [length] in E0; lia]. reflexivity.
  - cbv iota beta. rewrite E0. replace (len es <? 0) with false by (unfold len; lia). rewrite !Z.eqb_refl. cbn [negb].
    rewrite app_length in Hf. cbn [tdepth] in Hf.
    rewrite <- (alt_pws_bytes ch kt vt es O), <- (alt_pws_len ch kt vt es O).
    rewrite mloop_f.
    + rewrite (alt_pws_vals ch kt vt Hkey es O HD). reflexivity.
    + apply alt_pws_ok; try assumption. lia.
    + intros a y [].
    + rewrite <- map_map. rewrite (alt_pws_vals ch kt vt Hkey es O HD). rewrite map_map.
      replace (map (fun x => fst (dpair vt x)) es) with (map fst es) by (apply map_ext; intros [k x]; reflexivity).
      eapply mdist_keys; eauto.
    + rewrite app_length. lia.
Qed.

(* structs *)
Lemma alt_mk_ids ch fs : forall vs k, length vs = length fs -> map eid (alt_mk ch k fs vs) = map fld_id fs.
Proof.
  induction fs as [|f fr IH]; intros [|x vr] k H; try discriminate H; [reflexivity|].
  cbn [alt_mk map]. rewrite IH by (cbn in H; lia). reflexivity.
Qed.
Lemma alt_mk_in ch fs : forall vs k e, In e (alt_mk ch k fs vs) ->
  exists i, nth_error fs i = Some (g_fd e) /\ nth_error vs i = Some (g_x e) /\ g_body e = alt_body ch (k + i) (g_fd e) (g_x e).
Proof.
  induction fs as [|f fr IH]; intros [|x vr] k e H; try contradiction H.
  cbn [alt_mk] in H. destruct H as [<-|H].
  - exists O. rewrite Nat.add_0_r. repeat split.
  - destruct (IH vr (S k) e H) as [i Hi]. exists (S i). replace (k + S i)%nat with (S k + i)%nat by lia. exact Hi.
Qed.
Lemma alt_mk_nth ch fs : forall vs k i f x, nth_error fs i = Some f -> nth_error vs i = Some x ->
  exists lg, In (f, (x, (lg, alt_body ch (k + i) f x))) (alt_mk ch k fs vs).
Proof.
  induction fs as [|f0 fr IH]; intros [|x0 vr] k [|i] f x Hf Hx; try discriminate.
  - cbn in Hf, Hx. inversion Hf; inversion Hx; subst. eexists. cbn [alt_mk]. left. rewrite Nat.add_0_r. reflexivity.
  - cbn in Hf, Hx. destruct (IH vr (S k) i f x Hf Hx) as [lg H]. exists lg. cbn [alt_mk]. right.
    replace (k + S i)%nat with (S k + i)%nat by lia. exact H.
Qed.

Lemma mainA_struct fs : Forall (fun f => mainA (fld_ty f)) fs -> mainA (ThStruct fs).
Proof.
  intros HP ch v flags fuel Hok Hwf Hn Hf. destruct v; try discriminate Hwf.
  destruct (struct_good fs vs Hok Hwf ltac:(apply Forall_forall; intros; apply main_all)) as [Hnd HF].
  destruct (tdepth_struct fs) as [D [HD1 HD2]]. rewrite HD1 in Hf.
  destruct fuel as [|f]; [lia|].
  assert (Hlen : length vs = length fs) by (symmetry; eapply Forall2_len; eauto).
  assert (Hids : forall y, In y (map fld_id fs) -> 1 <= y).
  { intros y Hy. apply in_map_iff in Hy. destruct Hy as [fd [<- Hfd]]. destruct (Forall2_in_l _ _ _ _ HF Hfd) as [b [Hb _]]. lia. }
  destruct (sort_by_id_spec (alt_mk ch O fs vs) 0) as [Hasc Hin].
  { rewrite alt_mk_ids by exact Hlen. exact Hnd. }
  { intros e He. destruct (alt_mk_in ch fs vs O e He) as [i [Hi _]]. unfold eid. apply nth_error_In in Hi.
    specialize (Hids _ (in_map fld_id _ _ Hi)). unfold g_fd in Hids. lia. }
  assert (Hall : forall fd, In fd fs -> exists e, In e (sort_by_id (alt_mk ch O fs vs)) /\ g_fd e = fd /\
                   exists i, nth_error fs i = Some fd /\ nth_error vs i = Some (g_x e)).
  { intros fd Hfd. apply In_nth_error in Hfd. destruct Hfd as [i Hi].
    destruct (nth_error vs i) as [x|] eqn:Hx.
    - destruct (alt_mk_nth ch fs vs O i fd x Hi Hx) as [lg Hl]. eexists. split; [apply Hin; exact Hl|]. split; [reflexivity|].
      exists i. split; [exact Hi | exact Hx].
    - exfalso. apply nth_error_None in Hx. assert (i < length fs)%nat by (apply nth_error_Some; rewrite Hi; discriminate). lia. }
  intros rest. rewrite dec_struct_eq, alt_struct_eq, alt_go_gen in *. rewrite zero_struct_eq, dval_struct_eq.
  rewrite <- (cur_of_all (map eid (sort_by_id (alt_mk ch O fs vs))) fs vs Hlen).
  2:{ intros fd Hfd. destruct (Hall fd Hfd) as [e [He [<- _]]]. apply (in_map eid _ e He). }
  rewrite (sloop_gen f PCompact fs vs flags Hnd Hids); try assumption; try lia.
  - rewrite smissing_false; [reflexivity|]. intros fd Hfd Er.
    destruct (Hall fd Hfd) as [e [He [Hfe [i [Hi1 Hi2]]]]]. subst fd.
    apply seen_after_in; [exact He | | apply in_map; exact Hfd].
    pose proof (Forall2_nth_error _ _ _ _ _ _ HF Hi1 Hi2) as [_ [_ [_ [_ [Hreq _]]]]].
    unfold fskip. rewrite Er, (Hreq Er). reflexivity.
  - intros e He. apply Hin in He. pose proof He as He0. apply Hin in He0.
    destruct (alt_mk_in ch fs vs O e He) as [i [Hi1 [Hi2 Hi3]]].
    pose proof (Forall2_nth_error _ _ _ _ _ _ HF Hi1 Hi2) as [Hid [Hokt [Hwft [Hen [Hreq _]]]]].
    split; [exact Hid|]. left. exists i. split; [exact Hi1|]. split; [exact Hi2|].
    intros Hs. split; [exact Hokt|]. split; [exact Hwft|]. intros Hc fl rest0.
    pose proof (gen_go_body_len PCompact _ 0 e He0 Hs Hc) as Hbl.
    assert (HDe : (tdepth (fld_ty (g_fd e)) <= D)%nat) by (apply HD2; eapply nth_error_In; eauto).
    assert (Hnil : nilp (g_x e) = false) by (unfold fskip in Hs; apply orb_false_elim in Hs; apply Hs).
    rewrite Hi3 in *. unfold fdec. destruct (g_fd e) as [id fl0 ft] eqn:Efd. cbn [alt_body fld_flags fld_ty] in *.
    destruct (has_flag fl0 f_enum) eqn:Ee.
    + rewrite (Hen eq_refl) in *. destruct (g_x e); try discriminate Hwft. cbn [tval_wf] in Hwft. cbn [dval].
      pose proof (rspec_full _ _ _ rest0 (r_i32_spec PCompact z ltac:(clear - Hwft; lia))) as H32. cbn [w_i32] in H32. unfold varint in H32.
      unfold s_i32. rewrite H32. reflexivity.
    + pose proof (proj1 (Forall_forall _ fs) HP _ (nth_error_In _ _ Hi1)) as IHt. cbn [fld_ty] in IHt.
      apply IHt; try assumption. clear - Hbl HDe Hf. lia.
Qed.

Theorem mainA_all : forall t, mainA t.
Proof.
  apply tty_ind'; try (apply mainA_scalar; intros ch v; destruct v; reflexivity).
  - exact mainA_list. - exact mainA_set. - exact mainA_map. - exact mainA_struct. - exact mainA_ptr.
Qed.

(* ---------- no long form chosen: the transcription itself ---------- *)
Definition lift (e : tfield * (tval * bytes)) : gentry := (fst e, (fst (snd e), (false, snd (snd e)))).
Lemma insert_lift x l : insert_by_id (lift x) (map lift l) = map lift (insert_by_id x l).
Proof.
  induction l as [|y r IH]; [reflexivity|]. cbn [map insert_by_id]. change (fst (lift y)) with (fst y). change (fst (lift x)) with (fst x).
  destruct (_ <=? _); [|reflexivity]. cbn [map]. rewrite IH. reflexivity.
Qed.
Lemma sort_lift_fold : forall l acc,
  fold_left (fun acc x => insert_by_id x acc) (map lift l) (map lift acc) = map lift (fold_left (fun acc x => insert_by_id x acc) l acc).
Proof. induction l as [|x r IH]; intros acc; [reflexivity|]. cbn [map fold_left]. rewrite insert_lift. apply IH. Qed.
Lemma sort_lift l : sort_by_id (map lift l) = map lift (sort_by_id l).
Proof. unfold sort_by_id. apply (sort_lift_fold l []). Qed.
Lemma alt_go_lift : forall l last, alt_go (map lift l) last = ProofsA.go_s PCompact l last.
Proof.
  induction l as [|[f [x body]] r IH]; intros last; [reflexivity|].
  cbn [map lift fst snd alt_go ProofsA.go_s]. rewrite !IH. unfold ProofsA.skipc, alt_field_header. rewrite andb_true_r. reflexivity.
Qed.

Definition shortP (t : tty) : Prop := forall ch v, (forall q, ch q = false) -> spec_enc_alt ch t v = spec_enc pkg_dev PCompact t v.
Lemma alt_elems_short ch et : shortP et -> (forall q, ch q = false) -> forall es i, alt_elems ch et i es = ProofsA.goL (spec_enc pkg_dev PCompact et) es.
Proof.
  intros IH H. induction es as [|x r IHr]; intros i; [reflexivity|]. cbn [alt_elems ProofsA.goL]. rewrite IHr.
  rewrite IH by (intros q; apply H). reflexivity.
Qed.
Lemma alt_pairs_short ch kt vt : shortP kt -> shortP vt -> (forall q, ch q = false) -> forall es i,
  alt_pairs ch kt vt i es = ProofsA.goM (spec_enc pkg_dev PCompact kt) (spec_enc pkg_dev PCompact vt) es.
Proof.
  intros IHk IHv H. induction es as [|[k x] r IHr]; intros i; [reflexivity|]. cbn [alt_pairs ProofsA.goM]. rewrite IHr.
  rewrite IHk by (intros q; apply H). rewrite IHv by (intros q; apply H). reflexivity.
Qed.
Lemma alt_mk_short ch fs : Forall (fun f => shortP (fld_ty f)) fs -> (forall q, ch q = false) -> forall vs k,
  alt_mk ch k fs vs = map lift (ProofsA.mkb (ProofsA.body_s PCompact) fs vs).
Proof.
  intros HP H. induction HP as [|f fr Hf HP IH]; intros [|x vr] k; try reflexivity.
  cbn [alt_mk ProofsA.mkb map]. rewrite IH. unfold lift at 2. cbn [fst snd]. rewrite H.
  destruct f as [id fl ft]. cbn [alt_body ProofsA.body_s fld_ty] in *. destruct (has_flag fl f_enum); [reflexivity|].
  rewrite (Hf (sub ch (S k)) x (fun q => H _)). reflexivity.
Qed.
Lemma t_alt_short : t_alt_short_statement.
Proof.
  intros ch H t v. revert ch v H. revert t. apply (tty_ind' shortP); try (intros ch v H; destruct v; reflexivity).
  - intros et IH ch v H. destruct v; try reflexivity. rewrite alt_list_eq, ProofsA.senc_list, H, alt_list_header_short.
    rewrite (alt_elems_short ch et IH H). reflexivity.
  - intros et IH ch v H. destruct v; try reflexivity. rewrite alt_set_eq, ProofsA.senc_set, H, alt_list_header_short.
    rewrite (alt_elems_short ch et IH H). reflexivity.
  - intros kt vt IHk IHv ch v H. destruct v; try reflexivity. rewrite alt_map_eq, ProofsA.senc_map.
    rewrite (alt_pairs_short ch kt vt IHk IHv H). reflexivity.
  - intros fs HP ch v H. destruct v; try reflexivity. rewrite alt_struct_eq, ProofsA.senc_struct.
    rewrite (alt_mk_short ch fs HP H), sort_lift, alt_go_lift. reflexivity.
  - intros t IH ch v H. destruct v; try reflexivity. destruct o; cbn [spec_enc_alt spec_enc]; apply IH; exact H.
Qed.
Lemma t_alt_short_marshal : t_alt_short_marshal_statement.
Proof.
  intros ch H t v Hok Hwf. rewrite (t_alt_short ch H). unfold TMarshal. symmetry. apply ProofsA.t_conforms_partial; assumption.
Qed.
Lemma t_alt_differs : t_alt_differs_statement.
Proof.
  exists (fun _ => true), (ThList ThBool), (TvList true []). split; [reflexivity|]. split; [reflexivity|]. vm_compute. discriminate.
Qed.

Lemma t_alt_accept : t_alt_accept_statement.
Proof.
  intros t v ch fuel Hok Hwf Hnn Hf.
  assert (Hn : nilp v = false) by (destruct v; try reflexivity; destruct o; [reflexivity | congruence]).
  exists (dval t v). unfold TUnmarshal, TMarshal in *. split; [|split].
  - pose proof (mainA_all t ch v 0 fuel Hok Hwf Hn ltac:(lia) []) as H. rewrite app_nil_r in H. rewrite H. reflexivity.
  - pose proof (rspec_full _ _ _ [] (main_all t PCompact v 0 fuel Hok Hwf Hn ltac:(lia))) as H. rewrite app_nil_r in H. rewrite H. reflexivity.
  - apply dval_norm; assumption.
Qed.

(* ====================================================================== *)
(* ---------- C08: skipping a value of any supported type ---------- *)
Definition skipP (t : tty) : Prop := forall p v fuel rest, ty_ok t = true -> tval_wf t v = true -> nilp v = false ->
  (length (enc p t v) + tdepth t <= fuel)%nat -> skip fuel p (type_of t) (enc p t v ++ rest) = TOk rest.

Ltac skb := rewrite ProofsA.skip_S; unfold ProofsA.skip_body; cbn [type_of];
  unfold c_TRUE, c_BOOL, c_I8, c_I16, c_I32, c_I64, c_DOUBLE, c_BINARY, c_LIST, c_SET, c_MAP, c_STRUCT; cbn [Z.eqb Pos.eqb orb].

Lemma skipP_bool : skipP ThBool.
Proof. intros p v fuel rest _ Hwf _ Hf. destruct v; try discriminate Hwf. destruct fuel; [simpl in Hf; lia|]. skb. reflexivity. Qed.
Lemma skipP_i8 : skipP ThI8.
Proof. intros p v fuel rest _ Hwf _ Hf. destruct v; try discriminate Hwf. destruct fuel; [simpl in Hf; lia|]. skb. reflexivity. Qed.
Lemma skipP_i16 : skipP ThI16.
Proof.
  intros p v fuel rest _ Hwf _ Hf. destruct v; try discriminate Hwf. destruct fuel; [simpl in Hf; lia|]. skb.
  cbn [enc tval_wf] in *. rewrite (rspec_full _ _ _ rest (r_i16_spec p z ltac:(lia))). reflexivity.
Qed.
Lemma skipP_i32 : skipP ThI32.
Proof.
  intros p v fuel rest _ Hwf _ Hf. destruct v; try discriminate Hwf. destruct fuel; [simpl in Hf; lia|]. skb.
  cbn [enc tval_wf] in *. rewrite (rspec_full _ _ _ rest (r_i32_spec p z ltac:(lia))). reflexivity.
Qed.
Lemma skipP_i64 : skipP ThI64.
Proof.
  intros p v fuel rest _ Hwf _ Hf. destruct v; try discriminate Hwf. destruct fuel; [simpl in Hf; lia|]. skb.
  cbn [enc tval_wf] in *. rewrite (rspec_full _ _ _ rest (r_i64_spec p z ltac:(lia))). reflexivity.
Qed.
Lemma skipP_f64 : skipP ThF64.
Proof.
  intros p v fuel rest _ Hwf _ Hf. destruct v; try discriminate Hwf. destruct fuel; [simpl in Hf; lia|]. skb.
  cbn [enc tval_wf] in *. rewrite (rspec_full _ _ _ rest (r_f64_spec p z ltac:(lia))). reflexivity.
Qed.
Lemma skip_binary p s rest : len s < 2 ^ 31 ->
  (tlet (n, r) <- r_len p (w_bytes p s ++ rest) in
   if n =? 0 then TOk r else if len r <? n then TErr EUnexpectedEOF else TOk (slice_from r n)) = TOk rest.
Proof.
  intros Hs. unfold w_bytes. rewrite <- app_assoc.
  rewrite (rspec_full _ _ _ (s ++ rest) (r_len_spec p (len s) ltac:(unfold len in *; lia))). cbn [tbind].
  destruct (len s =? 0) eqn:E.
  - destruct s; [reflexivity | unfold len in E; cbn [length] in E; lia].
  - replace (len (s ++ rest) <? len s) with false by (unfold len; rewrite app_length; lia).
    unfold slice_from, len. rewrite Nat2Z.id. rewrite skipn_app, Nat.sub_diag, skipn_all. reflexivity.
Qed.
Lemma skipP_str : skipP ThStr.
Proof.
  intros p v fuel rest _ Hwf _ Hf. destruct v; try discriminate Hwf. destruct fuel; [simpl in Hf; lia|]. skb.
  cbn [enc tval_wf] in *. unfold tlim in Hwf. apply skip_binary. lia.
Qed.
Lemma skipP_bytes : skipP ThBytes.
Proof.
  intros p v fuel rest _ Hwf _ Hf. destruct v; try discriminate Hwf. destruct fuel; [simpl in Hf; lia|]. skb.
  cbn [enc tval_wf] in *. unfold tlim in Hwf. apply skip_binary. lia.
Qed.
Lemma skipP_ptr t : skipP t -> skipP (ThPtr t).
Proof.
  intros IH p v fuel rest Hok Hwf Hn Hf. destruct v; try discriminate Hwf. destruct o; [|discriminate Hn].
  cbn [ty_ok] in Hok. apply andb_true_iff in Hok. destruct Hok as [Hok1 Hok2]. cbn [type_of enc tval_wf tdepth] in *.
  apply IH; try assumption; [eapply wf_not_ptr; eauto | lia].
Qed.

Lemma sk_list_eq skipf et k cnt r : ProofsA.sk_list skipf et k cnt r =
  if cnt <=? 0 then TOk r else
  match k with O => TOutOfFuel | S k' => tlet r <- dont_expect_eof (skipf et r) in ProofsA.sk_list skipf et k' (cnt - 1) r end.
Proof. destruct k; reflexivity. Qed.
Lemma sk_map_eq skipf kt vt k cnt r : ProofsA.sk_map skipf kt vt k cnt r =
  if cnt <=? 0 then TOk r else
  match k with O => TOutOfFuel | S k' =>
    tlet r <- dont_expect_eof (skipf kt r) in
    tlet r <- dont_expect_eof (skipf vt r) in ProofsA.sk_map skipf kt vt k' (cnt - 1) r end.
Proof. destruct k; reflexivity. Qed.

Lemma sk_list_spec f p et : skipP et -> ty_ok et = true -> forall es,
  Forall (fun x => tval_wf et x = true /\ nilp x = false) es -> (length (enc_elems p et es) + tdepth et <= f)%nat ->
  forall K rest, (length (enc_elems p et es) + length rest < K)%nat ->
  ProofsA.sk_list (skip f p) (type_of et) K (len es) (enc_elems p et es ++ rest) = TOk rest.
Proof.
  intros IH Hok. induction es as [|x r IHr]; intros HF Hf K rest HK; rewrite sk_list_eq; [reflexivity|].
  replace (len (x :: r) <=? 0) with false by (unfold len; cbn [length]; lia).
  inversion HF as [|? ? [Hx1 Hx2] HF']; subst. rewrite enc_elems_cons in *. rewrite app_length in *.
  pose proof (enc_len_pos p et x Hok Hx1 Hx2) as Hpos. destruct K as [|K']; [lia|].
  rewrite <- app_assoc. rewrite (IH p x f _ Hok Hx1 Hx2 ltac:(lia)). cbn [dont_expect_eof tbind].
  replace (len (x :: r) - 1) with (len r) by (unfold len; cbn [length]; lia).
  apply IHr; [exact HF' | lia | lia].
Qed.
Lemma skipP_list et : skipP et -> skipP (ThList et).
Proof.
  intros IH p v fuel rest Hok Hwf Hn Hf. destruct v; try discriminate Hwf. destruct fuel; [simpl in Hf; lia|].
  cbn [ty_ok] in Hok. apply wf_list_inv in Hwf. destruct Hwf as [Hlen HF]. skb.
  rewrite enc_list_eq in *. rewrite <- app_assoc. pose proof (type_of_range et) as Hty. unfold tlim in Hlen.
  rewrite (rspec_full _ _ _ _ (r_list_spec p (len es) (type_of et) ltac:(unfold len in *; lia) ltac:(lia))). cbn [tbind].
  rewrite app_length in Hf. cbn [tdepth] in Hf.
  apply sk_list_spec; try assumption; [lia | rewrite app_length; lia].
Qed.
Lemma skipP_set kt : skipP kt -> skipP (ThSet kt).
Proof.
  intros IH p v fuel rest Hok Hwf Hn Hf. destruct v; try discriminate Hwf. destruct fuel; [simpl in Hf; lia|].
  cbn [ty_ok] in Hok. apply wf_set_inv in Hwf. destruct Hwf as [Hlen HD]. destruct (sdist_split kt ks HD) as [HW _]. skb.
  rewrite enc_set_eq in *. rewrite <- app_assoc. pose proof (type_of_range kt) as Hty. unfold tlim in Hlen.
  rewrite (rspec_full _ _ _ _ (r_list_spec p (len ks) (type_of kt) ltac:(unfold len in *; lia) ltac:(lia))). cbn [tbind].
  rewrite app_length in Hf. cbn [tdepth] in Hf.
  apply sk_list_spec; try assumption; [destruct kt; try discriminate Hok; reflexivity | | lia | rewrite app_length; lia].
  clear - HW Hok. induction HW as [|x r Hx HW IHr]; constructor; [|exact IHr]. split; [exact Hx | apply (key_facts kt x Hok Hx)].
Qed.

Lemma sk_map_spec f p kt vt : skipP kt -> skipP vt -> is_key_ty kt = true -> ty_ok vt = true -> forall es, mdist kt vt es ->
  (length (enc_pairs p kt vt es) + Nat.max (tdepth kt) (tdepth vt) <= f)%nat ->
  forall K rest, (length (enc_pairs p kt vt es) + length rest < K)%nat ->
  ProofsA.sk_map (skip f p) (type_of kt) (type_of vt) K (len es) (enc_pairs p kt vt es ++ rest) = TOk rest.
Proof.
  intros IHk IHv Hkey Hokv. induction es as [|[k x] r IHr]; intros HD Hf K rest HK; rewrite sk_map_eq; [reflexivity|].
  replace (len ((k, x) :: r) <=? 0) with false by (unfold len; cbn [length]; lia).
  cbn [mdist fst snd] in HD. destruct HD as [Hk1 [Hx1 [Hx2 [_ HD]]]].
  destruct (key_facts kt k Hkey Hk1) as [_ [Hk2 Hokk]].
  rewrite enc_pairs_cons in *. rewrite !app_length in *.
  pose proof (enc_len_pos p kt k Hokk Hk1 Hk2) as Hposk. destruct K as [|K']; [lia|].
  rewrite <- !app_assoc. rewrite (IHk p k f _ Hokk Hk1 Hk2 ltac:(lia)). cbn [dont_expect_eof tbind].
  rewrite (IHv p x f _ Hokv Hx1 Hx2 ltac:(lia)). cbn [dont_expect_eof tbind].
  replace (len ((k, x) :: r) - 1) with (len r) by (unfold len; cbn [length]; lia).
  apply IHr; [exact HD | lia | lia].
Qed.
Lemma skipP_map kt vt : skipP kt -> skipP vt -> skipP (ThMap kt vt).
Proof.
  intros IHk IHv p v fuel rest Hok Hwf Hn Hf. destruct v; try discriminate Hwf. destruct fuel; [simpl in Hf; lia|].
  cbn [ty_ok] in Hok. apply andb_true_iff in Hok. destruct Hok as [Hok _]. apply andb_true_iff in Hok. destruct Hok as [Hkey Hokv].
  apply wf_map_inv in Hwf. destruct Hwf as [Hlen HD]. skb.
  rewrite enc_map_eq in *. rewrite <- app_assoc.
  pose proof (type_of_range kt) as Htk. pose proof (type_of_range vt) as Htv. unfold tlim in Hlen.
  rewrite (rspec_full _ _ _ _ (r_map_spec p (len es) (type_of kt) (type_of vt) ltac:(unfold len in *; lia) ltac:(lia) ltac:(lia))).
  cbn [tbind]. rewrite app_length in Hf. cbn [tdepth] in Hf.
  destruct (len es =? 0) eqn:E0.
  - destruct es; [|unfold len in E0; cbn [length] in E0; lia]. destruct p; reflexivity.
  - replace (map_res p (len es) (type_of kt) (type_of vt)) with (len es, type_of kt, type_of vt) by (unfold map_res; rewrite E0; destruct p; reflexivity).
    cbv iota beta. apply sk_map_spec; try assumption; [lia | rewrite app_length; lia].
Qed.

Lemma sk_struct_S p skipf k' r last nfields : ProofsA.sk_struct p skipf (S k') r last nfields =
  match r_field p r with
  | TErr e => TErr (if (nfields >? 0) && (match e with EEOF => true | _ => false end) then EUnexpectedEOF else e)
  | TPanic => TPanic | TOutOfFuel => TOutOfFuel
  | TOk ((id, fty, isdelta), r) =>
      if fty =? c_STOP then TOk r else
      let id := if isdelta then s16 (id + last) else id in
      tlet r <- dont_expect_eof
                  (if ((fty =? c_TRUE) || (fty =? c_BOOL)) && (match p with PCompact => true | PBinary => false end)
                   then TOk r else skipf fty r) in
      ProofsA.sk_struct p skipf k' r id (nfields + 1)
  end.
Proof. reflexivity. Qed.

Lemma sk_struct_spec f p : forall l last K nf rest,
  (forall e, In e l -> fskip (g_fd e) (g_x e) = false ->
     1 <= fld_id (g_fd e) < 2 ^ 15 /\
     (coalesce p (type_of (fld_ty (g_fd e))) = false ->
        forall rest, skip f p (type_of (fld_ty (g_fd e))) (g_body e ++ rest) = TOk rest)) ->
  asc last (map eid l) -> 0 <= last -> (length (gen_go p l last) <= K)%nat ->
  ProofsA.sk_struct p (skip f p) K (gen_go p l last ++ rest) last nf = TOk rest.
Proof.
  induction l as [|e l' IHl]; intros last K nf rest Hent Hasc Hlast HK.
  - cbn [gen_go] in *. pose proof (stop_length p) as Hsl. destruct K as [|K']; [lia|].
    rewrite sk_struct_S, (rspec_full _ _ _ rest (r_field_stop_spec p)). reflexivity.
  - assert (Hent' : forall e', In e' l' -> fskip (g_fd e') (g_x e') = false ->
       1 <= fld_id (g_fd e') < 2 ^ 15 /\ (coalesce p (type_of (fld_ty (g_fd e'))) = false ->
        forall rest, skip f p (type_of (fld_ty (g_fd e'))) (g_body e' ++ rest) = TOk rest)) by (intros e' He'; apply Hent; right; exact He').
    cbn [map asc] in Hasc. destruct Hasc as [Hlt Hasc]. change (eid e) with (fld_id (g_fd e)) in *.
    cbn [gen_go] in *. destruct (fskip (g_fd e) (g_x e)) eqn:Es.
    + apply IHl; try assumption. eapply asc_weaken; [|exact Hasc]. lia.
    + destruct (Hent e (or_introl eq_refl) Es) as [Hid Hsk]. cbv zeta in *.
      set (ty := type_of (fld_ty (g_fd e))) in *.
      set (wty := if coalesce p ty && deref_bool (g_x e) then c_TRUE else ty) in *.
      assert (Hty : 2 <= ty <= 12) by apply type_of_range.
      assert (Hwty : 1 <= wty <= 12) by (unfold wty, c_TRUE; destruct (coalesce p ty && deref_bool (g_x e)); lia).
      destruct (ghdr_spec p (g_long e) last (fld_id (g_fd e)) wty ltac:(lia) ltac:(lia) Hwty) as [rid [isd [Hh Hrid]]].
      pose proof (ghdr_len p (g_long e) last (fld_id (g_fd e)) wty) as Hhl.
      rewrite !app_length in HK. destruct K as [|K']; [lia|].
      rewrite sk_struct_S. rewrite <- !app_assoc. rewrite (Hh _).
      cbv iota beta. replace (wty =? c_STOP) with false by (unfold c_STOP; lia). cbv zeta. rewrite Hrid.
      unfold wty in *. clear wty. destruct (coalesce p ty) eqn:Ec.
      * destruct p; [discriminate Ec|]. cbn [coalesce] in Ec. assert (Ety : ty = c_BOOL) by lia.
        cbn [andb app length] in *. rewrite Ety in *.
        replace ((((if deref_bool (g_x e) then c_TRUE else c_BOOL) =? c_TRUE) || ((if deref_bool (g_x e) then c_TRUE else c_BOOL) =? c_BOOL)) && true) with true by (destruct (deref_bool (g_x e)); reflexivity).
        cbn [dont_expect_eof tbind]. apply IHl; try assumption; lia.
      * cbn [andb] in *.
        replace (((ty =? c_TRUE) || (ty =? c_BOOL)) && (match p with PCompact => true | PBinary => false end)) with false.
        2:{ destruct p; [rewrite andb_false_r; reflexivity|]. cbn [coalesce] in Ec. rewrite Ec. replace (ty =? c_TRUE) with false by (unfold c_TRUE; lia). reflexivity. }
        rewrite (Hsk eq_refl). cbn [dont_expect_eof tbind]. apply IHl; try assumption; lia.
Qed.

(* the entries Marshal writes, as general entries with the short header form *)
Lemma lift_eid l : map eid (map lift l) = map eid l.
Proof. rewrite map_map. reflexivity. Qed.
Lemma enc_go_gen p : forall l last, 0 <= last -> asc last (map eid l) -> (forall e, In e l -> eid e < 2 ^ 15) ->
  enc_go p l last = gen_go p (map lift l) last.
Proof.
  induction l as [|[f [x body]] r IH]; intros last Hlast Hasc Hid; [reflexivity|].
  rewrite enc_go_cons. cbn [map lift gen_go g_fd g_x g_long g_body fst snd].
  cbn [map asc] in Hasc. destruct Hasc as [Hlt Hasc]. change (eid (f, (x, body))) with (fld_id f) in *.
  assert (Hr : forall e, In e r -> eid e < 2 ^ 15) by (intros e He; apply Hid; right; exact He).
  destruct (fskip f x).
  - apply IH; try assumption. eapply asc_weaken; [|exact Hasc]. lia.
  - cbv zeta. rewrite (IH (fld_id f)) by (try assumption; lia). f_equal.
    destruct p; [reflexivity|]. cbn [ghdr]. symmetry. apply alt_field_header_fhdr; try lia.
    + specialize (Hid _ (or_introl eq_refl)). exact Hid.
    + pose proof (type_of_range (fld_ty f)). unfold c_TRUE. destruct (_ && _); lia.
Qed.

(* one field body, skipped *)
Lemma fbody_skip f p fd x : fgood fd x -> skipP (fld_ty fd) -> nilp x = false -> (length (fbody p fd x) + tdepth (fld_ty fd) <= f)%nat ->
  forall rest, skip f p (type_of (fld_ty fd)) (fbody p fd x ++ rest) = TOk rest.
Proof.
  intros [Hid [Hok [Hwf [Hen _]]]] IH Hn Hf rest. destruct fd as [id fl0 ft]. unfold fbody in *. cbn [fld_flags fld_ty] in *.
  destruct (has_flag fl0 f_enum) eqn:E.
  - rewrite (Hen eq_refl) in *. destruct x; try discriminate Hwf. cbn [tval_wf] in Hwf. rewrite s32_id in * by lia.
    apply (skipP_i32 p (TvInt z) f rest eq_refl); [exact Hwf | reflexivity | exact Hf].
  - apply IH; assumption.
Qed.

Lemma skipP_struct fs : Forall (fun f => skipP (fld_ty f)) fs -> skipP (ThStruct fs).
Proof.
  intros HP p v fuel rest Hok Hwf Hn Hf. destruct v; try discriminate Hwf.
  destruct (struct_good fs vs Hok Hwf ltac:(apply Forall_forall; intros; apply main_all)) as [Hnd HF].
  destruct (tdepth_struct fs) as [D [HD1 HD2]]. rewrite HD1 in Hf.
  destruct fuel as [|f]; [lia|].
  assert (Hlen : length vs = length fs) by (symmetry; eapply Forall2_len; eauto).
  assert (Hids : forall fd, In fd fs -> 1 <= fld_id fd < 2 ^ 15) by (intros fd Hfd; destruct (Forall2_in_l _ _ _ _ HF Hfd) as [b [Hb _]]; lia).
  destruct (sort_by_id_spec (mk_encs p fs vs) 0) as [Hasc Hin].
  { rewrite mk_encs_ids by exact Hlen. exact Hnd. }
  { intros e He. destruct (mk_encs_in p fs vs e He) as [i [Hi _]]. unfold eid. apply nth_error_In in Hi. specialize (Hids _ Hi). lia. }
  skb. rewrite enc_struct_eq in *.
  assert (Hlt : forall e, In e (sort_by_id (mk_encs p fs vs)) -> eid e < 2 ^ 15).
  { intros e He. apply Hin in He. destruct (mk_encs_in p fs vs e He) as [i [Hi _]]. apply nth_error_In in Hi. specialize (Hids _ Hi). unfold eid. lia. }
  rewrite (enc_go_gen p (sort_by_id (mk_encs p fs vs)) 0 ltac:(lia) Hasc Hlt) in Hf |- *.
  apply sk_struct_spec; try lia.
  - intros e He Hs. apply in_map_iff in He. destruct He as [e0 [<- He0]]. pose proof He0 as He1. apply Hin in He1.
    destruct (mk_encs_in p fs vs e0 He1) as [i [Hi1 [Hi2 Hi3]]].
    pose proof (Forall2_nth_error _ _ _ _ _ _ HF Hi1 Hi2) as Hg.
    unfold lift, g_fd, g_x, g_body in Hs |- *. cbn [fst snd] in Hs |- *.
    split; [apply Hids; eapply nth_error_In; eauto|]. intros Hc rest0. rewrite Hi3.
    assert (Hbl : (length (fbody p (fst e0) (fst (snd e0))) + 2 <= length (gen_go p (map lift (sort_by_id (mk_encs p fs vs))) 0))%nat).
    { rewrite <- Hi3. apply (gen_go_body_len p _ 0 (lift e0)); [apply in_map; exact He0 | exact Hs | exact Hc]. }
    apply fbody_skip; try assumption.
    + apply (proj1 (Forall_forall _ fs) HP). eapply nth_error_In; eauto.
    + unfold fskip in Hs. apply orb_false_elim in Hs. apply Hs.
    + assert ((tdepth (fld_ty (fst e0)) <= D)%nat) by (apply HD2; eapply nth_error_In; eauto). lia.
  - rewrite lift_eid. exact Hasc.
Qed.

Theorem skip_all : forall t, skipP t.
Proof.
  apply tty_ind'.
  - exact skipP_bool. - exact skipP_i8. - exact skipP_i16. - exact skipP_i32. - exact skipP_i64. - exact skipP_f64.
  - exact skipP_str. - exact skipP_bytes. - exact skipP_list. - exact skipP_set. - exact skipP_map. - exact skipP_struct. - exact skipP_ptr.
Qed.


(* ====================================================================== *)
(* ---------- C08: unknown fields are skipped ---------- *)
Definition fdepth := fix go (fs : list tfield) : nat := match fs with [] => O | TField _ _ ft :: r => Nat.max (tdepth ft) (go r) end.
Lemma tdepth_struct_eq fs : tdepth (ThStruct fs) = S (fdepth fs).
Proof. reflexivity. Qed.
Lemma fdepth_app fs gs : fdepth (fs ++ gs) = Nat.max (fdepth fs) (fdepth gs).
Proof. induction fs as [|[id fl ft] r IH]; [reflexivity|]. cbn [app fdepth]. rewrite IH. lia. Qed.
Lemma fdepth_cons fd fs : fdepth (fd :: fs) = Nat.max (tdepth (fld_ty fd)) (fdepth fs).
Proof. destruct fd. reflexivity. Qed.

Lemma distinctZ_app l1 l2 : distinctZ (l1 ++ l2) = true -> distinctZ l1 = true /\ distinctZ l2 = true.
Proof.
  induction l1 as [|x r IH]; cbn [app distinctZ]; [auto|]. intros H. apply andb_true_iff in H. destruct H as [H1 H2].
  destruct (IH H2) as [Ha Hb]. split; [|exact Hb]. rewrite Ha, andb_true_r.
  rewrite existsb_app in H1. destruct (existsb (Z.eqb x) r); [discriminate H1 | reflexivity].
Qed.
Lemma fok_app fs gs : ProofsA.fok (fs ++ gs) = true -> ProofsA.fok fs = true /\ ProofsA.fok gs = true.
Proof.
  induction fs as [|[id fl ft] r IH]; cbn [app ProofsA.fok]; [auto|]. intros H. apply andb_true_iff in H. destruct H as [H1 H2].
  destruct (IH H2) as [Ha Hb]. split; [|exact Hb]. rewrite H1, Ha. reflexivity.
Qed.
Lemma ty_ok_struct_app fs gs : ty_ok (ThStruct (fs ++ gs)) = true -> ty_ok (ThStruct fs) = true /\ ty_ok (ThStruct gs) = true.
Proof.
  rewrite !ProofsA.ok_struct. intros H. apply andb_true_iff in H. destruct H as [H1 H2]. rewrite map_app in H1.
  destruct (distinctZ_app _ _ H1) as [-> ->]. destruct (fok_app _ _ H2) as [-> ->]. auto.
Qed.
Lemma wf_fields_app fs gs : forall vs ws, length vs = length fs -> wf_fields (fs ++ gs) (vs ++ ws) = true ->
  wf_fields fs vs = true /\ wf_fields gs ws = true.
Proof.
  induction fs as [|[id fl ft] r IH]; intros [|x vr] ws Hl H; try discriminate Hl; cbn [app wf_fields] in *; [auto|].
  apply andb_true_iff in H. destruct H as [H1 H2]. destruct (IH vr ws ltac:(cbn [length] in Hl; lia) H2) as [Ha Hb]. rewrite H1, Ha. auto.
Qed.

(* decoding the fields Marshal writes for (es, xs) into the struct type fs, every entry being either a field of fs
   carrying its value in vs, or a field fs does not declare *)
Lemma widen_spec f p fs vs es xs flags rest :
  NoDup (map fld_id fs) -> (forall y, In y (map fld_id fs) -> 1 <= y) -> length vs = length fs ->
  NoDup (map fld_id es) -> Forall2 fgood es xs ->
  (forall i fd, nth_error es i = Some fd ->
     (exists j, nth_error fs j = Some fd /\ nth_error vs j = nth_error xs i) \/ ~ In (fld_id fd) (map fld_id fs)) ->
  (length (enc p (ThStruct es) (TvStruct xs)) + fdepth es <= f)%nat ->
  sloop f p fs flags f (enc p (ThStruct es) (TvStruct xs) ++ rest) 0 0
        (cur_of (map eid (sort_by_id (mk_encs p es xs))) fs vs) [] =
  if smissing fs (seen_after fs (map lift (sort_by_id (mk_encs p es xs))) []) then TErr EMissing
  else TOk (TvStruct (cur_of [] fs vs), rest).
Proof.
  intros Hnd Hids Hlen Hnde HF Hcase Hf.
  assert (Hlene : length xs = length es) by (symmetry; eapply Forall2_len; eauto).
  assert (Hide : forall fd, In fd es -> 1 <= fld_id fd < 2 ^ 15) by (intros fd Hfd; destruct (Forall2_in_l _ _ _ _ HF Hfd) as [b [Hb _]]; lia).
  destruct (sort_by_id_spec (mk_encs p es xs) 0) as [Hasc Hin].
  { rewrite mk_encs_ids by exact Hlene. exact Hnde. }
  { intros e He. destruct (mk_encs_in p es xs e He) as [i [Hi _]]. unfold eid. apply nth_error_In in Hi. specialize (Hide _ Hi). lia. }
  assert (Hlt : forall e, In e (sort_by_id (mk_encs p es xs)) -> eid e < 2 ^ 15).
  { intros e He. apply Hin in He. destruct (mk_encs_in p es xs e He) as [i [Hi _]]. apply nth_error_In in Hi. specialize (Hide _ Hi). unfold eid. lia. }
  rewrite enc_struct_eq in *.
  rewrite (enc_go_gen p (sort_by_id (mk_encs p es xs)) 0 ltac:(lia) Hasc Hlt) in Hf |- *.
  rewrite <- (lift_eid (sort_by_id (mk_encs p es xs))).
  apply (sloop_gen f p fs vs flags Hnd Hids); try lia.
  - intros e He. apply in_map_iff in He. destruct He as [e0 [<- He0]]. pose proof He0 as He1. apply Hin in He1.
    destruct (mk_encs_in p es xs e0 He1) as [i [Hi1 [Hi2 Hi3]]].
    pose proof (Forall2_nth_error _ _ _ _ _ _ HF Hi1 Hi2) as Hg.
    assert (Hbody : fskip (fst e0) (fst (snd e0)) = false -> coalesce p (type_of (fld_ty (fst e0))) = false ->
              nilp (fst (snd e0)) = false /\ (length (fbody p (fst e0) (fst (snd e0))) + tdepth (fld_ty (fst e0)) <= f)%nat).
    { intros Hs Hc. split; [unfold fskip in Hs; apply orb_false_elim in Hs; apply Hs|].
      pose proof (gen_go_body_len p _ 0 (lift e0) (in_map lift _ _ He0) Hs Hc) as Hbl.
      unfold lift at 1, g_body in Hbl. cbn [fst snd] in Hbl. rewrite Hi3 in Hbl.
      assert ((tdepth (fld_ty (fst e0)) <= fdepth es)%nat).
      { clear - Hi1. apply nth_error_In in Hi1. induction es as [|a r IH]; [contradiction|]. rewrite fdepth_cons.
        destruct Hi1 as [->|Hi1]; [lia | specialize (IH Hi1); lia]. }
      lia. }
    unfold gentry_ok, lift, g_fd, g_x, g_body. cbn [fst snd].
    split; [apply Hide; eapply nth_error_In; eauto|].
    destruct (Hcase i _ Hi1) as [[j [Hj1 Hj2]]|Hnin].
    + left. exists j. split; [exact Hj1|]. split; [rewrite Hj2; exact Hi2|].
      intros Hs. pose proof Hg as [Hid [Hokt [Hwft Hrest]]]. split; [exact Hokt|]. split; [exact Hwft|].
      intros Hc fl rest0. destruct (Hbody Hs Hc) as [Hnil Hfl]. rewrite Hi3.
      apply (rspec_full _ _ _ rest0). apply fdec_spec; assumption.
    + right. split; [exact Hnin|]. intros Hs Hc rest0. destruct (Hbody Hs Hc) as [Hnil Hfl]. rewrite Hi3.
      apply fbody_skip; try assumption. apply skip_all.
  - rewrite lift_eid. exact Hasc.
Qed.


Lemma all_mainP fs : Forall (fun f => mainP (fld_ty f)) fs.
Proof. apply Forall_forall. intros. apply main_all. Qed.
Lemma sorted_has p es xs i fd x : length xs = length es -> NoDup (map fld_id es) -> (forall fd, In fd es -> 1 <= fld_id fd) ->
  nth_error es i = Some fd -> nth_error xs i = Some x ->
  In (fd, (x, fbody p fd x)) (sort_by_id (mk_encs p es xs)).
Proof.
  intros Hl Hnd Hid H1 H2. destruct (sort_by_id_spec (mk_encs p es xs) 0) as [_ Hin].
  - rewrite mk_encs_ids by exact Hl. exact Hnd.
  - intros e He. destruct (mk_encs_in p es xs e He) as [j [Hj _]]. unfold eid. apply nth_error_In in Hj. specialize (Hid _ Hj). lia.
  - apply Hin. eapply mk_encs_nth; eauto.
Qed.
Lemma nth_error_some_lt {A} (l : list A) i a : nth_error l i = Some a -> (i < length l)%nat.
Proof. intros H. apply nth_error_Some. rewrite H. discriminate. Qed.
Lemma nth_error_ex {A} (l : list A) i : (i < length l)%nat -> exists a, nth_error l i = Some a.
Proof. intros H. destruct (nth_error l i) eqn:E; [eauto|]. apply nth_error_None in E. lia. Qed.

Lemma t_unknown_fields : t_unknown_fields_statement.
Proof.
  intros p fs gs vs ws fuel Hok Hlen Hwf Hf.
  destruct (struct_good (fs ++ gs) (vs ++ ws) Hok Hwf (all_mainP _)) as [Hnd HF].
  destruct (ty_ok_struct_app fs gs Hok) as [Hokf _].
  rewrite wf_struct_eq in Hwf. destruct (wf_fields_app fs gs vs ws Hlen Hwf) as [Hwff _]. rewrite <- wf_struct_eq in Hwff.
  destruct (struct_good fs vs Hokf Hwff (all_mainP _)) as [Hndf HFf].
  assert (Hids : forall y, In y (map fld_id fs) -> 1 <= y).
  { intros y Hy. apply in_map_iff in Hy. destruct Hy as [fd [<- Hfd]]. destruct (Forall2_in_l _ _ _ _ HFf Hfd) as [b [Hb _]]. lia. }
  assert (Hide : forall fd, In fd (fs ++ gs) -> 1 <= fld_id fd) by (intros fd Hfd; destruct (Forall2_in_l _ _ _ _ HF Hfd) as [b [Hb _]]; lia).
  assert (Hlene : length (vs ++ ws) = length (fs ++ gs)) by (symmetry; eapply Forall2_len; eauto).
  rewrite !tdepth_struct_eq, fdepth_app in Hf. unfold TMarshal in *.
  exists (dval (ThStruct fs) (TvStruct vs)). split; [|split].
  - unfold TUnmarshal. destruct fuel as [|f]; [lia|]. rewrite dec_struct_eq, zero_struct_eq.
    rewrite <- (app_nil_r (enc p (ThStruct (fs ++ gs)) (TvStruct (vs ++ ws)))).
    rewrite <- (cur_of_all (map eid (sort_by_id (mk_encs p (fs ++ gs) (vs ++ ws)))) fs vs Hlen).
    2:{ intros fd Hfd. apply In_nth_error in Hfd. destruct Hfd as [i Hi]. destruct (nth_error_ex vs i) as [x Hx]; [apply nth_error_some_lt in Hi; lia|].
        apply (in_map eid _ (fd, (x, fbody p fd x))). apply sorted_has with (i := i); try assumption.
        - rewrite nth_error_app1 by (eapply nth_error_some_lt; eauto). exact Hi.
        - rewrite nth_error_app1 by (eapply nth_error_some_lt; eauto). exact Hx. }
    rewrite (widen_spec f p fs vs (fs ++ gs) (vs ++ ws) 0 [] Hndf Hids Hlen Hnd HF).
    + rewrite smissing_false; [rewrite dval_struct_eq; reflexivity|]. intros fd Hfd Er.
      apply In_nth_error in Hfd. destruct Hfd as [i Hi]. destruct (nth_error_ex vs i) as [x Hx]; [apply nth_error_some_lt in Hi; lia|].
      apply (seen_after_in fs _ [] (lift (fd, (x, fbody p fd x)))).
      * apply in_map. apply sorted_has with (i := i); try assumption.
        -- rewrite nth_error_app1 by (eapply nth_error_some_lt; eauto). exact Hi.
        -- rewrite nth_error_app1 by (eapply nth_error_some_lt; eauto). exact Hx.
      * unfold lift, g_fd, g_x. cbn [fst snd]. pose proof (Forall2_nth_error _ _ _ _ _ _ HFf Hi Hx) as [_ [_ [_ [_ [Hreq _]]]]].
        unfold fskip. rewrite Er, (Hreq Er). reflexivity.
      * apply in_map. eapply nth_error_In; eauto.
    + intros i fd Hi. destruct (Nat.ltb_spec i (length fs)) as [Hlt|Hge].
      * left. exists i. rewrite nth_error_app1 in Hi by exact Hlt. split; [exact Hi|]. rewrite nth_error_app1 by lia. reflexivity.
      * right. intros Hin. apply in_map_iff in Hin. destruct Hin as [fd' [Heq Hfd']]. apply In_nth_error in Hfd'. destruct Hfd' as [j Hj].
        pose proof (NoDup_uniq (fs ++ gs) i fd Hnd Hi j fd') as Hu.
        rewrite nth_error_app1 in Hu by (eapply nth_error_some_lt; eauto). specialize (Hu Hj Heq).
        apply nth_error_some_lt in Hj. lia.
    + rewrite fdepth_app. lia.
  - unfold TUnmarshal. pose proof (rspec_full _ _ _ [] (main_all (ThStruct fs) p (TvStruct vs) 0 fuel Hokf Hwff eq_refl ltac:(rewrite tdepth_struct_eq; lia))) as H.
    rewrite app_nil_r in H. rewrite H. reflexivity.
  - apply dval_norm; assumption.
Qed.


(* ====================================================================== *)
(* ---------- C08: missing required fields ---------- *)
Lemma distinctZ_remove l1 x l2 : distinctZ (l1 ++ x :: l2) = true -> distinctZ (l1 ++ l2) = true.
Proof.
  induction l1 as [|a r IH]; cbn [app distinctZ]; intros H; apply andb_true_iff in H; destruct H as [H1 H2]; [exact H2|].
  rewrite (IH H2), andb_true_r. rewrite existsb_app in *. cbn [existsb] in H1.
  destruct (existsb (Z.eqb a) r); [discriminate H1|]. destruct (a =? x); [discriminate H1|]. exact H1.
Qed.
Lemma fok_remove fs1 fd fs2 : ProofsA.fok (fs1 ++ fd :: fs2) = true -> ProofsA.fok (fs1 ++ fs2) = true.
Proof.
  intros H. destruct (fok_app _ _ H) as [H1 H2]. destruct fd as [id fl ft]. cbn [ProofsA.fok] in H2. apply andb_true_iff in H2. destruct H2 as [_ H2].
  clear H. induction fs1 as [|[id' fl' ft'] r IH]; cbn [app ProofsA.fok] in *; [exact H2|].
  apply andb_true_iff in H1. destruct H1 as [Ha Hb]. rewrite Ha, (IH Hb). reflexivity.
Qed.
Lemma ty_ok_struct_remove fs1 fd fs2 : ty_ok (ThStruct (fs1 ++ fd :: fs2)) = true -> ty_ok (ThStruct (fs1 ++ fs2)) = true.
Proof.
  rewrite !ProofsA.ok_struct. intros H. apply andb_true_iff in H. destruct H as [H1 H2]. rewrite map_app in *. cbn [map] in H1.
  rewrite (distinctZ_remove _ _ _ H1), (fok_remove _ _ _ H2). reflexivity.
Qed.
Lemma cur_of_all2 rem fs : forall vs, length vs = length fs ->
  (forall i fd x, nth_error fs i = Some fd -> nth_error vs i = Some x -> In (fld_id fd) rem \/ fskip fd x = true) ->
  cur_of rem fs vs = zero_fields fs.
Proof.
  induction fs as [|[id fl ft] r IH]; intros [|y vr] H Hin; try discriminate H; [reflexivity|].
  cbn [cur_of zero_fields fld_id fld_ty]. f_equal.
  - destruct (Hin O _ _ eq_refl eq_refl) as [Hi|Hs]; [cbn [fld_id] in Hi; rewrite (existsb_eqb_in _ _ Hi); reflexivity | rewrite Hs, orb_true_r; reflexivity].
  - apply IH; [cbn in H; lia|]. intros i fd x H1 H2. apply (Hin (S i) fd x H1 H2).
Qed.
Lemma seen_after_notin fs l : forall seen s, ~ In s seen -> (forall e, In e l -> fld_id (g_fd e) - s_minID fs <> s) -> ~ In s (seen_after fs l seen).
Proof.
  induction l as [|a r IH]; intros seen s Hs Hl; cbn [seen_after]; [exact Hs|].
  assert (Hr : forall e, In e r -> fld_id (g_fd e) - s_minID fs <> s) by (intros e He; apply Hl; right; exact He).
  destruct (fskip _ _); [apply IH; assumption|]. destruct (existsb _ _); apply IH; try assumption.
  intros [Heq|Hin]; [apply (Hl a (or_introl eq_refl)); exact Heq | exact (Hs Hin)].
Qed.
Lemma smissing_true fs seen fd : In fd fs -> has_flag (fld_flags fd) f_required = true -> ~ In (fld_id fd - s_minID fs) seen -> smissing fs seen = true.
Proof.
  intros Hfd Hr Hn. apply existsb_exists. exists fd. split; [exact Hfd|]. rewrite Hr, (existsb_eqb_notin _ _ Hn). reflexivity.
Qed.

Lemma nth_error_mid {A} (l1 l2 : list A) a : nth_error (l1 ++ a :: l2) (length l1) = Some a.
Proof. rewrite nth_error_app2 by lia. rewrite Nat.sub_diag. reflexivity. Qed.
(* the encoder's fields (fs1 ++ fs2) seen from the target (fs1 ++ fd :: fs2) *)
Lemma remove_case {A B} (fs1 fs2 : list A) (fd : A) (vs1 vs2 : list B) (x0 : B) i a : length vs1 = length fs1 ->
  nth_error (fs1 ++ fs2) i = Some a ->
  exists j, j <> length fs1 /\ nth_error (fs1 ++ fd :: fs2) j = Some a /\ nth_error (vs1 ++ x0 :: vs2) j = nth_error (vs1 ++ vs2) i.
Proof.
  intros Hl Hi. destruct (Nat.ltb_spec i (length fs1)) as [Hlt|Hge].
  - exists i. split; [lia|]. rewrite nth_error_app1 in * by lia. split; [exact Hi|]. rewrite !nth_error_app1 by lia. reflexivity.
  - exists (S i). split; [lia|]. rewrite nth_error_app2 in * by lia. rewrite !nth_error_app2 by lia.
    replace (S i - length fs1)%nat with (S (i - length fs1)) by lia. replace (S i - length vs1)%nat with (S (i - length vs1)) by lia.
    cbn [nth_error]. split; [exact Hi | reflexivity].
Qed.

Lemma missing_setup p fs1 fd fs2 vs1 vs2 f flags rest :
  ty_ok (ThStruct (fs1 ++ fd :: fs2)) = true -> length vs1 = length fs1 ->
  tval_wf (ThStruct (fs1 ++ fs2)) (TvStruct (vs1 ++ vs2)) = true ->
  (length (enc p (ThStruct (fs1 ++ fs2)) (TvStruct (vs1 ++ vs2))) + fdepth (fs1 ++ fd :: fs2) <= f)%nat ->
  let fs := fs1 ++ fd :: fs2 in let vs := vs1 ++ TvPtr None :: vs2 in
  sloop f p fs flags f (enc p (ThStruct (fs1 ++ fs2)) (TvStruct (vs1 ++ vs2)) ++ rest) 0 0 (zero_fields fs) [] =
  if smissing fs (seen_after fs (map lift (sort_by_id (mk_encs p (fs1 ++ fs2) (vs1 ++ vs2)))) []) then TErr EMissing
  else TOk (TvStruct (cur_of [] fs vs), rest).
Proof.
  intros Hok Hlen Hwf Hf fs vs.
  pose proof (ty_ok_struct_remove _ _ _ Hok) as Hoke.
  destruct (struct_good (fs1 ++ fs2) (vs1 ++ vs2) Hoke Hwf (all_mainP _)) as [Hnde HFe].
  assert (Hlene : length (vs1 ++ vs2) = length (fs1 ++ fs2)) by (symmetry; eapply Forall2_len; eauto).
  assert (Hlenv : length vs = length fs) by (unfold vs, fs; rewrite !app_length in *; cbn [length]; lia).
  rewrite ProofsA.ok_struct in Hok. apply andb_true_iff in Hok. destruct Hok as [Hd Hfok].
  pose proof (distinctZ_NoDup _ Hd) as Hnd.
  assert (Hids : forall y, In y (map fld_id fs) -> 1 <= y).
  { intros y Hy. apply in_map_iff in Hy. destruct Hy as [fd' [<- Hfd']]. pose proof (ProofsA.fok_range fs fd' Hfok Hfd'). lia. }
  assert (Hide : forall fd', In fd' (fs1 ++ fs2) -> 1 <= fld_id fd') by (intros fd' Hfd'; destruct (Forall2_in_l _ _ _ _ HFe Hfd') as [b [Hb _]]; lia).
  rewrite <- (cur_of_all2 (map eid (sort_by_id (mk_encs p (fs1 ++ fs2) (vs1 ++ vs2)))) fs vs Hlenv).
  - apply (widen_spec f p fs vs (fs1 ++ fs2) (vs1 ++ vs2) flags rest Hnd Hids Hlenv Hnde HFe); [|assert (fdepth (fs1 ++ fs2) <= fdepth fs)%nat by (unfold fs; rewrite !fdepth_app, fdepth_cons; lia); unfold fs in *; lia].
    intros i a Hi. left. destruct (remove_case fs1 fs2 fd vs1 vs2 (TvPtr None) i a Hlen Hi) as [j [_ [H1 H2]]]. exists j. split; assumption.
  - intros j fd' x Hj Hx. destruct (Nat.eq_dec j (length fs1)) as [->|Hne].
    + right. unfold vs in Hx. rewrite nth_error_app2 in Hx by lia. replace (length fs1 - length vs1)%nat with O in Hx by lia.
      cbn in Hx. inversion Hx; subst x. reflexivity.
    + left. (* a field of the encoder's struct *)
      assert (exists i, nth_error (fs1 ++ fs2) i = Some fd' /\ nth_error (vs1 ++ vs2) i = Some x) as [i [Hi1 Hi2]].
      { unfold fs, vs in *. destruct (Nat.ltb_spec j (length fs1)) as [Hlt|Hge].
        - exists j. rewrite nth_error_app1 in Hj by lia. rewrite nth_error_app1 in Hx by lia. rewrite !nth_error_app1 by lia. split; assumption.
        - exists (j - 1)%nat. rewrite nth_error_app2 in Hj by lia. rewrite nth_error_app2 in Hx by lia. rewrite !nth_error_app2 by lia.
          destruct (j - length fs1)%nat as [|m] eqn:Em; [lia|].
          replace (j - length vs1)%nat with (S m) in Hx by lia. cbn [nth_error] in Hj, Hx.
          replace (j - 1 - length fs1)%nat with m by lia. replace (j - 1 - length vs1)%nat with m by lia. split; assumption. }
      apply (in_map eid _ (fd', (x, fbody p fd' x))). apply sorted_has with (i := i); assumption.
Qed.

Lemma t_missing_field : t_missing_field_statement.
Proof.
  intros p fs1 fd fs2 vs1 vs2 fuel Hok Hlen Hwf Hreq Hf. unfold TMarshal, TUnmarshal in *.
  rewrite tdepth_struct_eq in Hf. destruct fuel as [|f]; [lia|].
  rewrite dec_struct_eq, zero_struct_eq. rewrite <- (app_nil_r (enc p _ _)).
  rewrite (missing_setup p fs1 fd fs2 vs1 vs2 f 0 [] Hok Hlen Hwf ltac:(lia)).
  rewrite (smissing_true _ _ fd); [reflexivity | apply in_or_app; right; left; reflexivity | exact Hreq |].
  pose proof (ty_ok_struct_remove _ _ _ Hok) as Hoke.
  destruct (struct_good (fs1 ++ fs2) (vs1 ++ vs2) Hoke Hwf (all_mainP _)) as [Hnde HFe].
  rewrite ProofsA.ok_struct in Hok. apply andb_true_iff in Hok. destruct Hok as [Hd _]. pose proof (distinctZ_NoDup _ Hd) as Hnd.
  apply seen_after_notin; [intros []|]. intros e He Heq.
  apply in_map_iff in He. destruct He as [e0 [<- He0]].
  destruct (sort_by_id_spec (mk_encs p (fs1 ++ fs2) (vs1 ++ vs2)) 0) as [_ Hin].
  { rewrite mk_encs_ids by (symmetry; eapply Forall2_len; eauto). exact Hnde. }
  { intros e He. destruct (mk_encs_in p _ _ e He) as [j [Hj _]]. unfold eid. apply nth_error_In in Hj.
    destruct (Forall2_in_l _ _ _ _ HFe Hj) as [b [Hb _]]. lia. }
  apply Hin in He0. destruct (mk_encs_in p _ _ e0 He0) as [i [Hi1 _]].
  destruct (remove_case fs1 fs2 fd vs1 vs2 (TvPtr None) i _ Hlen Hi1) as [j [Hne [Hj _]]].
  unfold lift, g_fd in Heq. cbn [fst] in Heq.
  pose proof (nth_error_mid fs1 fs2 fd) as Hfd.
  pose proof (NoDup_uniq _ _ _ Hnd Hfd j (fst e0) Hj ltac:(lia)). lia.
Qed.


(* ====================================================================== *)
(* ---------- the decoded slots up to tnorm ---------- *)
Definition fnorm_ok (fd : tfield) (x : tval) : Prop := ty_ok (fld_ty fd) = true /\ tval_wf (fld_ty fd) x = true.
Lemma field_norm fd x : fnorm_ok fd x ->
  tnorm (fld_ty fd) (if fskip fd x then zero_of (fld_ty fd) else dval (fld_ty fd) x) = tnorm (fld_ty fd) x.
Proof.
  intros [Hok Hwf]. destruct (fskip fd x) eqn:Es; [|apply dval_norm; assumption].
  unfold fskip in Es. apply orb_true_iff in Es. destruct Es as [Es|Es].
  - destruct x; try discriminate Es. destruct o; [discriminate Es|]. destruct (fld_ty fd); try discriminate Hwf. reflexivity.
  - apply andb_true_iff in Es. destruct Es as [_ Es]. apply zero_norm; assumption.
Qed.
Lemma cur_norm_good fs vs : Forall2 fnorm_ok fs vs -> tnorm_fields fs (cur_of [] fs vs) = tnorm_fields fs vs.
Proof.
  induction 1 as [|fd x fr vr Hg HF IH]; [reflexivity|]. destruct fd as [id fl ft].
  cbn [cur_of tnorm_fields existsb orb]. rewrite IH. f_equal. apply (field_norm (TField id fl ft) x Hg).
Qed.
Lemma cur_norm_split fs1 fd fs2 : forall vs1 vs2, Forall2 fnorm_ok fs1 vs1 -> Forall2 fnorm_ok fs2 vs2 ->
  tnorm_fields (fs1 ++ fd :: fs2) (cur_of [] (fs1 ++ fd :: fs2) (vs1 ++ TvPtr None :: vs2)) =
  tnorm_fields (fs1 ++ fd :: fs2) (vs1 ++ zero_of (fld_ty fd) :: vs2).
Proof.
  intros vs1 vs2 H1 H2. induction H1 as [|fd1 x fr vr Hg HF IH].
  - destruct fd as [id fl ft]. cbn [app cur_of tnorm_fields existsb orb fld_ty]. rewrite (cur_norm_good fs2 vs2 H2). reflexivity.
  - destruct fd1 as [id1 fl1 ft1]. cbn [app cur_of tnorm_fields existsb orb]. rewrite IH. f_equal. apply (field_norm (TField id1 fl1 ft1) x Hg).
Qed.
Lemma fgood_norm fs vs : Forall2 fgood fs vs -> Forall2 fnorm_ok fs vs.
Proof. induction 1 as [|fd x fr vr [_ [Hok [Hwf _]]] HF IH]; constructor; [split; assumption | exact IH]. Qed.

Lemma t_absent_optional : t_absent_optional_statement.
Proof.
  intros p fs1 fd fs2 vs1 vs2 fuel Hok Hlen Hwf Hreq Hf. unfold TMarshal, TUnmarshal in *.
  rewrite tdepth_struct_eq in Hf. destruct fuel as [|f]; [clear - Hf; lia|].
  assert (Hf' : (length (enc p (ThStruct (fs1 ++ fs2)) (TvStruct (vs1 ++ vs2))) + fdepth (fs1 ++ fd :: fs2) <= f)%nat) by (clear - Hf; lia).
  pose proof (ty_ok_struct_remove _ _ _ Hok) as Hoke.
  destruct (struct_good (fs1 ++ fs2) (vs1 ++ vs2) Hoke Hwf (all_mainP _)) as [Hnde HFe].
  destruct (ty_ok_struct_app fs1 fs2 Hoke) as [Hok1 Hok2].
  pose proof Hwf as Hwf'. rewrite wf_struct_eq in Hwf'. destruct (wf_fields_app fs1 fs2 vs1 vs2 Hlen Hwf') as [Hwf1 Hwf2].
  rewrite <- wf_struct_eq in Hwf1, Hwf2.
  destruct (struct_good fs1 vs1 Hok1 Hwf1 (all_mainP _)) as [_ HF1].
  destruct (struct_good fs2 vs2 Hok2 Hwf2 (all_mainP _)) as [_ HF2].
  exists (TvStruct (cur_of [] (fs1 ++ fd :: fs2) (vs1 ++ TvPtr None :: vs2))). split.
  - rewrite dec_struct_eq, zero_struct_eq. rewrite <- (app_nil_r (enc p _ _)).
    rewrite (missing_setup p fs1 fd fs2 vs1 vs2 f 0 [] Hok Hlen Hwf Hf').
    rewrite smissing_false; [reflexivity|]. intros fd' Hfd' Er.
    assert (Hin' : In fd' (fs1 ++ fs2)).
    { apply in_app_or in Hfd'. apply in_or_app. destruct Hfd' as [H|[H|H]]; [left; exact H | subst fd'; congruence | right; exact H]. }
    apply In_nth_error in Hin'. destruct Hin' as [i Hi].
    assert (Hlene : length (vs1 ++ vs2) = length (fs1 ++ fs2)) by (symmetry; eapply Forall2_len; eauto).
    destruct (nth_error_ex (vs1 ++ vs2) i) as [x Hx]; [apply nth_error_some_lt in Hi; clear - Hi Hlene; lia|].
    apply (seen_after_in _ _ [] (lift (fd', (x, fbody p fd' x)))).
    + apply in_map. apply sorted_has with (i := i); try assumption.
      intros fd0 Hfd0. destruct (Forall2_in_l _ _ _ _ HFe Hfd0) as [b [Hb _]]. clear - Hb. lia.
    + unfold lift, g_fd, g_x. cbn [fst snd]. pose proof (Forall2_nth_error _ _ _ _ _ _ HFe Hi Hx) as [_ [_ [_ [_ [Hrq _]]]]].
      unfold fskip. rewrite Er, (Hrq Er). reflexivity.
    + apply in_map. exact Hfd'.
  - rewrite !tnorm_struct_eq. f_equal. apply cur_norm_split; apply fgood_norm; assumption.
Qed.

(* ====================================================================== *)
(* ---------- C08: a declared field carrying a different wire type ---------- *)
Lemma widen_spec3 f p fs vs es xs flags rest :
  NoDup (map fld_id fs) -> (forall y, In y (map fld_id fs) -> 1 <= y) -> length vs = length fs ->
  NoDup (map fld_id es) -> Forall2 fgood es xs ->
  (forall i fd, nth_error es i = Some fd ->
     (exists j, nth_error fs j = Some fd /\ nth_error vs j = nth_error xs i) \/ ~ In (fld_id fd) (map fld_id fs) \/
     (exists j fd' x0, nth_error fs j = Some fd' /\ fld_id fd' = fld_id fd /\ nth_error vs j = Some x0 /\ fskip fd' x0 = true /\
                       type_of (fld_ty fd') <> type_of (fld_ty fd))) ->
  (length (enc p (ThStruct es) (TvStruct xs)) + fdepth es <= f)%nat ->
  sloop f p fs flags f (enc p (ThStruct es) (TvStruct xs) ++ rest) 0 0
        (cur_of (map eid (sort_by_id (mk_encs p es xs))) fs vs) [] =
  if has_flag flags f_strict && existsb (is_conflict fs) (map lift (sort_by_id (mk_encs p es xs))) then TErr EMismatch else
  if smissing fs (seen_after fs (map lift (sort_by_id (mk_encs p es xs))) []) then TErr EMissing
  else TOk (TvStruct (cur_of [] fs vs), rest).
Proof.
  intros Hnd Hids Hlen Hnde HF Hcase Hf.
  assert (Hlene : length xs = length es) by (symmetry; eapply Forall2_len; eauto).
  assert (Hide : forall fd, In fd es -> 1 <= fld_id fd < 2 ^ 15) by (intros fd Hfd; destruct (Forall2_in_l _ _ _ _ HF Hfd) as [b [Hb _]]; lia).
  destruct (sort_by_id_spec (mk_encs p es xs) 0) as [Hasc Hin].
  { rewrite mk_encs_ids by exact Hlene. exact Hnde. }
  { intros e He. destruct (mk_encs_in p es xs e He) as [i [Hi _]]. unfold eid. apply nth_error_In in Hi. specialize (Hide _ Hi). lia. }
  assert (Hlt : forall e, In e (sort_by_id (mk_encs p es xs)) -> eid e < 2 ^ 15).
  { intros e He. apply Hin in He. destruct (mk_encs_in p es xs e He) as [i [Hi _]]. apply nth_error_In in Hi. specialize (Hide _ Hi). unfold eid. lia. }
  rewrite enc_struct_eq in *.
  rewrite (enc_go_gen p (sort_by_id (mk_encs p es xs)) 0 ltac:(lia) Hasc Hlt) in Hf |- *.
  rewrite <- (lift_eid (sort_by_id (mk_encs p es xs))).
  apply (sloop_gen3 f p fs vs flags Hnd Hids); try lia.
  - intros e He. apply in_map_iff in He. destruct He as [e0 [<- He0]]. pose proof He0 as He1. apply Hin in He1.
    destruct (mk_encs_in p es xs e0 He1) as [i [Hi1 [Hi2 Hi3]]].
    pose proof (Forall2_nth_error _ _ _ _ _ _ HF Hi1 Hi2) as Hg.
    assert (Hbody : fskip (fst e0) (fst (snd e0)) = false -> coalesce p (type_of (fld_ty (fst e0))) = false ->
              nilp (fst (snd e0)) = false /\ (length (fbody p (fst e0) (fst (snd e0))) + tdepth (fld_ty (fst e0)) <= f)%nat).
    { intros Hs Hc. split; [unfold fskip in Hs; apply orb_false_elim in Hs; apply Hs|].
      pose proof (gen_go_body_len p _ 0 (lift e0) (in_map lift _ _ He0) Hs Hc) as Hbl.
      unfold lift at 1, g_body in Hbl. cbn [fst snd] in Hbl. rewrite Hi3 in Hbl.
      assert ((tdepth (fld_ty (fst e0)) <= fdepth es)%nat).
      { clear - Hi1. apply nth_error_In in Hi1. induction es as [|a r IH]; [contradiction|]. rewrite fdepth_cons.
        destruct Hi1 as [->|Hi1]; [lia | specialize (IH Hi1); lia]. }
      lia. }
    assert (Hidr : 1 <= fld_id (fst e0) < 2 ^ 15) by (apply Hide; eapply nth_error_In; eauto).
    unfold gentry_ok, gconflict_ok, lift, g_fd, g_x, g_body. cbn [fst snd].
    destruct (Hcase i _ Hi1) as [[j [Hj1 Hj2]]|[Hnin|[j [fd' [x0 [Hj1 [Hjeq [Hj2 [Hjs Hjt]]]]]]]]].
    + left. split; [exact Hidr|]. left. exists j. split; [exact Hj1|]. split; [rewrite Hj2; exact Hi2|].
      intros Hs. pose proof Hg as [Hid [Hokt [Hwft Hrest]]]. split; [exact Hokt|]. split; [exact Hwft|].
      intros Hc fl rest0. destruct (Hbody Hs Hc) as [Hnil Hfl]. rewrite Hi3.
      apply (rspec_full _ _ _ rest0). apply fdec_spec; assumption.
    + left. split; [exact Hidr|]. right. split; [exact Hnin|]. intros Hs Hc rest0. destruct (Hbody Hs Hc) as [Hnil Hfl]. rewrite Hi3.
      apply fbody_skip; try assumption. apply skip_all.
    + right. split; [exact Hidr|]. exists j, fd', x0. repeat split; try assumption.
      intros Hs Hc rest0. destruct (Hbody Hs Hc) as [Hnil Hfl]. rewrite Hi3.
      apply fbody_skip; try assumption. apply skip_all.
  - rewrite lift_eid. exact Hasc.
Qed.

Lemma replace_case {A B} (fs1 fs2 : list A) (fd fd' : A) (vs1 vs2 : list B) (x x0 : B) i a : length vs1 = length fs1 ->
  nth_error (fs1 ++ fd' :: fs2) i = Some a -> i <> length fs1 ->
  nth_error (fs1 ++ fd :: fs2) i = Some a /\ nth_error (vs1 ++ x0 :: vs2) i = nth_error (vs1 ++ x :: vs2) i.
Proof.
  intros Hl Hi Hne. destruct (Nat.ltb_spec i (length fs1)) as [Hlt|Hge].
  - rewrite nth_error_app1 in Hi by lia. rewrite !nth_error_app1 by lia. split; [exact Hi | reflexivity].
  - rewrite nth_error_app2 in Hi by lia. rewrite !nth_error_app2 by lia.
    destruct (i - length fs1)%nat as [|m] eqn:Em; [lia|]. replace (i - length vs1)%nat with (S m) by lia.
    cbn [nth_error] in *. split; [exact Hi | reflexivity].
Qed.

Lemma conflict_setup p fs1 id fl fl' ft ft' fs2 vs1 x vs2 f flags rest :
  ty_ok (ThStruct (fs1 ++ TField id fl ft :: fs2)) = true -> ty_ok (ThStruct (fs1 ++ TField id fl' ft' :: fs2)) = true ->
  type_of ft' <> type_of ft -> length vs1 = length fs1 ->
  tval_wf (ThStruct (fs1 ++ TField id fl' ft' :: fs2)) (TvStruct (vs1 ++ x :: vs2)) = true ->
  (length (enc p (ThStruct (fs1 ++ TField id fl' ft' :: fs2)) (TvStruct (vs1 ++ x :: vs2))) + fdepth (fs1 ++ TField id fl' ft' :: fs2) <= f)%nat ->
  let fs := fs1 ++ TField id fl ft :: fs2 in let vs := vs1 ++ TvPtr None :: vs2 in
  let l := map lift (sort_by_id (mk_encs p (fs1 ++ TField id fl' ft' :: fs2) (vs1 ++ x :: vs2))) in
  sloop f p fs flags f (enc p (ThStruct (fs1 ++ TField id fl' ft' :: fs2)) (TvStruct (vs1 ++ x :: vs2)) ++ rest) 0 0 (zero_fields fs) [] =
  (if has_flag flags f_strict && existsb (is_conflict fs) l then TErr EMismatch else
   if smissing fs (seen_after fs l []) then TErr EMissing else TOk (TvStruct (cur_of [] fs vs), rest)) /\
  In (lift (TField id fl' ft', (x, fbody p (TField id fl' ft') x))) l /\
  (forall fd0, In fd0 fs -> fld_id fd0 <> id -> exists x0, In (lift (fd0, (x0, fbody p fd0 x0))) l /\ (has_flag (fld_flags fd0) f_required = true -> fskip fd0 x0 = false)).
Proof.
  intros Hok Hoke Htne Hlen Hwf Hf fs vs l.
  destruct (struct_good _ _ Hoke Hwf (all_mainP _)) as [Hnde HFe].
  assert (Hlene : length (vs1 ++ x :: vs2) = length (fs1 ++ TField id fl' ft' :: fs2)) by (symmetry; eapply Forall2_len; eauto).
  assert (Hlenv : length vs = length fs) by (unfold vs, fs; rewrite !app_length in *; cbn [length] in *; lia).
  rewrite ProofsA.ok_struct in Hok. apply andb_true_iff in Hok. destruct Hok as [Hd Hfok].
  pose proof (distinctZ_NoDup _ Hd) as Hnd.
  assert (Hids : forall y, In y (map fld_id fs) -> 1 <= y).
  { intros y Hy. apply in_map_iff in Hy. destruct Hy as [fd' [<- Hfd']]. pose proof (ProofsA.fok_range fs fd' Hfok Hfd'). lia. }
  assert (Hide : forall fd', In fd' (fs1 ++ TField id fl' ft' :: fs2) -> 1 <= fld_id fd') by (intros fd' Hfd'; destruct (Forall2_in_l _ _ _ _ HFe Hfd') as [b [Hb _]]; lia).
  pose proof (@nth_error_mid) as Hmid.
  split; [|split].
  - rewrite <- (cur_of_all2 (map eid (sort_by_id (mk_encs p (fs1 ++ TField id fl' ft' :: fs2) (vs1 ++ x :: vs2)))) fs vs Hlenv).
    + apply (widen_spec3 f p fs vs _ _ flags rest Hnd Hids Hlenv Hnde HFe); [|exact Hf].
      intros i a Hi. destruct (Nat.eq_dec i (length fs1)) as [->|Hne].
      * right. right. rewrite Hmid in Hi. inversion Hi; subst a.
        exists (length fs1), (TField id fl ft), (TvPtr None). unfold fs, vs. rewrite Hmid. rewrite <- Hlen. rewrite Hmid.
        repeat split. cbn [fld_ty]. congruence.
      * left. destruct (replace_case fs1 fs2 (TField id fl ft) (TField id fl' ft') vs1 vs2 x (TvPtr None) i a Hlen Hi Hne) as [H1 H2].
        exists i. split; assumption.
    + intros j fd' y Hj Hy. destruct (Nat.eq_dec j (length fs1)) as [->|Hne].
      * right. unfold vs in Hy. rewrite <- Hlen in Hy. rewrite Hmid in Hy. inversion Hy; subst y. reflexivity.
      * left. destruct (replace_case fs1 fs2 (TField id fl' ft') (TField id fl ft) vs1 vs2 (TvPtr None) x j fd' Hlen Hj Hne) as [H1 H2].
        unfold vs in Hy. rewrite <- H2 in Hy.
        apply (in_map eid _ (fd', (y, fbody p fd' y))). apply sorted_has with (i := j); assumption.
  - apply in_map. apply sorted_has with (i := length fs1); try assumption; [apply Hmid | rewrite <- Hlen; apply Hmid].
  - intros fd0 Hfd0 Hne0. apply In_nth_error in Hfd0. destruct Hfd0 as [j Hj].
    assert (Hjne : j <> length fs1).
    { intros ->. unfold fs in Hj. rewrite Hmid in Hj. inversion Hj; subst fd0. apply Hne0. reflexivity. }
    destruct (replace_case fs1 fs2 (TField id fl' ft') (TField id fl ft) vs1 vs2 (TvPtr None) x j fd0 Hlen Hj Hjne) as [H1 _].
    destruct (nth_error_ex (vs1 ++ x :: vs2) j) as [x0 Hx0]; [apply nth_error_some_lt in H1; clear - H1 Hlene; lia|].
    exists x0. split; [apply in_map; apply sorted_has with (i := j); assumption|].
    intros Er. pose proof (Forall2_nth_error _ _ _ _ _ _ HFe H1 Hx0) as [_ [_ [_ [_ [Hrq _]]]]]. unfold fskip. rewrite Er, (Hrq Er). reflexivity.
Qed.

Lemma conflict_fuel p E xs T T' fuel : (length (TMarshal p (ThStruct E) xs) + tdepth (ThStruct T) + tdepth (ThStruct T') <= fuel)%nat ->
  tdepth (ThStruct T') = S (fdepth T') -> exists f, fuel = S f /\ (length (enc p (ThStruct E) xs) + fdepth T' <= f)%nat.
Proof. intros H H'. unfold TMarshal in H. destruct fuel as [|f]; [lia|]. exists f. split; [reflexivity | lia]. Qed.

Lemma t_mismatch_strict : t_mismatch_strict_statement.
Proof.
  intros p fs1 id fl fl' ft ft' fs2 vs1 x vs2 fuel Hok Hoke Htne Hlen Hwf Hom Hf.
  destruct (conflict_fuel _ _ _ _ _ _ Hf (tdepth_struct_eq _)) as [f [-> Hf']].
  unfold TDecode, TMarshal. rewrite dec_struct_eq, zero_struct_eq. rewrite <- (app_nil_r (enc p _ _)).
  destruct (conflict_setup p fs1 id fl fl' ft ft' fs2 vs1 x vs2 f f_strict [] Hok Hoke Htne Hlen Hwf Hf') as [-> [Hin _]].
  replace (has_flag f_strict f_strict) with true by reflexivity. cbn [andb].
  replace (existsb _ _) with true; [reflexivity|]. symmetry. apply existsb_exists. eexists. split; [exact Hin|].
  unfold is_conflict, lift, g_fd, g_x. cbn [fst snd]. change (fskip (TField id fl' ft') x) with (field_omitted (TField id fl' ft') x).
  rewrite Hom. cbn [negb andb]. apply existsb_exists. exists (TField id fl ft). split; [apply in_or_app; right; left; reflexivity|].
  cbn [fld_id fld_ty]. rewrite Z.eqb_refl. cbn [andb]. apply negb_true_iff. apply Z.eqb_neq. congruence.
Qed.

Lemma t_mismatch_skipped : t_mismatch_skipped_statement.
Proof.
  intros p fs1 id fl fl' ft ft' fs2 vs1 x vs2 fuel Hok Hoke Htne Hlen Hwf Hom Hf.
  destruct (conflict_fuel _ _ _ _ _ _ Hf (tdepth_struct_eq _)) as [f [-> Hf']].
  pose proof Hwf as Hwf'. rewrite wf_struct_eq in Hwf'. destruct (wf_fields_app fs1 _ vs1 _ Hlen Hwf') as [Hwf1 Hwf2].
  cbn [wf_fields] in Hwf2. apply andb_true_iff in Hwf2. destruct Hwf2 as [_ Hwf2]. rewrite <- wf_struct_eq in Hwf1, Hwf2.
  destruct (ty_ok_struct_app fs1 _ Hok) as [Hok1 Hok2].
  assert (Hok2' : ty_ok (ThStruct fs2) = true) by (apply (ty_ok_struct_app [TField id fl ft] fs2 Hok2)).
  destruct (struct_good fs1 vs1 Hok1 Hwf1 (all_mainP _)) as [_ HF1].
  destruct (struct_good fs2 vs2 Hok2' Hwf2 (all_mainP _)) as [_ HF2].
  exists (TvStruct (cur_of [] (fs1 ++ TField id fl ft :: fs2) (vs1 ++ TvPtr None :: vs2))). split.
  - unfold TDecode, TMarshal. rewrite dec_struct_eq, zero_struct_eq. rewrite <- (app_nil_r (enc p _ _)).
    destruct (conflict_setup p fs1 id fl fl' ft ft' fs2 vs1 x vs2 f 0 [] Hok Hoke Htne Hlen Hwf Hf') as [-> [Hin Hothers]].
    replace (has_flag 0 f_strict) with false by reflexivity. cbn [andb].
    rewrite smissing_false; [reflexivity|]. intros fd0 Hfd0 Er.
    destruct (Z.eq_dec (fld_id fd0) id) as [Heq|Hne].
    + assert (fd0 = TField id fl ft).
      { rewrite ProofsA.ok_struct in Hok. apply andb_true_iff in Hok. destruct Hok as [Hd _]. pose proof (distinctZ_NoDup _ Hd) as Hnd.
        apply In_nth_error in Hfd0. destruct Hfd0 as [j Hj].
        pose proof (nth_error_mid fs1 fs2 (TField id fl ft)) as Hm.
        pose proof (NoDup_uniq _ _ _ Hnd Hm j fd0 Hj Heq). subst j. rewrite Hm in Hj. inversion Hj. reflexivity. }
      subst fd0. cbn [fld_flags fld_id] in *.
      apply (seen_after_in _ _ [] _ Hin); [exact (Hom Er) | exact (in_map fld_id _ _ Hfd0)].
    + destruct (Hothers fd0 Hfd0 Hne) as [x0 [Hx0 Hs0]].
      apply (seen_after_in _ _ [] _ Hx0); [exact (Hs0 Er) | apply in_map; exact Hfd0].
  - rewrite !tnorm_struct_eq. f_equal. apply (cur_norm_split fs1 (TField id fl ft) fs2); apply fgood_norm; assumption.
Qed.

(* ---------- the items of a list ---------- *)
Lemma skip_items_eq f p et n r : skip_items f p et n r = ProofsA.sk_list (skip f p) et (S (length r)) n r.
Proof. reflexivity. Qed.
Lemma t_mismatch_list : t_mismatch_list_statement.
Proof.
  intros p et et' v old flags fuel rest Hok Hwf Htne Hf. unfold TMarshal in *. destruct v; try discriminate Hwf.
  destruct fuel as [|f]; [cbn [tdepth] in Hf; lia|]. cbn [ty_ok] in Hok. apply wf_list_inv in Hwf. destruct Hwf as [Hlen HF].
  rewrite dec_list_eq, enc_list_eq in *. rewrite <- app_assoc. pose proof (type_of_range et') as Hty. unfold tlim in Hlen.
  rewrite (rspec_full _ _ _ _ (r_list_spec p (len es) (type_of et') ltac:(unfold len in *; lia) ltac:(lia))). cbn [tbind].
  cbv zeta. replace (type_of et' =? c_TRUE) with false by (unfold c_TRUE; lia).
  replace (type_of et =? type_of et') with false by (symmetry; apply Z.eqb_neq; congruence). cbn [negb].
  destruct (has_flag flags f_strict); [reflexivity|].
  rewrite skip_items_eq. rewrite app_length in Hf. cbn [tdepth] in Hf.
  rewrite (sk_list_spec f p et' (skip_all et') Hok es HF); [reflexivity | lia | rewrite app_length; lia].
Qed.
