(* Hand-written executable model of package thrift: the binary and compact protocol writers and
   readers (binary.go, compact.go), type mapping (thrift.go TypeOf), struct field collection
   (struct.go), the encoders (encode.go) and decoders (decode.go) including unknown-field skipping,
   required-field tracking with its bitsets, and EOF normalisation (error.go).
   Values abstract Go memory; readers consume a byte list. Definitions only. *)
From Verif Require Import Base.GoInt.
Open Scope Z_scope.

(* ---------- outcomes ---------- *)
Inductive terr : Set := EEOF | EUnexpectedEOF | EOther | EMissing | EMismatch.
Inductive tres (A : Type) : Type := TOk (a : A) | TErr (e : terr) | TPanic | TOutOfFuel.
Arguments TOk {A} a.
Arguments TErr {A} e.
Arguments TPanic {A}.
Arguments TOutOfFuel {A}.
Definition tbind {A B} (r : tres A) (f : A -> tres B) : tres B :=
  match r with TOk a => f a | TErr e => TErr e | TPanic => TPanic | TOutOfFuel => TOutOfFuel end.
Notation "'tlet' x <- e 'in' k" := (tbind e (fun x => k))
  (at level 200, x pattern, e at level 100, k at level 200, right associativity).
(* error.go dontExpectEOF *)
Definition dont_expect_eof {A} (r : tres A) : tres A :=
  match r with TErr EEOF => TErr EUnexpectedEOF | _ => r end.

(* ---------- types, values ---------- *)
Inductive tty : Type :=
| ThBool | ThI8 | ThI16 | ThI32 | ThI64 | ThF64 | ThStr | ThBytes
| ThList (t : tty) | ThSet (k : tty) | ThMap (k v : tty)
| ThStruct (fs : list tfield)
| ThPtr (t : tty)
with tfield : Type := TField (id : Z) (flags : Z) (t : tty).

Inductive tval : Type :=
| TvBool (b : bool)
| TvInt (z : Z)                         (* integers; doubles as their IEEE bits *)
| TvBytes (nonnil : bool) (s : bytes)   (* string (always nonnil = true) and []byte *)
| TvList (nonnil : bool) (es : list tval)
| TvSet (nonnil : bool) (ks : list tval)
| TvMap (nonnil : bool) (es : list (tval * tval))
| TvStruct (vs : list tval)
| TvPtr (o : option tval).

Inductive proto : Set := PBinary | PCompact.

(* struct.go flag bits *)
Definition f_enum : Z := 1.
Definition f_required : Z := 4.
Definition f_optional : Z := 8.
Definition f_strict : Z := 16.
Definition has_flag (f x : Z) : bool := Z.land f x =? x.

(* thrift.go type codes (the compact protocol's numbering; the package uses it for both protocols) *)
Definition c_STOP := 0. Definition c_TRUE := 1. Definition c_BOOL := 2. Definition c_I8 := 3.
Definition c_I16 := 4. Definition c_I32 := 5. Definition c_I64 := 6. Definition c_DOUBLE := 7.
Definition c_BINARY := 8. Definition c_LIST := 9. Definition c_SET := 10. Definition c_MAP := 11. Definition c_STRUCT := 12.

Fixpoint type_of (t : tty) : Z :=
  match t with
  | ThBool => c_BOOL | ThI8 => c_I8 | ThI16 => c_I16 | ThI32 => c_I32 | ThI64 => c_I64 | ThF64 => c_DOUBLE
  | ThStr | ThBytes => c_BINARY | ThList _ => c_LIST | ThSet _ => c_SET | ThMap _ _ => c_MAP | ThStruct _ => c_STRUCT
  | ThPtr t' => type_of t'
  end.

Definition fld_id (f : tfield) := match f with TField i _ _ => i end.
Definition fld_flags (f : tfield) := match f with TField _ fl _ => fl end.
Definition fld_ty (f : tfield) := match f with TField _ _ t => t end.

(* ---------- byte-level writers ---------- *)
Fixpoint be_bytes (n : nat) (v : Z) : bytes :=        (* big-endian, n bytes, of v mod 256^n *)
  match n with O => [] | S n' => ((v / 256 ^ Z.of_nat n') mod 256) :: be_bytes n' v end.
Fixpoint uvarint_fuel (fuel : nat) (v : Z) : bytes :=  (* encoding/binary.PutUvarint *)
  match fuel with
  | O => []
  | S f => if v <? 128 then [v] else (v mod 128 + 128) :: uvarint_fuel f (v / 128)
  end.
Definition uvarint (v : Z) : bytes := uvarint_fuel 10 (w64 v).
Definition zz64 (v : Z) : Z := if 0 <=? v then 2 * v else - 2 * v - 1.   (* PutVarint: ux = x<<1, ^ux if x<0 *)
Definition varint (v : Z) : bytes := uvarint (zz64 v).

Definition w_i16 (p : proto) (v : Z) : bytes := match p with PBinary => be_bytes 2 (w16 v) | PCompact => varint v end.
Definition w_i32 (p : proto) (v : Z) : bytes := match p with PBinary => be_bytes 4 (w32 v) | PCompact => varint v end.
Definition w_i64 (p : proto) (v : Z) : bytes := match p with PBinary => be_bytes 8 (w64 v) | PCompact => varint v end.
Definition w_f64 (p : proto) (bits : Z) : bytes := be_bytes 8 bits.           (* both protocols: big-endian (compact: recorded finding) *)
Definition w_len (p : proto) (n : Z) : bytes := match p with PBinary => be_bytes 4 n | PCompact => uvarint n end.
Definition w_bytes (p : proto) (s : bytes) : bytes := w_len p (len s) ++ s.
(* WriteField: (id, type); id is a delta when the struct encoder decided so *)
Definition w_field (p : proto) (id ty : Z) : bytes :=
  match p with
  | PBinary => [w8 ty] ++ be_bytes 2 (w16 id)                                  (* also for STOP: 3 bytes (recorded finding) *)
  | PCompact =>
      if ty =? c_STOP then [0]
      else if id <=? 15 then [Z.lor (w8 (id * 16)) (w8 ty)]
      else [w8 ty] ++ varint id
  end.
Definition w_list (p : proto) (size ty : Z) : bytes :=
  match p with
  | PBinary => [w8 ty] ++ be_bytes 4 (w32 size)
  | PCompact => if size <=? 14 then [Z.lor (w8 (size * 16)) (w8 ty)] else [Z.lor 240 (w8 ty)] ++ uvarint size
  end.
Definition w_map (p : proto) (size k v : Z) : bytes :=
  match p with
  | PBinary => [w8 k; w8 v] ++ be_bytes 4 (w32 size)
  | PCompact => uvarint size ++ (if size =? 0 then [] else [Z.lor (w8 (k * 16)) (w8 v)])
  end.

(* ---------- reflect.Value.IsZero ---------- *)
Fixpoint is_zero (v : tval) : bool :=
  match v with
  | TvBool b => negb b
  | TvInt z => z =? 0
  | TvBytes nn s => negb nn || false
  | TvList nn _ | TvSet nn _ | TvMap nn _ => negb nn
  | TvPtr o => match o with None => true | Some _ => false end
  | TvStruct vs => forallb is_zero vs
  end.
(* strings and floats need their type: "" is zero although non-nil; -0.0 == 0 *)
Definition is_zero_at (t : tty) (v : tval) : bool :=
  match t, v with
  | ThStr, TvBytes _ s => len s =? 0
  | ThF64, TvInt z => (z =? 0) || (z =? 2 ^ 63)
  | _, _ => is_zero v
  end.
Fixpoint is_zero_t (t : tty) (v : tval) {struct t} : bool :=
  match t, v with
  | ThStruct fs, TvStruct vs =>
      (fix go (fs : list tfield) (vs : list tval) : bool :=
         match fs, vs with
         | TField _ _ ft :: fr, x :: vr => is_zero_t ft x && go fr vr
         | _, _ => true
         end) fs vs
  | _, _ => is_zero_at t v
  end.

(* zero values *)
Fixpoint zero_of (t : tty) : tval :=
  match t with
  | ThBool => TvBool false
  | ThI8 | ThI16 | ThI32 | ThI64 | ThF64 => TvInt 0
  | ThStr => TvBytes true []
  | ThBytes => TvBytes false []
  | ThList _ => TvList false []
  | ThSet _ => TvSet false []
  | ThMap _ _ => TvMap false []
  | ThPtr _ => TvPtr None
  | ThStruct fs => TvStruct ((fix go (fs : list tfield) : list tval := match fs with [] => [] | TField _ _ ft :: r => zero_of ft :: go r end) fs)
  end.

(* stable insertion sort of (field, value) pairs by id: sort.SliceStable *)
Fixpoint insert_by_id {A} (x : tfield * A) (l : list (tfield * A)) : list (tfield * A) :=
  match l with
  | [] => [x]
  | y :: r => if fld_id (fst y) <=? fld_id (fst x) then y :: insert_by_id x r else x :: l
  end.
Definition sort_by_id {A} (l : list (tfield * A)) : list (tfield * A) := fold_left (fun acc x => insert_by_id x acc) l [].

(* ---------- encoders ---------- *)
Definition deref_bool (v : tval) : bool :=          (* encode.go isTrue: dereference then Bool *)
  (fix go (n : nat) (v : tval) : bool :=
     match n with O => false | S n' =>
       match v with TvBool b => b | TvPtr (Some x) => go n' x | _ => false end end) 8%nat v.

Fixpoint enc (p : proto) (t : tty) (v : tval) {struct t} : bytes :=
  match t, v with
  | ThBool, TvBool b => [if b then 1 else 0]
  | ThI8, TvInt z => [w8 z]
  | ThI16, TvInt z => w_i16 p z
  | ThI32, TvInt z => w_i32 p z
  | ThI64, TvInt z => w_i64 p z
  | ThF64, TvInt z => w_f64 p z
  | (ThStr | ThBytes), TvBytes _ s => w_bytes p s
  | ThPtr t', TvPtr o => match o with Some x => enc p t' x | None => enc p t' (zero_of t') end
  | ThList et, TvList _ es =>
      w_list p (len es) (type_of et) ++ (fix go (es : list tval) : bytes := match es with [] => [] | x :: r => enc p et x ++ go r end) es
  | ThSet kt, TvSet _ ks =>
      w_list p (len ks) (type_of kt) ++ (fix go (es : list tval) : bytes := match es with [] => [] | x :: r => enc p kt x ++ go r end) ks
  | ThMap kt vt, TvMap _ es =>
      w_map p (len es) (type_of kt) (type_of vt) ++
      (fix go (es : list (tval * tval)) : bytes := match es with [] => [] | (k, x) :: r => enc p kt k ++ enc p vt x ++ go r end) es
  | ThStruct fs, TvStruct vs =>
      (* fields in id order; nil pointers and zero-valued non-required fields are not written; delta ids and
         boolean coalescing for the compact protocol *)
      let pairs := (fix zip (fs : list tfield) (vs : list tval) : list (tfield * tval) :=
                      match fs, vs with f :: fr, x :: vr => (f, x) :: zip fr vr | _, _ => [] end) fs vs in
      (* the encoder of each field, computed structurally here and carried with the pair *)
      let encs := (fix mk (fs : list tfield) (vs : list tval) : list (tfield * (tval * bytes)) :=
                     match fs, vs with
                     | f :: fr, x :: vr =>
                         let body := match f with TField _ fl ft =>
                                       if has_flag fl f_enum then
                                         match ft, x with
                                         | (ThI8 | ThI16 | ThI32 | ThI64), TvInt z => w_i32 p (s32 z)   (* enum: encodeInt32 *)
                                         | _, _ => enc p ft x
                                         end
                                       else enc p ft x end in
                         (f, (x, body)) :: mk fr vr
                     | _, _ => []
                     end) fs vs in
      let sorted := sort_by_id encs in
      (fix go (l : list (tfield * (tval * bytes))) (last : Z) : bytes :=
         match l with
         | [] => w_field p 0 c_STOP
         | (f, (x, body)) :: r =>
             let skip := match x with TvPtr None => true | _ => false end
                         || (negb (has_flag (fld_flags f) f_required) && is_zero_t (fld_ty f) x) in
             if skip then go r last else
             let ty := type_of (fld_ty f) in
             let delta := s16 (fld_id f - last) in
             let '(wid) := match p with PCompact => if delta <=? 15 then delta else fld_id f | PBinary => fld_id f end in
             let coalesce := match p with PCompact => ty =? c_BOOL | PBinary => false end in
             let wty := if coalesce && deref_bool x then c_TRUE else ty in
             w_field p wid wty ++ (if coalesce then [] else body) ++ go r (fld_id f)
         end) sorted 0
  | _, _ => []
  end.

Definition TMarshal (p : proto) (t : tty) (v : tval) : bytes := enc p t v.

(* ---------- byte-level readers: input -> (value, rest) ---------- *)
Definition rd (A : Type) : Type := bytes -> tres (A * bytes).
Definition r_byte : rd Z := fun b => match b with [] => TErr EEOF | x :: r => TOk (x, r) end.
(* io.ReadFull of n bytes: EOF when nothing is available, ErrUnexpectedEOF when cut short *)
Definition r_full (n : nat) : rd bytes := fun b =>
  if (n =? 0)%nat then TOk ([], b)
  else match b with
       | [] => TErr EEOF
       | _ => if (length b <? n)%nat then TErr EUnexpectedEOF else TOk (firstn n b, skipn n b)
       end.
Fixpoint be_val (b : bytes) : Z := fold_left (fun acc x => acc * 256 + x) b 0.
(* encoding/binary.ReadUvarint over an io.ByteReader *)
Fixpoint r_uvarint_loop (fuel : nat) (i : Z) (x s : Z) (b : bytes) : tres (Z * bytes) :=
  match fuel with
  | O => TErr EOther                                   (* overflow: more than 10 bytes *)
  | S f =>
      match b with
      | [] => TErr (if i =? 0 then EEOF else EUnexpectedEOF)
      | c :: r =>
          if c <? 128 then
            if (i =? 9) && (c >? 1) then TErr EOther
            else TOk (Z.lor x (w64 (Z.shiftl c s)), r)
          else r_uvarint_loop f (i + 1) (Z.lor x (w64 (Z.shiftl (Z.land c 127) s))) (s + 7) r
      end
  end.
Definition r_uvarint (max : Z) : rd Z := fun b =>
  tlet (u, r) <- r_uvarint_loop 10 0 0 0 b in
  if u >? max then TErr EOther else TOk (u, r).
Definition unzz (u : Z) : Z := if Z.even u then u / 2 else - ((u + 1) / 2).
Definition r_varint (lo hi : Z) : rd Z := fun b =>
  tlet (u, r) <- r_uvarint_loop 10 0 0 0 b in
  let v := unzz u in
  if (v <? lo) || (v >? hi) then TErr EOther else TOk (v, r).

Definition r_i16 (p : proto) : rd Z := fun b =>
  match p with
  | PBinary => tlet (x, r) <- r_full 2 b in TOk (s16 (be_val x), r)
  | PCompact => r_varint (- 2 ^ 15) (2 ^ 15 - 1) b
  end.
Definition r_i32 (p : proto) : rd Z := fun b =>
  match p with
  | PBinary => tlet (x, r) <- r_full 4 b in TOk (s32 (be_val x), r)
  | PCompact => r_varint (- 2 ^ 31) (2 ^ 31 - 1) b
  end.
Definition r_i64 (p : proto) : rd Z := fun b =>
  match p with
  | PBinary => tlet (x, r) <- r_full 8 b in TOk (s64 (be_val x), r)
  | PCompact => r_varint (- 2 ^ 63) (2 ^ 63 - 1) b
  end.
Definition r_f64 (p : proto) : rd Z := fun b => tlet (x, r) <- r_full 8 b in TOk (be_val x, r).
Definition r_len (p : proto) : rd Z := fun b =>
  match p with
  | PBinary => tlet (x, r) <- r_full 4 b in let n := be_val x in if n >? 2 ^ 31 - 1 then TErr EOther else TOk (n, r)
  | PCompact => r_uvarint (2 ^ 31 - 1) b
  end.
(* ReadBytes: length then exactly that many bytes; a short payload is an unexpected EOF *)
Definition r_bytes (p : proto) : rd bytes := fun b =>
  tlet (n, r) <- r_len p b in
  if len r <? n then TErr EUnexpectedEOF else TOk (slice_to r n, slice_from r n).
(* ReadField: (id, type, isDelta) *)
Definition r_field (p : proto) : rd (Z * Z * bool) := fun b =>
  match p with
  | PBinary =>
      tlet (t, r) <- r_byte b in
      tlet (i, r) <- dont_expect_eof (r_i16 PBinary r) in
      TOk ((i, s8 t, false), r)
  | PCompact =>
      tlet (x, r) <- r_byte b in
      if x =? c_STOP then TOk ((0, 0, false), r)
      else if negb (Z.shiftr x 4 =? 0) then TOk ((Z.shiftr x 4, Z.land x 15, true), r)
      else tlet (i, r) <- dont_expect_eof (r_i16 PCompact r) in TOk ((i, s8 x, false), r)
  end.
(* ReadList: (size, elem type) *)
Definition r_list (p : proto) : rd (Z * Z) := fun b =>
  match p with
  | PBinary =>
      tlet (t, r) <- r_byte b in
      tlet (n, r) <- dont_expect_eof (r_i32 PBinary r) in
      if n <? 0 then TErr EOther else TOk ((n, s8 t), r)                       (* binary.go ReadList: negative size *)
  | PCompact =>
      tlet (x, r) <- r_byte b in
      if negb (Z.shiftr x 4 =? 15) then TOk ((Z.shiftr x 4, Z.land x 15), r)
      else tlet (n, r) <- dont_expect_eof (r_uvarint (2 ^ 31 - 1) r) in TOk ((n, Z.land x 15), r)
  end.
Definition r_map (p : proto) : rd (Z * Z * Z) := fun b =>
  match p with
  | PBinary =>
      tlet (k, r) <- r_byte b in
      tlet (v, r) <- dont_expect_eof (r_byte r) in
      tlet (n, r) <- dont_expect_eof (r_i32 PBinary r) in
      if n <? 0 then TErr EOther else TOk ((n, s8 k, s8 v), r)                 (* binary.go ReadMap: negative size *)
  | PCompact =>
      tlet (n, r) <- r_uvarint (2 ^ 31 - 1) b in
      if n =? 0 then TOk ((0, 0, 0), r)
      else tlet (x, r) <- dont_expect_eof (r_byte r) in TOk ((n, Z.shiftr x 4, Z.land x 15), r)
  end.

(* ---------- skipping values of any type (decode.go, the skip functions) ---------- *)
Fixpoint skip (fuel : nat) (p : proto) (ty : Z) (b : bytes) {struct fuel} : tres bytes :=
  match fuel with O => TOutOfFuel | S f =>
  if (ty =? c_TRUE) || (ty =? c_BOOL) || (ty =? c_I8) then tlet (_, r) <- r_byte b in TOk r
  else if ty =? c_I16 then tlet (_, r) <- r_i16 p b in TOk r
  else if ty =? c_I32 then tlet (_, r) <- r_i32 p b in TOk r
  else if ty =? c_I64 then tlet (_, r) <- r_i64 p b in TOk r
  else if ty =? c_DOUBLE then tlet (_, r) <- r_f64 p b in TOk r
  else if ty =? c_BINARY then
    tlet (n, r) <- r_len p b in
    if n =? 0 then TOk r else if len r <? n then TErr EUnexpectedEOF else TOk (slice_from r n)
  else if (ty =? c_LIST) || (ty =? c_SET) then
    tlet (h, r) <- r_list p b in
    let '(n, et) := h in
    (fix go (k : nat) (cnt : Z) (r : bytes) : tres bytes :=
       if cnt <=? 0 then TOk r else
       match k with O => TOutOfFuel | S k' => tlet r <- dont_expect_eof (skip f p et r) in go k' (cnt - 1) r end) (S (length r)) n r
  else if ty =? c_MAP then
    tlet (h, r) <- r_map p b in
    let '(n, kt, vt) := h in
    (fix go (k : nat) (cnt : Z) (r : bytes) : tres bytes :=
       if cnt <=? 0 then TOk r else
       match k with O => TOutOfFuel | S k' =>
         tlet r <- dont_expect_eof (skip f p kt r) in
         tlet r <- dont_expect_eof (skip f p vt r) in go k' (cnt - 1) r end) (S (length r)) n r
  else if ty =? c_STRUCT then
    (fix go (k : nat) (r : bytes) (last : Z) (nfields : Z) : tres bytes :=
       match k with O => TOutOfFuel | S k' =>
         match r_field p r with
         | TErr e => TErr (if (nfields >? 0) && (match e with EEOF => true | _ => false end) then EUnexpectedEOF else e)
         | TPanic => TPanic | TOutOfFuel => TOutOfFuel
         | TOk ((id, fty, isdelta), r) =>
             if fty =? c_STOP then TOk r else
             let id := if isdelta then s16 (id + last) else id in
             tlet r <- dont_expect_eof
                         (if ((fty =? c_TRUE) || (fty =? c_BOOL)) && (match p with PCompact => true | PBinary => false end)
                          then TOk r else skip f p fty r) in
             go k' r id (nfields + 1)
         end
       end) f b 0 0
  else TErr EOther
  end.

(* decode.go skipItems / skipEntries: the items of a list or set (the entries of a map) whose header has been read;
   used when the item type differs from the declared type in non-strict mode *)
Definition skip_items (f : nat) (p : proto) (et : Z) (n : Z) (r : bytes) : tres bytes :=
  (fix go (k : nat) (cnt : Z) (r : bytes) : tres bytes :=
     if cnt <=? 0 then TOk r else
     match k with O => TOutOfFuel | S k' => tlet r <- dont_expect_eof (skip f p et r) in go k' (cnt - 1) r end) (S (length r)) n r.
Definition skip_entries (f : nat) (p : proto) (kt vt : Z) (n : Z) (r : bytes) : tres bytes :=
  (fix go (k : nat) (cnt : Z) (r : bytes) : tres bytes :=
     if cnt <=? 0 then TOk r else
     match k with O => TOutOfFuel | S k' =>
       tlet r <- dont_expect_eof (skip f p kt r) in
       tlet r <- dont_expect_eof (skip f p vt r) in go k' (cnt - 1) r end) (S (length r)) n r.

(* ---------- decoders ---------- *)
Fixpoint set_nth (vs : list tval) (i : nat) (v : tval) : list tval :=
  match vs, i with [], _ => [] | _ :: r, O => v :: r | x :: r, S i' => x :: set_nth r i' v end.
Fixpoint tval_eqb (a b : tval) {struct a} : bool :=
  match a, b with
  | TvBool x, TvBool y => Bool.eqb x y
  | TvInt x, TvInt y => x =? y
  | TvBytes _ x, TvBytes _ y => bytes_eqb x y
  | _, _ => false
  end.
Fixpoint map_set (es : list (tval * tval)) (k v : tval) : list (tval * tval) :=
  match es with [] => [(k, v)] | (k', v') :: r => if tval_eqb k' k then (k', v) :: r else (k', v') :: map_set r k v end.
Fixpoint set_add (ks : list tval) (k : tval) : list tval :=
  match ks with [] => [k] | k' :: r => if tval_eqb k' k then ks else k' :: set_add r k end.

(* wrap a decoded bool into the pointer levels of a field type (allocating as the decoder does) *)
Fixpoint wrap_ptrs (t : tty) (v : tval) : tval := match t with ThPtr t' => TvPtr (Some (wrap_ptrs t' v)) | _ => v end.

Fixpoint dec (fuel : nat) (p : proto) (t : tty) (flags : Z) (old : tval) (b : bytes) {struct fuel} : tres (tval * bytes) :=
  match fuel with O => TOutOfFuel | S f =>
  match t with
  | ThBool => tlet (x, r) <- r_byte b in TOk (TvBool (negb (x =? 0)), r)
  | ThI8 => tlet (x, r) <- r_byte b in TOk (TvInt (s8 x), r)
  | ThI16 => tlet (x, r) <- r_i16 p b in TOk (TvInt x, r)
  | ThI32 => tlet (x, r) <- r_i32 p b in TOk (TvInt x, r)
  | ThI64 => tlet (x, r) <- r_i64 p b in TOk (TvInt x, r)
  | ThF64 => tlet (x, r) <- r_f64 p b in TOk (TvInt x, r)
  | ThStr | ThBytes => tlet (s, r) <- r_bytes p b in TOk (TvBytes true s, r)
  | ThPtr t' =>
      let cur := match old with TvPtr (Some x) => x | _ => zero_of t' end in
      tlet (x, r) <- dec f p t' flags cur b in TOk (TvPtr (Some x), r)
  | ThList et =>
      tlet (h, r) <- r_list p b in
      let '(n, lt) := h in
      let lt := if lt =? c_TRUE then c_BOOL else lt in
      if negb (type_of et =? lt) then (if has_flag flags f_strict then TErr EMismatch else tlet r <- skip_items f p lt n r in TOk (old, r)) else
      if n <? 0 then TErr EOther else
      (fix go (k : nat) (cnt : Z) (acc : list tval) (r : bytes) : tres (tval * bytes) :=
         if cnt <=? 0 then TOk (TvList true (rev acc), r) else
         match k with
         | O => TOutOfFuel
         | S k' => tlet (x, r) <- dont_expect_eof (dec f p et (Z.land flags f_strict) (zero_of et) r) in go k' (cnt - 1) (x :: acc) r
         end) (S (length r)) n [] r
  | ThSet kt =>
      tlet (h, r) <- r_list p b in
      let '(n, lt) := h in
      let lt := if lt =? c_TRUE then c_BOOL else lt in
      if n <? 0 then TErr EOther else
      if n =? 0 then TOk (TvSet true [], r) else
      if negb (type_of kt =? lt) then (if has_flag flags f_strict then TErr EMismatch else tlet r <- skip_items f p lt n r in TOk (TvSet true [], r)) else
      (fix go (k : nat) (cnt : Z) (acc : list tval) (r : bytes) : tres (tval * bytes) :=
         if cnt <=? 0 then TOk (TvSet true acc, r) else
         match k with
         | O => TOutOfFuel
         | S k' => tlet (x, r) <- dont_expect_eof (dec f p kt (Z.land flags f_strict) (zero_of kt) r) in go k' (cnt - 1) (set_add acc x) r
         end) (S (length r)) n [] r
  | ThMap kt vt =>
      tlet (h, r) <- r_map p b in
      let '(n, mk, mv) := h in
      if n <? 0 then TErr EOther else
      if n =? 0 then TOk (TvMap true [], r) else
      if negb (type_of kt =? mk) then (if has_flag flags f_strict then TErr EMismatch else tlet r <- skip_entries f p mk mv n r in TOk (TvMap true [], r)) else
      if negb (type_of vt =? mv) then (if has_flag flags f_strict then TErr EMismatch else tlet r <- skip_entries f p mk mv n r in TOk (TvMap true [], r)) else
      (fix go (k : nat) (cnt : Z) (acc : list (tval * tval)) (r : bytes) : tres (tval * bytes) :=
         if cnt <=? 0 then TOk (TvMap true acc, r) else
         match k with
         | O => TOutOfFuel
         | S k' =>
             tlet (x, r) <- dont_expect_eof (dec f p kt (Z.land flags f_strict) (zero_of kt) r) in
             tlet (y, r) <- dont_expect_eof (dec f p vt (Z.land flags f_strict) (zero_of vt) r) in
             go k' (cnt - 1) (map_set acc x y) r
         end) (S (length r)) n [] r
  | ThStruct fs =>
      let vs := match old with TvStruct vs => vs | _ => match zero_of t with TvStruct z => z | _ => [] end end in
      let ids := map fld_id fs in
      let minID := fold_left (fun m i => if (i <? m) || (m =? 0) then i else m) ids 0 in
      let maxID := fold_left Z.max ids 0 in
      let nslots := maxID - minID + 1 in                                   (* len(dec.fields) *)
      let nwords := nslots / 64 + 1 in                                     (* len(dec.required) = len(seen) *)
      let lookup := fun (id : Z) =>
        (fix go (fs : list tfield) (i : nat) : option (nat * tfield) :=
           match fs with [] => None | fd :: r => if fld_id fd =? id then Some (i, fd) else go r (S i) end) fs O in
      let strictf := Z.land flags f_strict in
      (fix loop (k : nat) (r : bytes) (last : Z) (nfields : Z) (vs : list tval) (seen : list Z) : tres (tval * bytes) :=
         match k with O => TOutOfFuel | S k' =>
           match r_field p r with
           | TErr e => TErr (if (nfields >? 0) && (match e with EEOF => true | _ => false end) then EUnexpectedEOF else e)
           | TPanic => TPanic | TOutOfFuel => TOutOfFuel
           | TOk ((id, fty, isdelta), r) =>
               if fty =? c_STOP then
                 (* required fields: every required slot must have been seen *)
                 let missing := existsb (fun fd => has_flag (fld_flags fd) f_required && negb (existsb (Z.eqb (fld_id fd - minID)) seen)) fs in
                 if missing then TErr EMissing else TOk (TvStruct vs, r)
               else
               let id := if isdelta then s16 (id + last) else id in
               let slot := id - minID in
               let known := if (slot <? 0) || (slot >=? nslots) then None else lookup id in
               match known with
               | None =>
                   tlet r <- dont_expect_eof
                               (if ((fty =? c_TRUE) || (fty =? c_BOOL)) && (match p with PCompact => true | PBinary => false end)
                                then TOk r else skip f p fty r) in
                   loop k' r id (nfields + 1) vs seen
               | Some (i, fd) =>
                   (* seen[slot/64] |= 1 << (slot%64): the bitset has nwords words *)
                   if (slot / 64 >=? nwords) then TPanic else
                   let seen := slot :: seen in
                   let fexp := type_of (fld_ty fd) in
                   if negb (fty =? fexp) && negb ((fty =? c_TRUE) && (fexp =? c_BOOL)) then
                     (if has_flag flags f_strict then TErr EMismatch else
                        tlet r <- dont_expect_eof
                                    (if ((fty =? c_TRUE) || (fty =? c_BOOL)) && (match p with PCompact => true | PBinary => false end)
                                     then TOk r else skip f p fty r) in
                        loop k' r id (nfields + 1) vs seen)
                   else
                   let oldf := nth i vs (zero_of (fld_ty fd)) in
                   if (match p with PCompact => true | PBinary => false end) && ((fty =? c_TRUE) || (fty =? c_BOOL)) then
                     loop k' r id (nfields + 1) (set_nth vs i (wrap_ptrs (fld_ty fd) (TvBool (fty =? c_TRUE)))) seen
                   else
                   let fl := Z.lor strictf (fld_flags fd) in
                   tlet (x, r) <- dont_expect_eof
                                    (if has_flag (fld_flags fd) f_enum then
                                       match fld_ty fd with
                                       | ThI8 | ThI16 | ThI32 | ThI64 => tlet (z, r) <- r_i32 p r in TOk (TvInt z, r)
                                       | ft => dec f p ft fl oldf r
                                       end
                                     else dec f p (fld_ty fd) fl oldf r) in
                   loop k' r id (nfields + 1) (set_nth vs i x) seen
               end
           end
         end) f b 0 0 vs []
  end end.

(* Unmarshal: decode then no trailing bytes *)
Definition TUnmarshal (fuel : nat) (p : proto) (t : tty) (b : bytes) : tres tval :=
  tlet (v, r) <- dec fuel p t 0 (zero_of t) b in
  match r with [] => TOk v | _ => TErr EOther end.
