(* Corollaries of the thrift round trip (C04): the round trip holds for EVERY fuel above the explicit bound
   (length of the encoding + nesting depth of the type), not only for some fuel; and Marshal is injective up to
   the normalisation tnorm on the universe -- two values with the same bytes are the same value. *)
From Verif Require Import Base.GoInt Thrift.Model Thrift.Spec Thrift.ProofsB.
From Coq Require Import Lia.

Definition t_roundtrip_any_fuel_statement : Prop :=
  forall p fs v fuel, t_universe (ThStruct fs) v ->
    (length (TMarshal p (ThStruct fs) v) + tdepth (ThStruct fs) <= fuel)%nat ->
    exists r, TUnmarshal fuel p (ThStruct fs) (TMarshal p (ThStruct fs) v) = TOk r /\
              tnorm (ThStruct fs) r = tnorm (ThStruct fs) v.

Definition t_marshal_injective_statement : Prop :=
  forall p fs v1 v2, t_universe (ThStruct fs) v1 -> t_universe (ThStruct fs) v2 ->
    TMarshal p (ThStruct fs) v1 = TMarshal p (ThStruct fs) v2 ->
    tnorm (ThStruct fs) v1 = tnorm (ThStruct fs) v2.

Lemma t_roundtrip_any_fuel : t_roundtrip_any_fuel_statement.
Proof.
  intros p fs v fuel HU Hf. exists (dval (ThStruct fs) v). split.
  - pose proof (rspec_full _ _ _ [] (top_spec p fs v fuel HU Hf)) as H. rewrite app_nil_r in H.
    unfold TUnmarshal, TMarshal. rewrite H. reflexivity.
  - destruct HU as [Hok [Hwf _]]. apply dval_norm; assumption.
Qed.

Lemma t_marshal_injective : t_marshal_injective_statement.
Proof.
  intros p fs v1 v2 H1 H2 He.
  pose proof (unmarshal_marshal p fs v1 H1) as U1.
  pose proof (unmarshal_marshal p fs v2 H2) as U2.
  assert (Hl : length (enc p (ThStruct fs) v1) = length (enc p (ThStruct fs) v2)).
  { unfold TMarshal in He. rewrite He. reflexivity. }
  rewrite He, Hl in U1. rewrite U1 in U2. injection U2 as Hd.
  destruct H1 as [Hok [Hwf1 _]]. destruct H2 as [_ [Hwf2 _]].
  pose proof (dval_norm _ v1 Hok Hwf1) as N1. pose proof (dval_norm _ v2 Hok Hwf2) as N2.
  rewrite <- N1, <- N2. f_equal. exact Hd.
Qed.
