(* Proofs of the statements of Thrift/SpecD.v, assembled from ProofsD1.v (collections of another item type),
   ProofsD2.v (three-way skipping), ProofsD3.v (three-way decoding of any conformant encoding of a wider pair). *)
From Verif Require Import Base.GoInt Thrift.Model Thrift.Spec Thrift.SpecC Thrift.SpecD.
From Verif Require Thrift.ProofsA.
From Verif Require Import Thrift.ProofsB Thrift.ProofsC Thrift.ProofsD0 Thrift.ProofsD2 Thrift.ProofsD3 Thrift.ProofsD4.
From Verif Require Thrift.ProofsD1 Thrift.ProofsD5.
From Coq Require Import Lia ZifyBool ZifyNat.
Open Scope Z_scope.

(* ---------- section 1 ---------- *)
Lemma t_set_wire_is_list : t_set_wire_is_list_statement. Proof. exact ProofsD1.t_set_wire_is_list. Qed.
Lemma t_mismatch_set_items : t_mismatch_set_items_statement. Proof. exact ProofsD1.t_mismatch_set_items. Qed.
Lemma t_mismatch_set : t_mismatch_set_statement. Proof. exact ProofsD1.t_mismatch_set. Qed.
Lemma t_mismatch_set_empty : t_mismatch_set_empty_statement. Proof. exact ProofsD1.t_mismatch_set_empty. Qed.
Lemma t_mismatch_list_empty : t_mismatch_list_empty_statement. Proof. exact ProofsD1.t_mismatch_list_empty. Qed.
Lemma t_mismatch_map : t_mismatch_map_statement. Proof. exact ProofsD1.t_mismatch_map. Qed.
Lemma t_mismatch_map_empty : t_mismatch_map_empty_statement. Proof. exact ProofsD1.t_mismatch_map_empty. Qed.

(* ---------- sections 2 and 3 ---------- *)
Lemma nilp_of v : v <> TvPtr None -> nilp v = false.
Proof. intros H. destruct v; try reflexivity. destruct o; [reflexivity | congruence]. Qed.

(* the one fact everything follows from *)
Lemma widen_rspec p ch wt wv t v fuel : widens_ok wt wv t v -> v <> TvPtr None ->
  (length (genc ch p wt wv) + tdepth wt <= fuel)%nat ->
  exists r, rspec (dec fuel p t 0 (zero_of t)) (genc ch p wt wv) r /\ tnorm t r = tnorm t v.
Proof.
  intros [Hw [Hokw [Hwfw [Hok Hwf]]]] Hnn Hf. apply mainW_all; try assumption. apply nilp_of. exact Hnn.
Qed.

Lemma t_widen_accept : t_widen_accept_statement.
Proof.
  intros p ch wt wv t v fuel HW Hnn Hf. destruct (widen_rspec p ch wt wv t v fuel HW Hnn Hf) as [r [Hr1 Hr2]].
  exists r. split; [|exact Hr2]. unfold TUnmarshal.
  pose proof (rspec_full _ _ _ [] Hr1) as H. rewrite app_nil_r in H. rewrite H. reflexivity.
Qed.
Lemma t_widen_alt_prefix_eof : t_widen_alt_prefix_eof_statement.
Proof.
  intros p ch wt wv t v k fuel HW Hnn Hk Hf. destruct (widen_rspec p ch wt wv t v fuel HW Hnn Hf) as [r [Hr1 _]].
  unfold TUnmarshal. rewrite (rspec_prefix _ _ _ k Hr1 Hk). reflexivity.
Qed.
Lemma t_widen_alt_trailing : t_widen_alt_trailing_statement.
Proof.
  intros p ch wt wv t v x rest fuel HW Hnn Hf. destruct (widen_rspec p ch wt wv t v fuel HW Hnn Hf) as [r [Hr1 _]].
  unfold TUnmarshal. rewrite (rspec_full _ _ _ (x :: rest) Hr1). reflexivity.
Qed.

Lemma t_widen_prefix_eof : t_widen_prefix_eof_statement.
Proof.
  intros p wt wv t v k fuel HW Hnn Hk Hf. pose proof HW as [_ [Hokw [Hwfw _]]].
  rewrite <- (genc_ch0 p wt wv Hokw Hwfw) in *. apply (t_widen_alt_prefix_eof p ch0 wt wv t v k fuel); assumption.
Qed.
Lemma t_alt_prefix_eof : t_alt_prefix_eof_statement.
Proof.
  intros ch t v k fuel Hok Hwf Hnn Hk Hf.
  apply (t_widen_alt_prefix_eof PCompact ch t v t v k fuel); try assumption.
  split; [apply W_refl | repeat split; assumption].
Qed.
Lemma t_unknown_nested : t_unknown_nested_statement.
Proof.
  intros p wt wv t v fuel HW Hnn Hf. pose proof HW as [_ [Hokw [Hwfw [Hok Hwf]]]].
  destruct (t_widen_accept p ch0 wt wv t v fuel HW Hnn ltac:(rewrite (genc_ch0 p wt wv Hokw Hwfw); lia)) as [r [Hr1 Hr2]].
  rewrite (genc_ch0 p wt wv Hokw Hwfw) in Hr1.
  exists r, (dval t v). split; [exact Hr1|]. split; [|split].
  - unfold TUnmarshal, TMarshal in *.
    pose proof (rspec_full _ _ _ [] (main_all t p v 0 fuel Hok Hwf (nilp_of v Hnn) ltac:(lia))) as H. rewrite app_nil_r in H. rewrite H. reflexivity.
  - rewrite Hr2. symmetry. apply dval_norm; assumption.
  - apply dval_norm; assumption.
Qed.

(* ---------- section 1, continued: a collection field of another item type inside a struct ---------- *)
Lemma t_mismatch_coll_field_skipped : t_mismatch_coll_field_skipped_statement.
Proof.
  intros p fs1 id fl fl' ft ft' fs2 vs1 x vs2 fuel Hok Hoke Hc Hlen Hwf Hom Hf.
  destruct (coll_conflict_rspec p fs1 id fl fl' ft ft' fs2 vs1 x vs2 fuel Hok Hoke Hc Hlen Hwf Hom Hf) as [r [Hr1 Hr2]].
  exists r. split; [|exact Hr2]. unfold TDecode.
  pose proof (rspec_full _ _ _ [] Hr1) as H. rewrite app_nil_r in H. rewrite H. reflexivity.
Qed.
Lemma t_mismatch_coll_field_prefix : t_mismatch_coll_field_prefix_statement.
Proof.
  intros p fs1 id fl fl' ft ft' fs2 vs1 x vs2 k fuel Hok Hoke Hc Hlen Hwf Hom Hk Hf.
  destruct (coll_conflict_rspec p fs1 id fl fl' ft ft' fs2 vs1 x vs2 fuel Hok Hoke Hc Hlen Hwf Hom Hf) as [r [Hr1 _]].
  unfold TDecode. rewrite (rspec_prefix _ _ _ k Hr1 Hk). reflexivity.
Qed.
Lemma t_mismatch_coll_field_strict : t_mismatch_coll_field_strict_statement.
Proof.
  intros p fs1 id fl fl' ft ft' fs2 vs1 x vs2 fuel Hok Hoke Hc Hlen Hwf Hom Hne Hf. unfold TDecode.
  pose proof (coll_conflict_strict p fs1 id fl fl' ft ft' fs2 vs1 x vs2 fuel Hok Hoke Hc Hlen Hwf Hom Hne Hf []) as H.
  rewrite app_nil_r in H. rewrite H. reflexivity.
Qed.

(* ---------- section 4: sizes read from the wire ---------- *)
Lemma t_header_size_nonneg : t_header_size_nonneg_statement. Proof. exact ProofsD5.t_header_size_nonneg. Qed.
Lemma t_negative_header : t_negative_header_statement. Proof. exact ProofsD5.t_negative_header. Qed.
Lemma t_negative_list : t_negative_list_statement. Proof. exact ProofsD5.t_negative_list. Qed.
Lemma t_negative_set : t_negative_set_statement. Proof. exact ProofsD5.t_negative_set. Qed.
Lemma t_negative_map : t_negative_map_statement. Proof. exact ProofsD5.t_negative_map. Qed.
Lemma t_negative_skip_rejected : t_negative_skip_rejected_statement. Proof. exact ProofsD5.t_negative_skip_rejected. Qed.
Lemma t_negative_length : t_negative_length_statement. Proof. exact ProofsD5.t_negative_length. Qed.
Lemma t_compact_huge_list : t_compact_huge_list_statement. Proof. exact ProofsD5.t_compact_huge_list. Qed.
Lemma t_oversized_list : t_oversized_list_statement. Proof. exact ProofsD5.t_oversized_list. Qed.
Lemma t_oversized_set : t_oversized_set_statement. Proof. exact ProofsD5.t_oversized_set. Qed.
Lemma t_oversized_map : t_oversized_map_statement. Proof. exact ProofsD5.t_oversized_map. Qed.
Lemma t_bool_list_true : t_bool_list_true_statement. Proof. exact ProofsD5.t_bool_list_true. Qed.

Lemma t_widen_decode : t_widen_decode_statement.
Proof.
  intros strict p ch wt wv t v fuel [Hw [Hokw [Hwfw [Hok Hwf]]]] Hnn Hf.
  destruct (mainW_all t p ch wt wv v (if strict then f_strict else 0) fuel Hw Hokw Hwfw Hok Hwf (nilp_of v Hnn) Hf) as [r [Hr1 Hr2]].
  unfold TDecode. split.
  - exists r. split; [|exact Hr2]. pose proof (rspec_full _ _ _ [] Hr1) as H. rewrite app_nil_r in H. rewrite H. reflexivity.
  - intros k Hk. rewrite (rspec_prefix _ _ _ k Hr1 Hk). reflexivity.
Qed.
