(* Three-way (prefix-aware) decoding of the general encoding genc (either protocol, any header forms) of a WIDER
   (type, value) pair into a narrower type: generic collection loops and the general struct loop over gen_go with
   abstract bodies and abstract decoded values; then the main theorem by induction on the narrow type. *)
From Verif Require Import Base.GoInt Thrift.Model Thrift.Spec Thrift.SpecC Thrift.SpecD.
From Verif Require Thrift.ProofsA.
From Verif Require Import Thrift.ProofsB Thrift.ProofsC Thrift.ProofsD0 Thrift.ProofsD2.
From Coq Require Import Lia ZifyBool ZifyNat.
Open Scope Z_scope.

Local Ltac dmlia := Z.div_mod_to_equations; lia.

(* ====================================================================== *)
(* ---------- collection loops over abstract element encodings, three-way ---------- *)
Definition elem3 (f : nat) (p : proto) (et : tty) (fl : Z) (wd : bytes * tval) : Prop :=
  (1 <= length (fst wd))%nat /\ rspec (dec f p et fl (zero_of et)) (fst wd) (snd wd).

Lemma lloop3 f p et flags : forall ws, Forall (elem3 f p et (Z.land flags f_strict)) ws ->
  forall K acc j rest, (length (firstn j (concat (map fst ws) ++ rest)) < K)%nat ->
  lloop f p et flags K (len ws) acc (firstn j (concat (map fst ws) ++ rest)) =
    if (j <? length (concat (map fst ws)))%nat then TErr EUnexpectedEOF
    else TOk (TvList true (rev acc ++ map snd ws), firstn (j - length (concat (map fst ws))) rest).
Proof.
  induction ws as [|wd ws' IH]; intros HF K acc j rest HK.
  - rewrite lloop_eq. cbn. rewrite app_nil_r, Nat.sub_0_r. reflexivity.
  - rewrite lloop_eq. replace (len (wd :: ws') <=? 0) with false by (unfold len; cbn [length]; lia).
    destruct K as [|K']; [lia|]. inversion HF as [|? ? [Hl Hd] HF']; subst.
    cbn [map concat] in *. rewrite app_length in *. rewrite <- app_assoc in *.
    rewrite (Hd j), dee_res3.
    destruct (Nat.ltb_spec j (length (fst wd))).
    + replace (j <? _)%nat with true by (symmetry; apply Nat.ltb_lt; lia). reflexivity.
    + cbn [tbind]. replace (len (wd :: ws') - 1) with (len ws') by (unfold len; cbn [length]; lia).
      rewrite IH; [| exact HF' | eapply firstn_len_step; eauto].
      destruct (Nat.ltb_spec (j - length (fst wd)) (length (concat (map fst ws')))).
      * replace (j <? _)%nat with true by (symmetry; apply Nat.ltb_lt; lia). reflexivity.
      * replace (j <? _)%nat with false by (symmetry; apply Nat.ltb_ge; lia).
        cbn [rev map]. rewrite <- app_assoc. cbn [app]. do 3 f_equal. lia.
Qed.

Definition pair3 (f : nat) (p : proto) (kt vt : tty) (fl : Z) (wd : (bytes * tval) * (bytes * tval)) : Prop :=
  elem3 f p kt fl (fst wd) /\ elem3 f p vt fl (snd wd).
Lemma mloop3 f p kt vt flags : forall ws, Forall (pair3 f p kt vt (Z.land flags f_strict)) ws ->
  forall K acc j rest, (forall a kv, In a acc -> In kv (map pval ws) -> tval_eqb (fst a) (fst kv) = false) ->
  pdist (map (fun wd => fst (pval wd)) ws) ->
  (length (firstn j (concat (map pbytes ws) ++ rest)) < K)%nat ->
  mloop f p kt vt flags K (len ws) acc (firstn j (concat (map pbytes ws) ++ rest)) =
    if (j <? length (concat (map pbytes ws)))%nat then TErr EUnexpectedEOF
    else TOk (TvMap true (acc ++ map pval ws), firstn (j - length (concat (map pbytes ws))) rest).
Proof.
  induction ws as [|wd ws' IH]; intros HF K acc j rest Hacc HD HK.
  - rewrite mloop_eq. cbn. rewrite app_nil_r, Nat.sub_0_r. reflexivity.
  - rewrite mloop_eq. replace (len (wd :: ws') <=? 0) with false by (unfold len; cbn [length]; lia).
    destruct K as [|K']; [lia|]. inversion HF as [|? ? [[Hl1 Hd1] [Hl2 Hd2]] HF']; subst.
    cbn [map concat pdist] in *. destruct HD as [HD1 HD2]. change (pbytes wd) with (fst (fst wd) ++ fst (snd wd)) in *.
    rewrite !app_length in *. rewrite <- !app_assoc in *.
    rewrite (Hd1 j), dee_res3.
    destruct (Nat.ltb_spec j (length (fst (fst wd)))).
    + replace (j <? _)%nat with true by (symmetry; apply Nat.ltb_lt; lia). reflexivity.
    + cbn [tbind]. rewrite (Hd2 (j - length (fst (fst wd)))%nat), dee_res3.
      destruct (Nat.ltb_spec (j - length (fst (fst wd))) (length (fst (snd wd)))).
      * replace (j <? _)%nat with true by (symmetry; apply Nat.ltb_lt; lia). reflexivity.
      * cbn [tbind]. replace (len (wd :: ws') - 1) with (len ws') by (unfold len; cbn [length]; lia).
        rewrite map_set_new by (intros a Ha; apply (Hacc a (pval wd)); [exact Ha | left; reflexivity]).
        rewrite IH; [| exact HF' | | exact HD2 | ].
        -- destruct (Nat.ltb_spec (j - length (fst (fst wd)) - length (fst (snd wd))) (length (concat (map pbytes ws')))).
           ++ replace (j <? _)%nat with true by (symmetry; apply Nat.ltb_lt; lia). reflexivity.
           ++ replace (j <? _)%nat with false by (symmetry; apply Nat.ltb_ge; lia).
              rewrite <- app_assoc. cbn [app]. do 3 f_equal. lia.
        -- intros a kv Ha Hkv. apply in_app_or in Ha. destruct Ha as [Ha|[Ha|[]]].
           ++ apply Hacc; [exact Ha | right; exact Hkv].
           ++ subst a. cbn [fst]. apply HD1.
              apply in_map_iff in Hkv. destruct Hkv as [w [<- Hw]]. apply (in_map (fun wd => fst (pval wd)) _ _ Hw).
        -- revert HK. rewrite !firstn_length, !app_length. lia.
Qed.

(* ====================================================================== *)
(* ---------- the general struct loop, three-way, abstract decoded values ---------- *)
Inductive ekind : Type := KKnown (i : nat) (r : tval) | KUnknown.
Definition gek : Type := (gentry * ekind)%type.

Definition gek_ok (f : nat) (p : proto) (fs : list tfield) (flags : Z) (ek : gek) : Prop :=
  1 <= fld_id (g_fd (fst ek)) < 2 ^ 15 /\
  match snd ek with
  | KKnown i r =>
      exists fd, nth_error fs i = Some fd /\ fld_id fd = fld_id (g_fd (fst ek)) /\
        (fskip (g_fd (fst ek)) (g_x (fst ek)) = false ->
         type_of (fld_ty fd) = type_of (fld_ty (g_fd (fst ek))) /\
         if coalesce p (type_of (fld_ty (g_fd (fst ek)))) then r = wrap_ptrs (fld_ty fd) (TvBool (deref_bool (g_x (fst ek))))
         else rspec (fdec f p fd (Z.lor (Z.land flags f_strict) (fld_flags fd)) (zero_of (fld_ty fd))) (g_body (fst ek)) r)
  | KUnknown =>
      ~ In (fld_id (g_fd (fst ek))) (map fld_id fs) /\
      (fskip (g_fd (fst ek)) (g_x (fst ek)) = false -> coalesce p (type_of (fld_ty (g_fd (fst ek)))) = false ->
       sk3 (skip f p (type_of (fld_ty (g_fd (fst ek))))) (g_body (fst ek)))
  end.

Fixpoint apply_ek (l : list gek) (cur : list tval) : list tval :=
  match l with
  | [] => cur
  | ek :: r =>
      if fskip (g_fd (fst ek)) (g_x (fst ek)) then apply_ek r cur else
      match snd ek with KKnown i v => apply_ek r (set_nth cur i v) | KUnknown => apply_ek r cur end
  end.
Fixpoint seen_ek (fs : list tfield) (l : list gek) (seen : list Z) : list Z :=
  match l with
  | [] => seen
  | ek :: r =>
      if fskip (g_fd (fst ek)) (g_x (fst ek)) then seen_ek fs r seen else
      match snd ek with
      | KKnown _ _ => seen_ek fs r ((fld_id (g_fd (fst ek)) - s_minID fs) :: seen)
      | KUnknown => seen_ek fs r seen
      end
  end.
Definition zero_above (fs : list tfield) (last : Z) (cur : list tval) : Prop :=
  forall i fd, nth_error fs i = Some fd -> last < fld_id fd -> nth i cur (zero_of (fld_ty fd)) = zero_of (fld_ty fd).

Lemma nth_set_nth_other (l : list tval) : forall i i' v d, i' <> i -> nth i' (set_nth l i v) d = nth i' l d.
Proof.
  induction l as [|a r IH]; intros [|i] [|i'] v d H; try reflexivity; try lia.
  cbn [set_nth nth]. apply IH. lia.
Qed.

Lemma sl_tail (X : nat -> tres (tval * bytes)) nf j c G : 0 <= nf -> (1 <= c)%nat -> (c <= j)%nat ->
  (if (j - c <? G)%nat then TErr (if (nf + 1 =? 0) && (j - c =? 0)%nat then EEOF else EUnexpectedEOF) else X (j - c - G)%nat) =
  (if (j <? c + G)%nat then TErr (if (nf =? 0) && (j =? 0)%nat then EEOF else EUnexpectedEOF) else X (j - (c + G))%nat).
Proof.
  intros Hnf Hc Hj. destruct (Nat.ltb_spec (j - c) G).
  - replace (j <? c + G)%nat with true by (symmetry; apply Nat.ltb_lt; lia).
    replace (nf + 1 =? 0) with false by lia. replace (j =? 0)%nat with false by (symmetry; apply Nat.eqb_neq; lia).
    rewrite andb_false_r. reflexivity.
  - replace (j <? c + G)%nat with false by (symmetry; apply Nat.ltb_ge; lia).
    replace (j - c - G)%nat with (j - (c + G))%nat by lia. reflexivity.
Qed.

Lemma sloop_gen5 f p fs flags :
  NoDup (map fld_id fs) -> (forall y, In y (map fld_id fs) -> 1 <= y) ->
  forall l last K nf seen cur j rest,
  (forall ek, In ek l -> gek_ok f p fs flags ek) ->
  asc last (map eid (map fst l)) -> 0 <= last -> 0 <= nf ->
  zero_above fs last cur ->
  (length (gen_go p (map fst l) last) <= K)%nat ->
  sloop f p fs flags K (firstn j (gen_go p (map fst l) last ++ rest)) last nf cur seen =
    if (j <? length (gen_go p (map fst l) last))%nat then TErr (if (nf =? 0) && (j =? 0)%nat then EEOF else EUnexpectedEOF)
    else if smissing fs (seen_ek fs l seen) then TErr EMissing
    else TOk (TvStruct (apply_ek l cur), firstn (j - length (gen_go p (map fst l) last)) rest).
Proof.
  intros Hnd Hids.
  induction l as [|[e k] l' IHl]; intros last K nf seen cur j rest Hent Hasc Hlast Hnf Hz HK.
  - cbn [map gen_go seen_ek apply_ek] in *. pose proof (stop_length p) as Hsl. destruct K as [|K']; [lia|].
    rewrite sloop_S, (r_field_stop_spec p j rest).
    destruct (Nat.ltb_spec j (length (w_field p 0 c_STOP))).
    + rewrite res3_lt by lia. apply sloop_err_hdr. exact Hnf.
    + rewrite res3_ge by lia. cbv iota beta. change (0 =? c_STOP) with true. cbv iota. reflexivity.
  - pose proof (Hent (e, k) (or_introl eq_refl)) as [Hid Hk]. cbn [fst snd] in Hid, Hk.
    assert (Hent' : forall ek, In ek l' -> gek_ok f p fs flags ek) by (intros ek Hek; apply Hent; right; exact Hek).
    cbn [map fst asc] in Hasc. destruct Hasc as [Hlt Hasc]. change (eid e) with (fld_id (g_fd e)) in *.
    cbn [map fst gen_go seen_ek apply_ek snd] in *.
    destruct (fskip (g_fd e) (g_x e)) eqn:Es.
    + apply IHl; try assumption. eapply asc_weaken; [|exact Hasc]. lia.
    + cbv zeta in *.
      set (id := fld_id (g_fd e)) in *.
      set (ty := type_of (fld_ty (g_fd e))) in *.
      set (wty := if coalesce p ty && deref_bool (g_x e) then c_TRUE else ty) in *.
      set (B := if coalesce p ty then [] else g_body e) in *.
      set (G := gen_go p (map fst l') id) in *.
      assert (Hty : 2 <= ty <= 12) by apply type_of_range.
      assert (Hwty : 1 <= wty <= 12) by (unfold wty, c_TRUE; destruct (coalesce p ty && deref_bool (g_x e)); lia).
      destruct (ghdr_rspec p (g_long e) last id wty ltac:(lia) ltac:(lia) Hwty) as [rid [isd [Hh Hrid]]].
      pose proof (ghdr_len p (g_long e) last id wty) as Hhl.
      set (H := ghdr p (g_long e) last id wty) in *.
      rewrite !app_length in HK |- *. destruct K as [|K']; [lia|].
      rewrite sloop_S. rewrite <- !app_assoc. rewrite (Hh j _).
      destruct (Nat.ltb_spec j (length H)) as [Hj|Hj].
      { rewrite res3_lt by lia. replace (j <? _)%nat with true by (symmetry; apply Nat.ltb_lt; lia).
        apply sloop_err_hdr. exact Hnf. }
      rewrite res3_ge by lia.
      cbv iota beta. replace (wty =? c_STOP) with false by (unfold c_STOP; lia).
      cbv zeta. rewrite Hrid.
      assert (HzN : forall v i0, (forall fd0, nth_error fs i0 = Some fd0 -> fld_id fd0 = id) -> zero_above fs id (set_nth cur i0 v)).
      { intros v i0 Hi0 i' fd' Hi' Hlt'. rewrite nth_set_nth_other.
        - apply Hz; [exact Hi' | lia].
        - intros ->. specialize (Hi0 fd' Hi'). lia. }
      assert (HzU : zero_above fs id cur) by (intros i' fd' Hi' Hlt'; apply Hz; [exact Hi' | lia]).
      replace (length H + (length B + length G))%nat with ((length H + length B) + length G)%nat by lia.
      destruct k as [i r|].
      * (* a field of the target *)
        destruct Hk as [fd [Hi1 [Heq Hw]]]. destruct (Hw eq_refl) as [Hteq Hbody]. clear Hw.
        fold id in Heq. fold ty in Hteq, Hbody.
        pose proof (NoDup_uniq fs i fd Hnd Hi1) as Hu.
        assert (Hin : In id (map fld_id fs)) by (rewrite <- Heq; apply in_map; eapply nth_error_In; eauto).
        pose proof (slot_bounds fs id Hids Hin) as Hsb.
        replace ((id - s_minID fs <? 0) || (id - s_minID fs >=? s_maxID fs - s_minID fs + 1)) with false by lia.
        assert (Hlk : lookup_go id fs 0 = Some (i, fd)) by (rewrite <- Heq; apply (lookup_go_found fs O i fd Hi1 Hu)).
        rewrite Hlk. cbv iota beta.
        replace (_ / 64 >=? _ / 64 + 1) with false by (symmetry; rewrite Z.geb_leb; apply Z.leb_gt; dmlia).
        rewrite Hteq.
        assert (Hold : nth i cur (zero_of (fld_ty fd)) = zero_of (fld_ty fd)) by (apply Hz; [exact Hi1 | lia]).
        assert (HzI : forall v, zero_above fs id (set_nth cur i v)).
        { intros v. apply HzN. intros fd0 Hfd0. rewrite Hi1 in Hfd0. inversion Hfd0; subst fd0. exact Heq. }
        unfold wty, B in *. clear wty B. destruct (coalesce p ty) eqn:Ec.
        -- destruct p; [discriminate Ec|]. cbn [coalesce] in Ec. assert (Ety : ty = c_BOOL) by lia.
           cbn [andb is_compact app length] in *. rewrite Ety in *.
           replace (negb ((if deref_bool (g_x e) then c_TRUE else c_BOOL) =? c_BOOL) && negb (((if deref_bool (g_x e) then c_TRUE else c_BOOL) =? c_TRUE) && (c_BOOL =? c_BOOL))) with false by (destruct (deref_bool (g_x e)); reflexivity).
           replace (((if deref_bool (g_x e) then c_TRUE else c_BOOL) =? c_TRUE) || ((if deref_bool (g_x e) then c_TRUE else c_BOOL) =? c_BOOL)) with true by (destruct (deref_bool (g_x e)); reflexivity).
           replace ((if deref_bool (g_x e) then c_TRUE else c_BOOL) =? c_TRUE) with (deref_bool (g_x e)) by (destruct (deref_bool (g_x e)); reflexivity).
           rewrite <- Hbody.
           rewrite (IHl id K' (nf + 1) _ _ (j - length H)%nat rest Hent' Hasc ltac:(lia) ltac:(lia) (HzI r) ltac:(fold G; lia)).
           fold G. rewrite Nat.add_0_r.
           apply (sl_tail (fun n => if smissing fs (seen_ek fs l' ((id - s_minID fs) :: seen)) then TErr EMissing
                                    else TOk (TvStruct (apply_ek l' (set_nth cur i r)), firstn n rest))); lia.
        -- cbn [andb] in *. rewrite Z.eqb_refl. cbn [negb andb].
           replace (is_compact p && ((ty =? c_TRUE) || (ty =? c_BOOL))) with false.
           2:{ destruct p; [reflexivity|]. cbn [coalesce] in Ec. rewrite Ec. replace (ty =? c_TRUE) with false by (unfold c_TRUE; lia). reflexivity. }
           rewrite Hold. rewrite (Hbody (j - length H)%nat _), dee_res3.
           destruct (Nat.ltb_spec (j - length H) (length (g_body e))).
           ++ replace (j <? _)%nat with true by (symmetry; apply Nat.ltb_lt; lia). cbn [tbind].
              replace (j =? 0)%nat with false by (symmetry; apply Nat.eqb_neq; lia). rewrite andb_false_r. reflexivity.
           ++ cbn [tbind].
              rewrite (IHl id K' (nf + 1) _ _ (j - length H - length (g_body e))%nat rest Hent' Hasc ltac:(lia) ltac:(lia) (HzI r) ltac:(fold G; lia)).
              fold G. replace (j - length H - length (g_body e))%nat with (j - (length H + length (g_body e)))%nat by lia.
              apply (sl_tail (fun n => if smissing fs (seen_ek fs l' ((id - s_minID fs) :: seen)) then TErr EMissing
                                       else TOk (TvStruct (apply_ek l' (set_nth cur i r)), firstn n rest))); lia.
      * (* a field the target does not declare *)
        destruct Hk as [Hnin Hsk]. fold id in Hnin. fold ty in Hsk.
        replace (if (id - s_minID fs <? 0) || (id - s_minID fs >=? s_maxID fs - s_minID fs + 1)
                 then None else lookup_go id fs 0) with (@None (nat * tfield)).
        2:{ destruct (_ || _); [reflexivity|]. symmetry. apply lookup_go_none. exact Hnin. }
        unfold wty, B in *. clear wty B. destruct (coalesce p ty) eqn:Ec.
        -- destruct p; [discriminate Ec|]. cbn [coalesce] in Ec. assert (Ety : ty = c_BOOL) by lia.
           cbn [andb is_compact app length] in *. rewrite Ety in *.
           replace ((((if deref_bool (g_x e) then c_TRUE else c_BOOL) =? c_TRUE) || ((if deref_bool (g_x e) then c_TRUE else c_BOOL) =? c_BOOL)) && true) with true by (destruct (deref_bool (g_x e)); reflexivity).
           cbn [dont_expect_eof tbind].
           rewrite (IHl id K' (nf + 1) _ _ (j - length H)%nat rest Hent' Hasc ltac:(lia) ltac:(lia) HzU ltac:(fold G; lia)).
           fold G. rewrite Nat.add_0_r.
           apply (sl_tail (fun n => if smissing fs (seen_ek fs l' seen) then TErr EMissing
                                    else TOk (TvStruct (apply_ek l' cur), firstn n rest))); lia.
        -- cbn [andb] in *.
           replace (((ty =? c_TRUE) || (ty =? c_BOOL)) && is_compact p) with false.
           2:{ destruct p; [rewrite andb_false_r; reflexivity|]. cbn [coalesce] in Ec. rewrite Ec. replace (ty =? c_TRUE) with false by (unfold c_TRUE; lia). reflexivity. }
           rewrite (Hsk eq_refl eq_refl (j - length H)%nat _).
           destruct (Nat.ltb_spec (j - length H) (length (g_body e))).
           ++ replace (j <? _)%nat with true by (symmetry; apply Nat.ltb_lt; lia). rewrite dee_eofc. cbn [tbind].
              replace (j =? 0)%nat with false by (symmetry; apply Nat.eqb_neq; lia). rewrite andb_false_r. reflexivity.
           ++ cbn [dont_expect_eof tbind].
              rewrite (IHl id K' (nf + 1) _ _ (j - length H - length (g_body e))%nat rest Hent' Hasc ltac:(lia) ltac:(lia) HzU ltac:(fold G; lia)).
              fold G. replace (j - length H - length (g_body e))%nat with (j - (length H + length (g_body e)))%nat by lia.
              apply (sl_tail (fun n => if smissing fs (seen_ek fs l' seen) then TErr EMissing
                                       else TOk (TvStruct (apply_ek l' cur), firstn n rest))); lia.
Qed.

(* ====================================================================== *)
(* ---------- what the struct loop leaves in the slots ---------- *)
Definition written (ek : gek) : bool := negb (fskip (g_fd (fst ek)) (g_x (fst ek))).
Definition touches (i : nat) (ek : gek) : Prop := written ek = true /\ exists r, snd ek = KKnown i r.

Lemma set_nth_length (l : list tval) : forall i v, length (set_nth l i v) = length l.
Proof. induction l as [|a r IH]; intros [|i] v; cbn [set_nth length]; try reflexivity. rewrite IH. reflexivity. Qed.
Lemma nth_error_set_nth_same (l : list tval) : forall i v, (i < length l)%nat -> nth_error (set_nth l i v) i = Some v.
Proof. induction l as [|a r IH]; intros [|i] v H; cbn [length] in H; try lia; cbn [set_nth nth_error]; [reflexivity|]. apply IH. lia. Qed.
Lemma nth_error_set_nth_other (l : list tval) : forall i i' v, i' <> i -> nth_error (set_nth l i v) i' = nth_error l i'.
Proof.
  induction l as [|a r IH]; intros [|i] [|i'] v H; try reflexivity; try lia.
  cbn [set_nth nth_error]. apply IH. lia.
Qed.
Lemma apply_ek_length l : forall cur, length (apply_ek l cur) = length cur.
Proof.
  induction l as [|[e k] r IH]; intros cur; cbn [apply_ek fst snd]; [reflexivity|].
  destruct (fskip _ _); [apply IH|]. destruct k; rewrite IH; [apply set_nth_length | reflexivity].
Qed.
Lemma apply_ek_untouched i l : forall cur, (forall ek, In ek l -> ~ touches i ek) -> nth_error (apply_ek l cur) i = nth_error cur i.
Proof.
  induction l as [|[e k] r IH]; intros cur H; cbn [apply_ek fst snd]; [reflexivity|].
  assert (Hr : forall ek, In ek r -> ~ touches i ek) by (intros ek Hek; apply H; right; exact Hek).
  destruct (fskip (g_fd e) (g_x e)) eqn:Es; [apply IH; exact Hr|]. destruct k as [i0 v|]; [|apply IH; exact Hr].
  rewrite IH by exact Hr. apply nth_error_set_nth_other. intros ->.
  apply (H (e, KKnown i0 v) (or_introl eq_refl)). split; [unfold written; cbn [fst]; rewrite Es; reflexivity | eexists; reflexivity].
Qed.
Lemma apply_ek_touched i l1 e v l2 cur : fskip (g_fd e) (g_x e) = false -> (i < length cur)%nat ->
  (forall ek, In ek l1 -> ~ touches i ek) -> (forall ek, In ek l2 -> ~ touches i ek) ->
  nth_error (apply_ek (l1 ++ (e, KKnown i v) :: l2) cur) i = Some v.
Proof.
  intros Es Hi H1 H2. revert cur Hi. induction l1 as [|[e1 k1] r IH]; intros cur Hi.
  - cbn [app apply_ek fst snd]. rewrite Es. rewrite apply_ek_untouched by exact H2. apply nth_error_set_nth_same. exact Hi.
  - cbn [app apply_ek fst snd].
    assert (Hr : forall ek, In ek r -> ~ touches i ek) by (intros ek Hek; apply H1; right; exact Hek).
    destruct (fskip (g_fd e1) (g_x e1)); [apply IH; assumption|]. destruct k1; apply IH; try assumption.
    rewrite set_nth_length. exact Hi.
Qed.
Lemma seen_ek_mono fs l : forall seen s, In s seen -> In s (seen_ek fs l seen).
Proof.
  induction l as [|[e k] r IH]; intros seen s Hs; cbn [seen_ek fst snd]; [exact Hs|].
  destruct (fskip _ _); [apply IH; exact Hs|]. destruct k; apply IH; [right|]; exact Hs.
Qed.
Lemma seen_ek_in fs l : forall seen e i v, In (e, KKnown i v) l -> fskip (g_fd e) (g_x e) = false ->
  In (fld_id (g_fd e) - s_minID fs) (seen_ek fs l seen).
Proof.
  induction l as [|[e0 k0] r IH]; intros seen e i v [] Hs; cbn [seen_ek fst snd].
  - inversion H; subst. rewrite Hs. apply seen_ek_mono. left. reflexivity.
  - destruct (fskip (g_fd e0) (g_x e0)); [eapply IH; eauto|]. destruct k0; eapply IH; eauto.
Qed.

Lemma tnorm_fields_ext fs : forall a b, length a = length fs -> length b = length fs ->
  (forall i fd x y, nth_error fs i = Some fd -> nth_error a i = Some x -> nth_error b i = Some y -> tnorm (fld_ty fd) x = tnorm (fld_ty fd) y) ->
  tnorm_fields fs a = tnorm_fields fs b.
Proof.
  induction fs as [|[id fl ft] fr IH]; intros [|x a] [|y b] Ha Hb H; try discriminate; [reflexivity|].
  cbn [tnorm_fields]. f_equal.
  - apply (H O (TField id fl ft) x y); reflexivity.
  - apply IH; [cbn in Ha; lia | cbn in Hb; lia|]. intros i fd x0 y0 H1 H2 H3. apply (H (S i) fd x0 y0); assumption.
Qed.
Lemma zero_fields_nth fs : forall i fd, nth_error fs i = Some fd -> nth_error (zero_fields fs) i = Some (zero_of (fld_ty fd)).
Proof.
  induction fs as [|[id fl ft] fr IH]; intros [|i] fd H; try discriminate.
  - cbn in H. inversion H; subst. reflexivity.
  - cbn in H. cbn [zero_fields nth_error]. apply IH. exact H.
Qed.
Lemma zero_fields_length fs : length (zero_fields fs) = length fs.
Proof. induction fs as [|[id fl ft] fr IH]; cbn [zero_fields length]; congruence. Qed.
Lemma zero_above_zero fs last : zero_above fs last (zero_fields fs).
Proof. intros i fd Hi _. apply nth_error_nth. apply zero_fields_nth. exact Hi. Qed.

(* choosing a kind for every entry *)
Lemma choose_kinds (Q : gentry -> ekind -> Prop) : forall L, (forall e, In e L -> exists k, Q e k) ->
  exists l : list gek, map fst l = L /\ forall ek, In ek l -> Q (fst ek) (snd ek).
Proof.
  induction L as [|e r IH]; intros H.
  - exists []. split; [reflexivity | intros ek []].
  - destruct (H e (or_introl eq_refl)) as [k Hk]. destruct (IH (fun e' He' => H e' (or_intror He'))) as [l [Hl1 Hl2]].
    exists ((e, k) :: l). split; [cbn [map fst]; rewrite Hl1; reflexivity|].
    intros ek [<-|Hek]; [exact Hk | apply Hl2; exact Hek].
Qed.

(* ====================================================================== *)
(* ---------- facts about widens ---------- *)
Lemma widens_type_of : forall t wt wv v, widens wt wv t v -> type_of wt = type_of t.
Proof.
  induction t; intros wt wv v H; inversion H; subst; try reflexivity.
  cbn [type_of]. eapply IHt; eauto.
Qed.
Lemma widens_nilp wt wv t v : widens wt wv t v -> nilp wv = nilp v.
Proof. intros H. inversion H; subst; reflexivity. Qed.

Lemma Forall2_combine4 {A B C D} (R : A * B -> C * D -> Prop) : forall (wfs : list A) (wvs : list B) (fs : list C) (vs : list D),
  length wvs = length wfs -> length vs = length fs -> Forall2 R (combine wfs wvs) (combine fs vs) ->
  length wfs = length fs /\
  forall i a b c d, nth_error wfs i = Some a -> nth_error wvs i = Some b -> nth_error fs i = Some c -> nth_error vs i = Some d -> R (a, b) (c, d).
Proof.
  induction wfs as [|a0 wfs IH]; intros [|b0 wvs] [|c0 fs] [|d0 vs] H1 H2 HF; try discriminate; cbn [combine] in HF; try (inversion HF; fail).
  - split; [reflexivity|]. intros [|i]; discriminate.
  - inversion HF as [|? ? ? ? HR HF']; subst. destruct (IH wvs fs vs ltac:(cbn in H1; lia) ltac:(cbn in H2; lia) HF') as [Hl Hn].
    split; [cbn [length]; lia|]. intros [|i] a b c d Ha Hb Hc Hd; cbn [nth_error] in *.
    + inversion Ha; inversion Hb; inversion Hc; inversion Hd; subst. exact HR.
    + eapply Hn; eauto.
Qed.
Lemma Forall2_refl_combine {A B} (R : A * B -> A * B -> Prop) : (forall x, R x x) -> forall l, Forall2 R l l.
Proof. intros H. induction l; constructor; auto. Qed.

(* the shapes *)
Lemma widens_ptr_inv wt wv t x : widens wt wv (ThPtr t) (TvPtr (Some x)) ->
  exists wt' wx, wt = ThPtr wt' /\ wv = TvPtr (Some wx) /\ widens wt' wx t x.
Proof. intros H. inversion H; subst; [exists t, x | exists wt0, wv0]; repeat split; try assumption. apply W_refl. Qed.
Lemma widens_list_inv wt wv et nn es : widens wt wv (ThList et) (TvList nn es) ->
  exists wet wes, wt = ThList wet /\ wv = TvList nn wes /\ type_of wet = type_of et /\ Forall2 (fun wx x => widens wet wx et x) wes es.
Proof.
  intros H. inversion H; subst.
  - exists et, es. repeat split. clear H. induction es; constructor; [apply W_refl | assumption].
  - exists wt0, wes. repeat split; assumption.
Qed.
Lemma widens_map_inv wt wv kt vt nn es : widens wt wv (ThMap kt vt) (TvMap nn es) ->
  exists wvt wes, wt = ThMap kt wvt /\ wv = TvMap nn wes /\
    Forall2 (fun wkx kx => fst wkx = fst kx /\ widens wvt (snd wkx) vt (snd kx)) wes es.
Proof.
  intros H. inversion H; subst.
  - exists vt, es. repeat split. clear H. induction es; constructor; [split; [reflexivity | apply W_refl] | assumption].
  - exists wvt, wes. repeat split; assumption.
Qed.
Lemma widens_struct_inv wt wv fs vs : length vs = length fs -> widens wt wv (ThStruct fs) (TvStruct vs) ->
  exists wfs wvs gs ws, wt = ThStruct (wfs ++ gs) /\ wv = TvStruct (wvs ++ ws) /\ length wvs = length wfs /\
    Forall2 (fun wfx fx => fld_id (fst wfx) = fld_id (fst fx) /\ fld_flags (fst wfx) = fld_flags (fst fx) /\
                           widens (fld_ty (fst wfx)) (snd wfx) (fld_ty (fst fx)) (snd fx))
            (combine wfs wvs) (combine fs vs).
Proof.
  intros Hl H. inversion H; subst.
  - exists fs, vs, [], []. rewrite !app_nil_r. repeat split; try assumption.
    apply Forall2_refl_combine. intros x. repeat split. apply W_refl.
  - exists wfs, wvs, gs, ws. repeat split; assumption.
Qed.

(* a wide value that is zero has a zero narrow value *)
Lemma zero_narrow : forall t wt wv v, widens wt wv t v -> tval_wf t v = true -> is_zero_t wt wv = true -> is_zero_t t v = true.
Proof.
  apply (tty_ind' (fun t => forall wt wv v, widens wt wv t v -> tval_wf t v = true -> is_zero_t wt wv = true -> is_zero_t t v = true)).
  1-8: intros wt wv v H Hwf Hz; inversion H; subst; exact Hz.
  - intros et _ wt wv v H Hwf Hz. inversion H; subst; exact Hz.
  - intros kt _ wt wv v H Hwf Hz. inversion H; subst; exact Hz.
  - intros kt vt _ _ wt wv v H Hwf Hz. inversion H; subst; exact Hz.
  - intros fs HP wt wv v H Hwf Hz. destruct v; try discriminate Hwf.
    assert (Hlen : length vs = length fs).
    { rewrite wf_struct_eq in Hwf. clear - Hwf. revert vs Hwf. induction fs as [|[id fl ft] fr IH]; intros [|x vr] H; try discriminate H; [reflexivity|].
      cbn [wf_fields] in H. apply andb_true_iff in H. destruct H as [_ H]. cbn [length]. rewrite (IH vr H). reflexivity. }
    destruct (widens_struct_inv _ _ _ _ Hlen H) as [wfs [wvs [gs [ws [-> [-> [Hlw HF]]]]]]].
    rewrite is_zero_struct_eq in *. rewrite wf_struct_eq in Hwf. clear H.
    revert wvs vs fs HP Hlen Hlw HF Hz Hwf. induction wfs as [|[wid wfl wft] wfr IH]; intros [|wx wvr] vs fs HP Hlen Hlw HF Hz Hwf; try discriminate Hlw.
    + cbn [combine] in HF. destruct fs as [|fd fr]; [destruct vs; [reflexivity | discriminate Hlen]|].
      destruct vs as [|x vr]; [discriminate Hlen|]. cbn [combine] in HF. inversion HF.
    + destruct fs as [|[id fl ft] fr]; [destruct vs; [reflexivity | discriminate Hlen]|].
      destruct vs as [|x vr]; [discriminate Hlen|]. cbn [combine app] in HF, Hz. inversion HF as [|? ? ? ? [_ [_ Hw]] HF']; subst.
      cbn [fst snd fld_ty] in Hw. cbn [is_zero_fields] in Hz |- *. cbn [wf_fields] in Hwf.
      apply andb_true_iff in Hz. destruct Hz as [Hz1 Hz2]. apply andb_true_iff in Hwf. destruct Hwf as [Hwf1 Hwf2].
      apply andb_true_iff in Hwf1. destruct Hwf1 as [Hwf1 _].
      inversion HP as [|? ? HP1 HP2]; subst. cbn [fld_ty] in HP1.
      rewrite (HP1 _ _ _ Hw Hwf1 Hz1). cbn [andb].
      apply (IH wvr vr fr HP2); try assumption; cbn [length] in *; lia.
  - intros t _ wt wv v H Hwf Hz. inversion H; subst; [exact Hz|]. cbn in Hz. discriminate Hz.
Qed.

(* bool-typed fields are widened by reflexivity only *)
Lemma widens_bool t wt wv v : ty_ok t = true -> type_of t = c_BOOL -> widens wt wv t v -> wt = t /\ wv = v.
Proof.
  intros Hok Hty H. destruct t; try discriminate Hty.
  - inversion H; subst. split; reflexivity.
  - cbn [ty_ok] in Hok. apply andb_true_iff in Hok. destruct Hok as [_ Hnp]. cbn [type_of] in Hty.
    destruct t; try discriminate Hty; try discriminate Hnp.
    inversion H; subst; [split; reflexivity|].
    match goal with Hi : widens _ _ ThBool _ |- _ => inversion Hi; subst end. split; reflexivity.
Qed.

(* ====================================================================== *)
(* ---------- the main theorem ---------- *)
Definition mainW (t : tty) : Prop := forall p ch wt wv v flags fuel,
  widens wt wv t v -> ty_ok wt = true -> tval_wf wt wv = true -> ty_ok t = true -> tval_wf t v = true -> nilp v = false ->
  (length (genc ch p wt wv) + tdepth wt <= fuel)%nat ->
  exists r, rspec (dec fuel p t flags (zero_of t)) (genc ch p wt wv) r /\ tnorm t r = tnorm t v.

Lemma genc_scalarW ch p t v : ty_ok t = true -> tval_wf t v = true ->
  (forall ch v, spec_enc_alt ch t v = spec_enc pkg_dev PCompact t v) -> genc ch p t v = enc p t v.
Proof. intros Hok Hwf H. destruct p; [reflexivity|]. unfold genc. apply alt_scalar_eq; assumption. Qed.
Lemma mainW_scalar t : (forall wt wv v, widens wt wv t v -> wt = t /\ wv = v) ->
  (forall ch v, spec_enc_alt ch t v = spec_enc pkg_dev PCompact t v) -> mainW t.
Proof.
  intros Hinv Hs p ch wt wv v flags fuel Hw Hokw Hwfw Hok Hwf Hn Hf.
  destruct (Hinv _ _ _ Hw) as [-> ->]. rewrite (genc_scalarW ch p t v Hok Hwf Hs) in *.
  exists (dval t v). split; [apply main_all; assumption | apply dval_norm; assumption].
Qed.

(* sets: scalar items *)
Lemma genc_elems_key ch p kt : is_key_ty kt = true -> forall ks i, Forall (fun x => tval_wf kt x = true) ks ->
  genc_elems ch p kt i ks = enc_elems p kt ks.
Proof.
  intros Hk. induction ks as [|x r IH]; intros i HF; [reflexivity|]. inversion HF; subst.
  rewrite genc_elems_cons, enc_elems_cons, IH by assumption. rewrite genc_key by assumption. reflexivity.
Qed.
Lemma mainW_set kt : mainW (ThSet kt).
Proof.
  intros p ch wt wv v flags fuel Hw Hokw Hwfw Hok Hwf Hn Hf.
  inversion Hw; subst. clear Hw Hokw Hwfw. destruct v; try discriminate Hwf.
  exists (dval (ThSet kt) (TvSet nonnil ks)). split; [|apply dval_norm; assumption].
  destruct fuel; [cbn [tdepth] in Hf; lia|]. cbn [ty_ok] in Hok. apply wf_set_inv in Hwf. destruct Hwf as [Hlen HD].
  destruct (sdist_split kt ks HD) as [HW HP].
  rewrite genc_set_eq in *. rewrite (genc_elems_key ch p kt Hok ks O HW) in *.
  intros j rest. rewrite dec_set_eq. rewrite <- app_assoc. cbn [dval].
  pose proof (type_of_range kt) as Hty. unfold tlim in Hlen.
  rewrite (gl_hdr_rspec ch p (type_of kt) (len ks) ltac:(unfold len in *; lia) ltac:(lia) j), tbind_res3.
  rewrite app_length in *. pose proof (gl_hdr_len ch p (type_of kt) (len ks)) as Hh.
  destruct (Nat.ltb_spec j (length (gl_hdr ch p (type_of kt) (len ks)))); [rewrite res3_lt by lia; reflexivity|].
  cbv zeta. replace (type_of kt =? c_TRUE) with false by (unfold c_TRUE; lia).
  rewrite Z.eqb_refl. cbn [negb]. replace (len ks <? 0) with false by (unfold len; lia).
  destruct (len ks =? 0) eqn:E0.
  - destruct ks; [|unfold len in E0; cbn [length] in E0; lia]. cbn [enc_elems app length].
    rewrite res3_ge by lia. do 3 f_equal. lia.
  - cbn [tdepth] in Hf.
    rewrite (stloop_spec fuel p kt flags (main_all kt) Hok ks HD ltac:(lia)); [ | intros a y [] | lia]. cbn [app].
    destruct (Nat.ltb_spec (j - length (gl_hdr ch p (type_of kt) (len ks))) (length (enc_elems p kt ks))).
    + rewrite res3_lt by lia. rewrite eofc_pos by lia. reflexivity.
    + rewrite res3_ge by lia. do 3 f_equal. lia.
Qed.

(* pointers *)
Lemma mainW_ptr t : mainW t -> mainW (ThPtr t).
Proof.
  intros IH p ch wt wv v flags fuel Hw Hokw Hwfw Hok Hwf Hn Hf.
  destruct v; try discriminate Hwf. destruct o as [x|]; [|discriminate Hn].
  destruct (widens_ptr_inv _ _ _ _ Hw) as [wt' [wx [-> [-> Hw']]]].
  cbn [ty_ok] in Hok, Hokw. apply andb_true_iff in Hok. destruct Hok as [Hok1 Hok2]. apply andb_true_iff in Hokw. destruct Hokw as [Hokw1 Hokw2].
  destruct fuel; [cbn [tdepth] in Hf; lia|]. cbn [tval_wf] in Hwf, Hwfw. rewrite genc_ptr_eq in *. cbn [tdepth] in Hf.
  destruct (IH p ch wt' wx x flags fuel Hw' Hokw1 Hwfw Hok1 Hwf (wf_not_ptr _ _ Hwf Hok2) ltac:(lia)) as [r [Hr1 Hr2]].
  exists (TvPtr (Some r)). split.
  - intros j rest. rewrite dec_ptr_eq. cbn [zero_of]. rewrite (Hr1 j rest), tbind_res3. unfold res3. destruct (j <? _)%nat; reflexivity.
  - cbn [tnorm]. rewrite Hr2. reflexivity.
Qed.

(* lists *)
Lemma list_ws f p ch fl wet et : mainW et -> ty_ok wet = true -> ty_ok et = true ->
  forall wes es, Forall2 (fun wx x => widens wet wx et x) wes es -> forall i,
  Forall (fun x => tval_wf wet x = true /\ nilp x = false) wes -> Forall (fun x => tval_wf et x = true /\ nilp x = false) es ->
  (length (genc_elems ch p wet i wes) + tdepth wet <= f)%nat ->
  exists ws, Forall (elem3 f p et fl) ws /\ concat (map fst ws) = genc_elems ch p wet i wes /\
             map (tnorm et) (map snd ws) = map (tnorm et) es /\ length ws = length wes.
Proof.
  intros IH Hokw Hok wes es HF. induction HF as [|wx x wes' es' Hw HF IHF]; intros i HW HN Hf.
  - exists []. repeat split; constructor.
  - inversion HW as [|? ? [Hw1 Hw2] HW']; subst. inversion HN as [|? ? [Hx1 Hx2] HN']; subst.
    rewrite genc_elems_cons in Hf. rewrite app_length in Hf.
    destruct (IH p (sub ch i) wet wx x fl f Hw Hokw Hw1 Hok Hx1 Hx2 ltac:(lia)) as [r [Hr1 Hr2]].
    destruct (IHF (S i) HW' HN' ltac:(lia)) as [ws [H1 [H2 [H3 H4]]]].
    exists ((genc (sub ch i) p wet wx, r) :: ws). repeat split.
    + constructor; [split; cbn [fst snd]; [apply genc_len_pos; assumption | exact Hr1] | exact H1].
    + cbn [map concat fst]. rewrite H2. reflexivity.
    + cbn [map snd]. rewrite Hr2, H3. reflexivity.
    + cbn [length]. rewrite H4. reflexivity.
Qed.

Lemma mainW_list et : mainW et -> mainW (ThList et).
Proof.
  intros IH p ch wt wv v flags fuel Hw Hokw Hwfw Hok Hwf Hn Hf.
  destruct v; try discriminate Hwf.
  destruct (widens_list_inv _ _ _ _ _ Hw) as [wet [wes [-> [-> [Hteq HF]]]]].
  destruct fuel; [cbn [tdepth] in Hf; lia|]. cbn [ty_ok] in Hok, Hokw.
  apply wf_list_inv in Hwf. destruct Hwf as [Hlen HN]. apply wf_list_inv in Hwfw. destruct Hwfw as [Hlenw HW].
  rewrite genc_list_eq in *. rewrite app_length in Hf. cbn [tdepth] in Hf.
  destruct (list_ws fuel p ch (Z.land flags f_strict) wet et IH Hokw Hok wes es HF O HW HN ltac:(lia)) as [ws [H1 [H2 [H3 H4]]]].
  exists (TvList true (map snd ws)). split.
  - intros j rest. rewrite dec_list_eq. rewrite <- app_assoc.
    assert (Hl : len wes = len ws) by (unfold len; lia). rewrite Hl in *. clear Hl.
    pose proof (type_of_range wet) as Hty. unfold tlim in Hlenw.
    rewrite (gl_hdr_rspec ch p (type_of wet) (len ws) ltac:(unfold len in *; lia) ltac:(lia) j), tbind_res3.
    rewrite app_length. pose proof (gl_hdr_len ch p (type_of wet) (len ws)) as Hh.
    destruct (Nat.ltb_spec j (length (gl_hdr ch p (type_of wet) (len ws)))); [rewrite res3_lt by lia; reflexivity|].
    cbv zeta. replace (type_of wet =? c_TRUE) with false by (unfold c_TRUE; lia).
    rewrite <- Hteq, Z.eqb_refl. cbn [negb]. replace (len ws <? 0) with false by (unfold len; lia).
    rewrite <- H2.
    rewrite lloop3 by (try assumption; lia). cbn [rev app].
    destruct (Nat.ltb_spec (j - length (gl_hdr ch p (type_of wet) (len ws))) (length (concat (map fst ws)))).
    + rewrite res3_lt by lia. rewrite eofc_pos by lia. reflexivity.
    + rewrite res3_ge by lia. do 3 f_equal. lia.
  - rewrite !tnorm_list_eq. f_equal. exact H3.
Qed.

(* maps *)
Lemma map_ws f p ch fl kt wvt vt : mainW vt -> is_key_ty kt = true -> ty_ok wvt = true -> ty_ok vt = true ->
  forall wes es, Forall2 (fun wkx kx => fst wkx = fst kx /\ widens wvt (snd wkx) vt (snd kx)) wes es -> forall i,
  mdist kt wvt wes -> mdist kt vt es ->
  (length (genc_pairs ch p kt wvt i wes) + Nat.max (tdepth kt) (tdepth wvt) <= f)%nat ->
  exists ws, Forall (pair3 f p kt vt fl) ws /\ concat (map pbytes ws) = genc_pairs ch p kt wvt i wes /\
             map (fun kx => (fst kx, tnorm vt (snd kx))) (map pval ws) = map (fun kx => (fst kx, tnorm vt (snd kx))) es /\
             map (fun wd => fst (pval wd)) ws = map fst es /\ length ws = length wes.
Proof.
  intros IH Hkey Hokw Hok wes es HF. induction HF as [|[wk wx] [k x] wes' es' [Hk Hw] HF IHF]; intros i HW HN Hf.
  - exists []. repeat split; constructor.
  - cbn [fst snd] in Hk, Hw. subst wk.
    cbn [mdist fst snd] in HW, HN. destruct HW as [Hk1 [Hw1 [Hw2 [_ HW']]]]. destruct HN as [_ [Hx1 [Hx2 [_ HN']]]].
    destruct (key_facts kt k Hkey Hk1) as [Hdv [Hk2 Hokk]].
    rewrite genc_pairs_cons in Hf. cbn [fst snd] in Hf. rewrite !app_length in Hf.
    rewrite (genc_key (sub ch (2 * i)) p kt k Hkey Hk1) in Hf.
    assert (Hf1 : (length (genc (sub ch (2 * i + 1)) p wvt wx) + tdepth wvt <= f)%nat) by (clear - Hf; lia).
    assert (Hf2 : (length (genc_pairs ch p kt wvt (S i) wes') + Nat.max (tdepth kt) (tdepth wvt) <= f)%nat) by (clear - Hf; lia).
    assert (Hf3 : (length (enc p kt k) + tdepth kt <= f)%nat) by (clear - Hf; lia).
    destruct (IH p (sub ch (2 * i + 1)) wvt wx x fl f Hw Hokw Hw1 Hok Hx1 Hx2 Hf1) as [r [Hr1 Hr2]].
    destruct (IHF (S i) HW' HN' Hf2) as [ws [H1 [H2 [H3 [H4 H5]]]]].
    exists (((enc p kt k, k), (genc (sub ch (2 * i + 1)) p wvt wx, r)) :: ws). repeat split.
    + constructor; [|exact H1]. split; split; cbn [fst snd].
      * apply enc_len_pos; assumption.
      * rewrite <- Hdv at 2. apply main_all; try assumption.
      * apply genc_len_pos; assumption.
      * exact Hr1.
    + cbn [map concat]. unfold pbytes at 1. cbn [fst snd]. rewrite H2, genc_pairs_cons. cbn [fst snd].
      rewrite (genc_key (sub ch (2 * i)) p kt k Hkey Hk1). rewrite <- app_assoc. reflexivity.
    + cbn [map]. change (pval ((enc p kt k, k), (genc (sub ch (2 * i + 1)) p wvt wx, r))) with (k, r). cbn [fst snd]. rewrite Hr2, H3. reflexivity.
    + cbn [map]. change (pval ((enc p kt k, k), (genc (sub ch (2 * i + 1)) p wvt wx, r))) with (k, r). cbn [fst snd]. rewrite H4. reflexivity.
    + cbn [length]. rewrite H5. reflexivity.
Qed.

Lemma mainW_map kt vt : mainW vt -> mainW (ThMap kt vt).
Proof.
  intros IH p ch wt wv v flags fuel Hw Hokw Hwfw Hok Hwf Hn Hf.
  destruct v; try discriminate Hwf.
  destruct (widens_map_inv _ _ _ _ _ _ Hw) as [wvt [wes [-> [-> HF]]]].
  destruct fuel; [cbn [tdepth] in Hf; lia|]. cbn [ty_ok] in Hok, Hokw.
  apply andb_true_iff in Hok. destruct Hok as [Hok _]. apply andb_true_iff in Hok. destruct Hok as [Hkey Hokv].
  apply andb_true_iff in Hokw. destruct Hokw as [Hokw _]. apply andb_true_iff in Hokw. destruct Hokw as [_ Hokwv].
  apply wf_map_inv in Hwf. destruct Hwf as [Hlen HN]. apply wf_map_inv in Hwfw. destruct Hwfw as [Hlenw HW].
  rewrite genc_map_eq in *. rewrite app_length in Hf. cbn [tdepth] in Hf.
  destruct (map_ws fuel p ch (Z.land flags f_strict) kt wvt vt IH Hkey Hokwv Hokv wes es HF O HW HN ltac:(lia)) as [ws [H1 [H2 [H3 [H4 H5]]]]].
  exists (TvMap true (map pval ws)). split.
  - intros j rest. rewrite dec_map_eq. rewrite <- app_assoc.
    assert (Hl : len wes = len ws) by (unfold len; lia). rewrite Hl in *.
    pose proof (type_of_range kt) as Htk. pose proof (type_of_range wvt) as Htv. unfold tlim in Hlenw.
    rewrite (r_map_spec p (len ws) (type_of kt) (type_of wvt) ltac:(unfold len in *; lia) ltac:(lia) ltac:(lia) j), tbind_res3.
    rewrite app_length. pose proof (w_map_length p (len ws) (type_of kt) (type_of wvt)) as Hh.
    destruct (Nat.ltb_spec j (length (w_map p (len ws) (type_of kt) (type_of wvt)))); [rewrite res3_lt by lia; reflexivity|].
    destruct (len ws =? 0) eqn:E0.
    + destruct ws; [|unfold len in E0; cbn [length] in E0; lia]. destruct wes; [|discriminate H5].
      replace (map_res p (len []) (type_of kt) (type_of wvt)) with (0, (if p then type_of kt else 0), (if p then type_of wvt else 0)) by (destruct p; reflexivity).
      cbn [genc_pairs app length map]. unfold len in *. cbn [length Z.of_nat] in *. cbn.
      rewrite res3_ge by lia. do 3 f_equal. lia.
    + replace (map_res p (len ws) (type_of kt) (type_of wvt)) with (len ws, type_of kt, type_of wvt) by (unfold map_res; rewrite E0; destruct p; reflexivity).
      cbv iota beta. rewrite E0. replace (len ws <? 0) with false by (unfold len; lia). rewrite Z.eqb_refl. cbn [negb].
      assert (Hteq : type_of wvt = type_of vt).
      { destruct wes as [|wkx wes']; [destruct ws; [unfold len in E0; cbn [length] in E0; lia | discriminate H5]|]. inversion HF as [|? ? ? ? [_ Hw1] _]; subst.
        eapply widens_type_of; eauto. }
      rewrite <- Hteq, Z.eqb_refl. cbn [negb].
      rewrite <- H2.
      rewrite mloop3; [ | assumption | intros a y [] | rewrite H4; eapply mdist_keys; eauto | lia]. cbn [app].
      destruct (Nat.ltb_spec (j - length (w_map p (len ws) (type_of kt) (type_of wvt))) (length (concat (map pbytes ws)))).
      * rewrite res3_lt by lia. rewrite eofc_pos by lia. reflexivity.
      * rewrite res3_ge by lia. do 3 f_equal. lia.
  - rewrite !tnorm_map_eq. f_equal. exact H3.
Qed.

(* structs *)
Lemma fdepth_in fs fd : In fd fs -> (tdepth (fld_ty fd) <= fdepth fs)%nat.
Proof.
  induction fs as [|a r IH]; intros Hi; [contradiction|]. rewrite fdepth_cons.
  destruct Hi as [->|Hi]; [lia | specialize (IH Hi); lia].
Qed.
Lemma asc_NoDup l : forall lo, asc lo l -> NoDup l.
Proof.
  induction l as [|a r IH]; intros lo H; constructor; cbn [asc] in H; destruct H as [H1 H2].
  - eapply asc_notin; [exact H2 | lia].
  - eapply IH; eauto.
Qed.
Lemma nodup_split_neq {A} (g : A -> Z) l1 x l2 : NoDup (map g (l1 ++ x :: l2)) -> forall y, In y l1 \/ In y l2 -> g y <> g x.
Proof.
  rewrite map_app. cbn [map]. intros H y Hy Heq. apply NoDup_remove_2 in H. apply H. rewrite <- Heq.
  apply in_or_app. destruct Hy as [Hy|Hy]; [left | right]; apply in_map; exact Hy.
Qed.
Lemma fskip_narrow wfd wx fd x : fld_flags wfd = fld_flags fd -> widens (fld_ty wfd) wx (fld_ty fd) x -> tval_wf (fld_ty fd) x = true ->
  fskip wfd wx = true -> fskip fd x = true.
Proof.
  intros Hfl Hw Hwf Hs. unfold fskip in *. rewrite <- (widens_nilp _ _ _ _ Hw), <- Hfl.
  apply orb_true_iff in Hs. destruct Hs as [Hs|Hs]; [rewrite Hs; reflexivity|].
  apply andb_true_iff in Hs. destruct Hs as [Hs1 Hs2]. rewrite Hs1, (zero_narrow _ _ _ _ Hw Hwf Hs2). apply orb_true_r.
Qed.

(* what is known about the kind chosen for an entry of the wide encoding *)
Definition kind_ok (f : nat) (p : proto) (fs : list tfield) (vs : list tval) (flags : Z) (e : gentry) (k : ekind) : Prop :=
  gek_ok f p fs flags (e, k) /\
  match k with
  | KKnown i r => exists fd x, nth_error fs i = Some fd /\ nth_error vs i = Some x /\
       tnorm (fld_ty fd) (if fskip (g_fd e) (g_x e) then zero_of (fld_ty fd) else r) = tnorm (fld_ty fd) x /\
       (has_flag (fld_flags fd) f_required = true -> fskip (g_fd e) (g_x e) = false)
  | KUnknown => True
  end.

(* how the value of one field of the target relates to the entry of the wire that carries its id *)
Definition field_rel (f : nat) (p : proto) (ch : choice) (flags : Z) (iW : nat) (wfd : tfield) (wx : tval) (fd : tfield) (x : tval) : Prop :=
  ((fskip wfd wx = false -> coalesce p (type_of (fld_ty wfd)) = false -> (length (gbody ch p iW wfd wx) + tdepth (fld_ty wfd) <= f)%nat) ->
   exists r,
     (fskip wfd wx = false ->
        type_of (fld_ty fd) = type_of (fld_ty wfd) /\
        if coalesce p (type_of (fld_ty wfd)) then r = wrap_ptrs (fld_ty fd) (TvBool (deref_bool wx))
        else rspec (fdec f p fd (Z.lor (Z.land flags f_strict) (fld_flags fd)) (zero_of (fld_ty fd))) (gbody ch p iW wfd wx) r) /\
     tnorm (fld_ty fd) (if fskip wfd wx then zero_of (fld_ty fd) else r) = tnorm (fld_ty fd) x) /\
  (has_flag (fld_flags fd) f_required = true -> fskip wfd wx = false).

(* decoding any conformant encoding of the struct (wfs ++ gs, wvs ++ ws) into the struct type fs, every field of fs
   being related to the field of wfs at the same position, the fields gs being unknown to fs *)
Lemma struct_core f p ch fs vs wfs wvs gs ws flags :
  NoDup (map fld_id fs) -> (forall y, In y (map fld_id fs) -> 1 <= y) -> length vs = length fs ->
  length wvs = length wfs -> length wfs = length fs ->
  ty_ok (ThStruct (wfs ++ gs)) = true -> tval_wf (ThStruct (wfs ++ gs)) (TvStruct (wvs ++ ws)) = true ->
  (forall i wfd wx, nth_error wfs i = Some wfd -> nth_error wvs i = Some wx ->
     exists fd x, nth_error fs i = Some fd /\ nth_error vs i = Some x /\ fld_id wfd = fld_id fd /\ field_rel f p ch flags i wfd wx fd x) ->
  (length (genc ch p (ThStruct (wfs ++ gs)) (TvStruct (wvs ++ ws))) + fdepth (wfs ++ gs) <= f)%nat ->
  exists r, rspec (dec (S f) p (ThStruct fs) flags (zero_of (ThStruct fs))) (genc ch p (ThStruct (wfs ++ gs)) (TvStruct (wvs ++ ws))) r /\
            tnorm (ThStruct fs) r = tnorm (ThStruct fs) (TvStruct vs).
Proof.
  intros Hnd Hids Hlen Hlw Hlwf Hokw Hwfw Hpair Hf.
  set (W := wfs ++ gs) in *. set (WV := wvs ++ ws) in *.
  destruct (struct_good W WV Hokw Hwfw (all_mainP _)) as [Hndw HFw].
  assert (HlenW : length WV = length W) by (symmetry; eapply Forall2_len; eauto).
  assert (HidsW : forall fd, In fd W -> 1 <= fld_id fd < 2 ^ 15) by (intros fd Hfd; destruct (Forall2_in_l _ _ _ _ HFw Hfd) as [b [Hb _]]; lia).
  rewrite (genc_struct_eq ch p W WV Hndw HidsW HlenW) in *.
  destruct (sort_by_id_spec (g_mk ch p O W WV) 0) as [Hasc Hin].
  { rewrite g_mk_ids by exact HlenW. exact Hndw. }
  { intros e He. destruct (g_mk_in ch p W WV O e He) as [i [Hi _]]. unfold eid. apply nth_error_In in Hi. specialize (HidsW _ Hi). unfold g_fd in HidsW. clear - HidsW. lia. }
  set (L := sort_by_id (g_mk ch p O W WV)) in *.
  assert (HQ : forall e, In e L -> exists k, kind_ok f p fs vs flags e k).
  { intros e He0. pose proof He0 as He. apply Hin in He. destruct (g_mk_in ch p W WV O e He) as [iW [Hi1 [Hi2 Hi3]]]. cbn [Nat.add] in Hi3.
    pose proof (Forall2_nth_error _ _ _ _ _ _ HFw Hi1 Hi2) as [Hidw [Hokwt [Hwfwt [Henw [Hreqw _]]]]].
    assert (Hbody : fskip (g_fd e) (g_x e) = false -> coalesce p (type_of (fld_ty (g_fd e))) = false ->
              (length (g_body e) + tdepth (fld_ty (g_fd e)) <= f)%nat).
    { intros Hs Hc. pose proof (gen_go_body_len p L 0 e He0 Hs Hc) as Hbl.
      pose proof (fdepth_in W (g_fd e) (nth_error_In _ _ Hi1)) as Hd. clear - Hbl Hd Hf. lia. }
    assert (Hnilw : fskip (g_fd e) (g_x e) = false -> nilp (g_x e) = false) by (unfold fskip; intros Hs; apply orb_false_elim in Hs; apply Hs).
    destruct (Nat.ltb_spec iW (length wfs)) as [Hlt|Hge].
    - (* a field the narrow struct declares *)
      unfold W, WV in Hi1, Hi2. rewrite nth_error_app1 in Hi1 by exact Hlt. rewrite nth_error_app1 in Hi2 by (rewrite Hlw; exact Hlt).
      destruct (Hpair iW _ _ Hi1 Hi2) as [fd [x [Hfd [Hx [Hideq [Hfr Hreq]]]]]].
      rewrite <- Hi3 in Hfr. destruct (Hfr Hbody) as [r [Hr1 Hr2]].
      exists (KKnown iW r). split.
      + split; [exact Hidw|]. cbn [fst snd]. exists fd. split; [exact Hfd|]. split; [symmetry; exact Hideq | exact Hr1].
      + exists fd, x. split; [exact Hfd|]. split; [exact Hx|]. split; [exact Hr2 | exact Hreq].
    - (* a field the narrow struct does not declare *)
      exists KUnknown. split; [|exact I]. split; [exact Hidw|]. cbn [fst snd]. split.
      + intros Hinn. apply in_map_iff in Hinn. destruct Hinn as [fd [Heq Hfd]]. apply In_nth_error in Hfd. destruct Hfd as [i Hfd].
        assert (Hil : (i < length wfs)%nat) by (apply nth_error_some_lt in Hfd; rewrite Hlwf; exact Hfd).
        destruct (nth_error_ex wfs i Hil) as [wfd Hwfd]. destruct (nth_error_ex wvs i ltac:(rewrite Hlw; exact Hil)) as [wx Hwx].
        destruct (Hpair i _ _ Hwfd Hwx) as [fd' [x' [Hfd' [_ [Hideq _]]]]]. rewrite Hfd in Hfd'. inversion Hfd'; subst fd'.
        assert (HWi : nth_error W i = Some wfd) by (unfold W; rewrite nth_error_app1 by exact Hil; exact Hwfd).
        pose proof (NoDup_uniq W iW (g_fd e) Hndw Hi1 i wfd HWi ltac:(congruence)) as Hii. clear - Hii Hil Hge. lia.
      + intros Hs Hc. specialize (Hbody Hs Hc). specialize (Hnilw Hs). rewrite Hi3.
        destruct (has_flag (fld_flags (g_fd e)) f_enum) eqn:Een.
        * pose proof (Henw eq_refl) as Etw. rewrite Etw in Hwfwt.
          destruct (g_x e) as [| z | | | | | |] eqn:Egx; try discriminate Hwfwt. cbn [tval_wf] in Hwfwt.
          assert (Hz : - 2 ^ 31 <= z < 2 ^ 31) by (clear - Hwfwt; lia).
          rewrite (gbody_enum ch p iW (g_fd e) z Een Etw Hz). rewrite Etw.
          rewrite Hi3, (gbody_enum ch p iW (g_fd e) z Een Etw Hz), Etw in Hbody.
          apply sk3_i32; [cbn [tdepth] in Hbody; clear - Hbody; lia | exact Hz].
        * rewrite (gbody_noenum ch p iW (g_fd e) (g_x e) Een). rewrite Hi3, (gbody_noenum ch p iW (g_fd e) (g_x e) Een) in Hbody.
          apply skipG_all; assumption. }
  destruct (choose_kinds (kind_ok f p fs vs flags) L HQ) as [l [HlL Hl]].
  assert (Hgek : forall ek, In ek l -> gek_ok f p fs flags ek).
  { intros [e k] Hek. exact (proj1 (Hl _ Hek)). }
  assert (HndL : NoDup (map eid (map fst l))) by (rewrite HlL; eapply asc_NoDup; exact Hasc).
  (* the entry of a narrow field *)
  assert (Hslot : forall i fd x, nth_error fs i = Some fd -> nth_error vs i = Some x ->
            exists l1 e r l2, l = l1 ++ (e, KKnown i r) :: l2 /\ fld_id (g_fd e) = fld_id fd /\
              tnorm (fld_ty fd) (if fskip (g_fd e) (g_x e) then zero_of (fld_ty fd) else r) = tnorm (fld_ty fd) x /\
              (has_flag (fld_flags fd) f_required = true -> fskip (g_fd e) (g_x e) = false) /\
              (forall ek, In ek l1 \/ In ek l2 -> ~ touches i ek)).
  { intros i fd x Hfd Hx.
    assert (Hil : (i < length wfs)%nat) by (apply nth_error_some_lt in Hfd; rewrite Hlwf; exact Hfd).
    destruct (nth_error_ex wfs i Hil) as [wfd Hwfd]. destruct (nth_error_ex wvs i ltac:(rewrite Hlw; exact Hil)) as [wx Hwx].
    destruct (Hpair i _ _ Hwfd Hwx) as [fd' [x' [Hfd' [Hx' [Hideq _]]]]]. rewrite Hfd in Hfd'. inversion Hfd'; subst fd'. clear Hfd' Hx'.
    assert (HWi : nth_error W i = Some wfd) by (unfold W; rewrite nth_error_app1 by exact Hil; exact Hwfd).
    assert (HWVi : nth_error WV i = Some wx) by (unfold WV; rewrite nth_error_app1 by (rewrite Hlw; exact Hil); exact Hwx).
    destruct (g_mk_nth ch p W WV O i wfd wx HWi HWVi) as [lg Hmk]. apply Hin in Hmk. fold L in Hmk. rewrite <- HlL in Hmk.
    apply in_map_iff in Hmk. destruct Hmk as [[e k] [Hfst Hek]]. cbn [fst] in Hfst. subst e.
    destruct (in_split _ _ Hek) as [l1 [l2 Hsplit]].
    pose proof (Hl _ Hek) as [Hg Hk]. cbn [fst snd] in Hg, Hk.
    assert (Hide : fld_id (g_fd (wfd, (wx, (lg, gbody ch p (0 + i) wfd wx)))) = fld_id fd) by exact Hideq.
    destruct k as [i' r|].
    2:{ exfalso. destruct Hg as [_ [Hnin _]]. cbn [fst] in Hnin. apply Hnin. rewrite Hide. apply in_map. eapply nth_error_In; eauto. }
    destruct Hk as [fd2 [x2 [Hfd2 [Hx2 [Hn1 Hn2]]]]].
    assert (i' = i).
    { destruct Hg as [_ [fd'' [Hfd'' [Heq'' _]]]]. cbn [fst] in Heq''. rewrite Hfd2 in Hfd''. inversion Hfd''; subst fd''.
      apply (NoDup_uniq fs i fd Hnd Hfd i' fd2 Hfd2). rewrite Heq''. exact Hide. }
    subst i'. rewrite Hfd in Hfd2. inversion Hfd2; subst fd2. rewrite Hx in Hx2. inversion Hx2; subst x2.
    exists l1, (wfd, (wx, (lg, gbody ch p (0 + i) wfd wx))), r, l2. split; [exact Hsplit|]. split; [exact Hide|]. split; [exact Hn1|]. split; [exact Hn2|].
    intros ek' Hek' [_ [r' Hk']]. rewrite Hsplit in HndL. rewrite map_map in HndL.
    apply (nodup_split_neq (fun ek => eid (fst ek)) l1 _ l2 HndL ek' Hek'). cbn [fst].
    assert (Hin' : In ek' l) by (rewrite Hsplit; apply in_or_app; destruct Hek'; [left | right; right]; assumption).
    pose proof (Hgek _ Hin') as [_ Hg']. rewrite Hk' in Hg'. destruct Hg' as [fd'' [Hfd'' [Heq'' _]]]. rewrite Hfd in Hfd''. inversion Hfd''; subst fd''.
    unfold eid. change (fst (fst ek')) with (g_fd (fst ek')). rewrite <- Heq''. symmetry. exact Hide. }
  exists (TvStruct (apply_ek l (zero_fields fs))). split.
  - intros j rest. rewrite dec_struct_eq, zero_struct_eq. rewrite <- HlL in *.
    rewrite (sloop_gen5 f p fs flags Hnd Hids l 0 f 0 [] (zero_fields fs) j rest Hgek Hasc (Z.le_refl 0) (Z.le_refl 0) (zero_above_zero fs 0) ltac:(clear - Hf; lia)).
    rewrite smissing_false.
    + unfold res3, eofc. cbn [Z.eqb andb]. destruct (j <? _)%nat; reflexivity.
    + intros fd Hfd Hreq. apply In_nth_error in Hfd. destruct Hfd as [i Hfd].
      destruct (nth_error_ex vs i) as [x Hx]; [rewrite Hlen; eapply nth_error_some_lt; eauto|].
      destruct (Hslot i fd x Hfd Hx) as [l1 [e [r [l2 [Hsplit [Hide [_ [Hwr _]]]]]]]].
      rewrite <- Hide. apply (seen_ek_in fs l [] e i r); [rewrite Hsplit; apply in_or_app; right; left; reflexivity | exact (Hwr Hreq)].
  - rewrite !tnorm_struct_eq. f_equal. apply tnorm_fields_ext.
    + rewrite apply_ek_length. apply zero_fields_length.
    + exact Hlen.
    + intros i fd a x Hfd Ha Hx.
      destruct (Hslot i fd x Hfd Hx) as [l1 [e [r [l2 [Hsplit [Hide [Hno [_ Hothers]]]]]]]].
      assert (Hi : (i < length (zero_fields fs))%nat) by (rewrite zero_fields_length; eapply nth_error_some_lt; eauto).
      destruct (fskip (g_fd e) (g_x e)) eqn:Es.
      * rewrite apply_ek_untouched in Ha.
        -- rewrite (zero_fields_nth fs i fd Hfd) in Ha. inversion Ha; subst a. exact Hno.
        -- intros ek Hek. rewrite Hsplit in Hek. apply in_app_or in Hek. destruct Hek as [Hek|[Hek|Hek]].
           ++ apply Hothers. left. exact Hek.
           ++ subst ek. intros [Hwr _]. unfold written in Hwr. cbn [fst] in Hwr. rewrite Es in Hwr. discriminate Hwr.
           ++ apply Hothers. right. exact Hek.
      * pose proof (apply_ek_touched i l1 e r l2 (zero_fields fs) Es Hi (fun ek Hek => Hothers ek (or_introl Hek)) (fun ek Hek => Hothers ek (or_intror Hek))) as Ht.
        rewrite Hsplit in Ha. assert (Har : Some r = Some a) by (rewrite <- Ht; exact Ha). inversion Har; subst a. exact Hno.
Qed.

(* a widened field *)
Lemma widens_field_rel f p ch flags iW wfd wx fd x :
  mainW (fld_ty fd) -> fgood wfd wx -> fgood fd x -> fld_flags wfd = fld_flags fd ->
  widens (fld_ty wfd) wx (fld_ty fd) x -> field_rel f p ch flags iW wfd wx fd x.
Proof.
  intros IHt [Hidw [Hokwt [Hwfwt [Henw [Hreqw _]]]]] [Hidn [Hokn [Hwfn [Henn [Hreqn _]]]]] Hfleq Hwid. split.
  2:{ intros Hreq. unfold fskip. rewrite Hfleq, Hreq. rewrite (Hreqw ltac:(rewrite Hfleq; exact Hreq)). reflexivity. }
  intros Hbody.
  assert (Hnilw : fskip wfd wx = false -> nilp wx = false) by (unfold fskip; intros Hs; apply orb_false_elim in Hs; apply Hs).
  destruct (fskip wfd wx) eqn:Es.
  - exists (zero_of (fld_ty fd)). split; [intros Hd; discriminate Hd|].
    pose proof (fskip_narrow _ _ _ _ Hfleq Hwid Hwfn Es) as Esn.
    pose proof (field_norm fd x (conj Hokn Hwfn)) as Hfn. rewrite Esn in Hfn. exact Hfn.
  - assert (Hnx : nilp x = false) by (rewrite <- (widens_nilp _ _ _ _ Hwid); apply Hnilw; reflexivity).
    pose proof (widens_type_of _ _ _ _ Hwid) as Hteq.
    destruct (coalesce p (type_of (fld_ty wfd))) eqn:Ec.
    + (* a bool folded into the header *)
      destruct p; [discriminate Ec|]. cbn [coalesce] in Ec.
      assert (Htb : type_of (fld_ty fd) = c_BOOL) by (rewrite <- Hteq; apply Z.eqb_eq; exact Ec).
      destruct (widens_bool _ _ _ _ Hokn Htb Hwid) as [Et Ev].
      exists (wrap_ptrs (fld_ty fd) (TvBool (deref_bool wx))). split; [intros _; split; [symmetry; exact Hteq | reflexivity]|].
      rewrite Ev. pose proof (bool_field (fld_ty fd) x Hokn Htb Hwfn Hnx) as Hbf.
      replace ((if deref_bool x then c_TRUE else c_BOOL) =? c_TRUE) with (deref_bool x) in Hbf by (destruct (deref_bool x); reflexivity).
      rewrite Hbf. apply dval_norm; assumption.
    + destruct (has_flag (fld_flags fd) f_enum) eqn:Een.
      * (* an enum field: an i32 body *)
        pose proof (Henn eq_refl) as Etn. rewrite <- Hfleq in Een. pose proof (Henw Een) as Etw.
        rewrite Etn, Etw in Hwid. inversion Hwid; subst.
        rewrite Etw in Hwfwt. destruct x as [| z | | | | | |]; try discriminate Hwfwt. cbn [tval_wf] in Hwfwt.
        assert (Hz : - 2 ^ 31 <= z < 2 ^ 31) by (clear - Hwfwt; lia).
        exists (TvInt z). split; [|rewrite Etn; reflexivity].
        intros _. split; [symmetry; exact Hteq|].
        rewrite (gbody_enum ch p iW wfd z Een Etw Hz).
        unfold fdec. rewrite Hfleq in Een. rewrite Een, Etn.
        intros j rest. rewrite (r_i32_spec p z Hz j rest), tbind_res3. unfold res3. destruct (j <? _)%nat; reflexivity.
      * assert (Eenw : has_flag (fld_flags wfd) f_enum = false) by (rewrite Hfleq; exact Een).
        rewrite (gbody_noenum ch p iW wfd wx Eenw) in *.
        destruct (IHt p (sub ch (S iW)) (fld_ty wfd) wx x (Z.lor (Z.land flags f_strict) (fld_flags fd)) f Hwid Hokwt Hwfwt Hokn Hwfn Hnx
                    (Hbody eq_refl eq_refl)) as [r [Hr1 Hr2]].
        exists r. split; [|exact Hr2]. intros _. split; [symmetry; exact Hteq|].
        unfold fdec. rewrite Een. exact Hr1.
Qed.

Lemma mainW_struct fs : Forall (fun f => mainW (fld_ty f)) fs -> mainW (ThStruct fs).
Proof.
  intros HP p ch wt wv v flags fuel Hw Hokw Hwfw Hok Hwf Hn Hf.
  destruct v; try discriminate Hwf.
  destruct (struct_good fs vs Hok Hwf (all_mainP _)) as [Hnd HFn].
  assert (Hlen : length vs = length fs) by (symmetry; eapply Forall2_len; eauto).
  destruct (widens_struct_inv _ _ _ _ Hlen Hw) as [wfs [wvs [gs [ws [-> [-> [Hlw HF4]]]]]]]. clear Hw.
  destruct (Forall2_combine4 _ wfs wvs fs vs Hlw Hlen HF4) as [Hlwf Hrel]. clear HF4.
  destruct (struct_good _ _ Hokw Hwfw (all_mainP _)) as [Hndw HFw].
  assert (Hids : forall y, In y (map fld_id fs) -> 1 <= y).
  { intros y Hy. apply in_map_iff in Hy. destruct Hy as [fd [<- Hfd]]. destruct (Forall2_in_l _ _ _ _ HFn Hfd) as [b [Hb _]]. lia. }
  rewrite tdepth_struct_eq in Hf. destruct fuel as [|f]; [clear - Hf; lia|].
  apply (struct_core f p ch fs vs wfs wvs gs ws flags Hnd Hids Hlen Hlw Hlwf Hokw Hwfw); [|clear - Hf; lia].
  intros i wfd wx H1 H2.
  destruct (nth_error_ex fs i) as [fd Hfd]; [apply nth_error_some_lt in H1; rewrite <- Hlwf; exact H1|].
  destruct (nth_error_ex vs i) as [x Hx]; [apply nth_error_some_lt in H1; rewrite Hlen, <- Hlwf; exact H1|].
  exists fd, x. destruct (Hrel i _ _ _ _ H1 H2 Hfd Hx) as [Ha [Hb Hc]]. cbn [fst snd] in *.
  split; [exact Hfd|]. split; [exact Hx|]. split; [exact Ha|].
  apply widens_field_rel; try assumption.
  - exact (proj1 (Forall_forall _ fs) HP fd (nth_error_In _ _ Hfd)).
  - apply (Forall2_nth_error _ _ _ i _ _ HFw); [rewrite nth_error_app1 by (eapply nth_error_some_lt; eauto); exact H1 |
      rewrite nth_error_app1 by (rewrite Hlw; eapply nth_error_some_lt; eauto); exact H2].
  - exact (Forall2_nth_error _ _ _ _ _ _ HFn Hfd Hx).
Qed.

Theorem mainW_all : forall t, mainW t.
Proof.
  apply tty_ind'.
  1-8: (apply mainW_scalar; [intros wt wv v H; inversion H; subst; split; reflexivity | intros ch v; destruct v; reflexivity]).
  - exact mainW_list.
  - intros kt _. exact (mainW_set kt).
  - intros kt vt _ IH. exact (mainW_map kt vt IH).
  - exact mainW_struct.
  - exact mainW_ptr.
Qed.
