(* Statements about the thrift model (Thrift/Model.v) for C04, C08 and C13, and an independent
   transcription of the Apache Thrift binary / compact protocol specifications. Definitions only. *)
From Verif Require Import Base.GoInt Thrift.Model.
Open Scope Z_scope.

(* ---------- universe ---------- *)
Definition tlim : Z := 2 ^ 31.
Definition is_key_ty (t : tty) : bool :=
  match t with ThBool | ThI8 | ThI16 | ThI32 | ThI64 | ThStr => true | _ => false end.
Fixpoint distinctZ (l : list Z) : bool :=
  match l with [] => true | x :: r => negb (existsb (Z.eqb x) r) && distinctZ r end.
(* a map[K]struct{} is a SET for the package: map values must not be zero-size *)
Fixpoint zero_size (t : tty) : bool :=
  match t with
  | ThStruct fs => (fix go (fs : list tfield) : bool := match fs with [] => true | TField _ _ ft :: r => zero_size ft && go r end) fs
  | _ => false
  end.
Fixpoint ty_ok (t : tty) : bool :=
  match t with
  | ThList et => ty_ok et
  | ThSet kt => is_key_ty kt
  | ThMap kt vt => is_key_ty kt && ty_ok vt && negb (zero_size vt)
  | ThPtr t' => ty_ok t' && (match t' with ThPtr _ => false | _ => true end)
  | ThStruct fs =>
      distinctZ (map fld_id fs) &&
      (fix go (fs : list tfield) : bool :=
         match fs with
         | [] => true
         | TField id fl ft :: r =>
             (1 <=? id) && (id <? 2 ^ 15) && ty_ok ft &&
             negb (has_flag fl f_required && has_flag fl f_optional) &&
             (* enum only on int32 fields (other kinds: recorded deviation, see DESIGN.md) *)
             (negb (has_flag fl f_enum) || (match ft with ThI32 => true | _ => false end)) &&
             ((fl =? 0) || (fl =? f_required) || (fl =? f_optional) || (fl =? f_enum) || (fl =? f_enum + f_required) || (fl =? f_enum + f_optional)) &&
             go r
         end) fs
  | _ => true
  end.

Fixpoint tval_wf (t : tty) (v : tval) {struct t} : bool :=
  match t, v with
  | ThBool, TvBool _ => true
  | ThI8, TvInt z => (- 2 ^ 7 <=? z) && (z <? 2 ^ 7)
  | ThI16, TvInt z => (- 2 ^ 15 <=? z) && (z <? 2 ^ 15)
  | ThI32, TvInt z => (- 2 ^ 31 <=? z) && (z <? 2 ^ 31)
  | ThI64, TvInt z => (- 2 ^ 63 <=? z) && (z <? 2 ^ 63)
  | ThF64, TvInt z => (0 <=? z) && (z <? 2 ^ 64)
  | ThStr, TvBytes nn s => nn && wfb s && (len s <? tlim)
  | ThBytes, TvBytes nn s => wfb s && (len s <? tlim) && (nn || (len s =? 0))
  | ThPtr _, TvPtr None => true
  | ThPtr t', TvPtr (Some x) => tval_wf t' x
  | ThList et, TvList nn es =>
      (len es <? tlim) && (nn || (len es =? 0)) &&
      (fix go (es : list tval) : bool :=
         match es with [] => true | x :: r => tval_wf et x && negb (match x with TvPtr None => true | _ => false end) && go r end) es
  | ThSet kt, TvSet nn ks =>
      (len ks <? tlim) && (nn || (len ks =? 0)) &&
      (fix go (ks : list tval) : bool :=
         match ks with [] => true | x :: r => tval_wf kt x && negb (existsb (tval_eqb x) r) && go r end) ks
  | ThMap kt vt, TvMap nn es =>
      (len es <? tlim) && (nn || (len es =? 0)) &&
      (fix go (es : list (tval * tval)) : bool :=
         match es with
         | [] => true
         | (k, x) :: r => tval_wf kt k && tval_wf vt x && negb (match x with TvPtr None => true | _ => false end) &&
                          negb (existsb (fun kv => tval_eqb k (fst kv)) r) && go r
         end) es
  | ThStruct fs, TvStruct vs =>
      (fix go (fs : list tfield) (vs : list tval) : bool :=
         match fs, vs with
         | [], [] => true
         | TField _ fl ft :: fr, x :: vr =>
             tval_wf ft x &&
             (* a required field must be set: a nil pointer cannot be written *)
             negb (has_flag fl f_required && (match x with TvPtr None => true | _ => false end)) && go fr vr
         | _, _ => false
         end) fs vs
  | _, _ => false
  end.

(* normal form: nil-versus-empty of collections and byte slices erased; -0.0 is 0.0; pointers to values survive *)
Fixpoint tnorm (t : tty) (v : tval) {struct t} : tval :=
  match t, v with
  | ThF64, TvInt z => TvInt (if z =? 2 ^ 63 then 0 else z)
  | (ThStr | ThBytes), TvBytes _ s => TvBytes true s
  | ThPtr t', TvPtr (Some x) => TvPtr (Some (tnorm t' x))
  | ThList et, TvList _ es => TvList true ((fix go (es : list tval) : list tval := match es with [] => [] | x :: r => tnorm et x :: go r end) es)
  | ThSet _, TvSet _ ks => TvSet true ks
  | ThMap kt vt, TvMap _ es =>
      TvMap true ((fix go (es : list (tval * tval)) : list (tval * tval) := match es with [] => [] | (k, x) :: r => (k, tnorm vt x) :: go r end) es)
  | ThStruct fs, TvStruct vs =>
      TvStruct ((fix go (fs : list tfield) (vs : list tval) : list tval :=
                   match fs, vs with TField _ _ ft :: fr, x :: vr => tnorm ft x :: go fr vr | _, _ => [] end) fs vs)
  | _, _ => v
  end.

Definition t_universe (t : tty) (v : tval) : Prop :=
  ty_ok t = true /\ tval_wf t v = true /\ len (enc PBinary t v) < tlim /\ len (enc PCompact t v) < tlim.

(* ---------- C04 ---------- *)
(* Unmarshal(Marshal(v)) reproduces v for both protocols; a top-level struct is what the API takes *)
Definition t_roundtrip_statement : Prop :=
  forall p fs v, t_universe (ThStruct fs) v ->
    exists fuel r, TUnmarshal fuel p (ThStruct fs) (TMarshal p (ThStruct fs) v) = TOk r /\
                   tnorm (ThStruct fs) r = tnorm (ThStruct fs) v.
(* hence the two protocols decode each other's logical content to the same value *)
Definition t_cross_protocol_statement : Prop :=
  forall fs v, t_universe (ThStruct fs) v ->
    exists f1 f2 r1 r2,
      TUnmarshal f1 PBinary (ThStruct fs) (TMarshal PBinary (ThStruct fs) v) = TOk r1 /\
      TUnmarshal f2 PCompact (ThStruct fs) (TMarshal PCompact (ThStruct fs) v) = TOk r2 /\
      tnorm (ThStruct fs) r1 = tnorm (ThStruct fs) r2.

(* ---------- C08 ---------- *)
Fixpoint tdepth (t : tty) : nat :=
  match t with
  | ThList t' | ThSet t' | ThPtr t' => S (tdepth t')
  | ThMap k v => S (Nat.max (tdepth k) (tdepth v))
  | ThStruct fs => S ((fix go (fs : list tfield) : nat := match fs with [] => O | TField _ _ ft :: r => Nat.max (tdepth ft) (go r) end) fs)
  | _ => 1%nat
  end.
(* decoding any byte string into any supported type returns a value or an error: no panic (bitset indices,
   collection sizes), terminates within fuel linear in the input *)
Definition t_decode_total_statement : Prop :=
  forall p t b fuel, ty_ok t = true -> wfb b = true -> len b < tlim -> (2 * length b + tdepth t + 4 <= fuel)%nat ->
    (exists v, TUnmarshal fuel p t b = TOk v) \/ (exists e, TUnmarshal fuel p t b = TErr e).
(* every proper prefix of a valid encoding: io.EOF for the empty prefix, an unexpected-EOF class error otherwise *)
Definition t_prefix_eof_statement : Prop :=
  forall p fs v k fuel, t_universe (ThStruct fs) v ->
    let b := TMarshal p (ThStruct fs) v in
    (k < length b)%nat -> (2 * length b + tdepth (ThStruct fs) + 4 <= fuel)%nat ->
    TUnmarshal fuel p (ThStruct fs) (firstn k b) = TErr (if (k =? 0)%nat then EEOF else EUnexpectedEOF).
(* trailing bytes after a complete value are reported *)
Definition t_trailing_statement : Prop :=
  forall p fs v x rest fuel, t_universe (ThStruct fs) v -> wfb (x :: rest) = true ->
    (2 * (length (TMarshal p (ThStruct fs) v) + S (length rest)) + tdepth (ThStruct fs) + 4 <= fuel)%nat ->
    TUnmarshal fuel p (ThStruct fs) (TMarshal p (ThStruct fs) v ++ x :: rest) = TErr EOther.

(* ---------- C13: the specifications, transcribed ---------- *)
(* type codes of the two specifications *)
Fixpoint spec_code (p : proto) (t : tty) : Z :=
  match t with
  | ThPtr t' => spec_code p t'
  | ThBool => 2 | ThI8 => 3
  | ThF64 => match p with PBinary => 4 | PCompact => 7 end
  | ThI16 => match p with PBinary => 6 | PCompact => 4 end
  | ThI32 => match p with PBinary => 8 | PCompact => 5 end
  | ThI64 => match p with PBinary => 10 | PCompact => 6 end
  | ThStr | ThBytes => match p with PBinary => 11 | PCompact => 8 end
  | ThStruct _ => 12
  | ThMap _ _ => match p with PBinary => 13 | PCompact => 11 end
  | ThSet _ => match p with PBinary => 14 | PCompact => 10 end
  | ThList _ => match p with PBinary => 15 | PCompact => 9 end
  end.
(* recorded deviations of the package (DESIGN.md section 7): with a deviation switched on the transcription
   reproduces it, so that the partial theorem still pins every other byte *)
Record deviations := { dev_typecodes : bool; dev_stop3 : bool; dev_double_be : bool }.
Definition no_dev : deviations := {| dev_typecodes := false; dev_stop3 := false; dev_double_be := false |}.
Definition pkg_dev : deviations := {| dev_typecodes := true; dev_stop3 := true; dev_double_be := true |}.
Fixpoint le_bytes8 (n : nat) (v : Z) : bytes := match n with O => [] | S n' => (v mod 256) :: le_bytes8 n' (v / 256) end.
Definition code_of (d : deviations) (p : proto) (t : tty) : Z :=
  match p with PBinary => if dev_typecodes d then spec_code PCompact t else spec_code PBinary t | PCompact => spec_code PCompact t end.

Definition s_i32 (p : proto) (z : Z) : bytes := match p with PBinary => be_bytes 4 (w32 z) | PCompact => uvarint (zz64 z) end.
Definition s_list_header (p : proto) (code n : Z) : bytes :=
  match p with
  | PBinary => [code] ++ be_bytes 4 n
  | PCompact => if n <? 15 then [n * 16 + code] else [240 + code] ++ uvarint n
  end.

Fixpoint spec_enc (d : deviations) (p : proto) (t : tty) (v : tval) {struct t} : bytes :=
  match t, v with
  | ThBool, TvBool b => [if b then 1 else 0]
  | ThI8, TvInt z => [w8 z]
  | ThI16, TvInt z => match p with PBinary => be_bytes 2 (w16 z) | PCompact => uvarint (zz64 z) end
  | ThI32, TvInt z => s_i32 p z
  | ThI64, TvInt z => match p with PBinary => be_bytes 8 (w64 z) | PCompact => uvarint (zz64 z) end
  | ThF64, TvInt z => match p with PBinary => be_bytes 8 z | PCompact => if dev_double_be d then be_bytes 8 z else le_bytes8 8 z end
  | (ThStr | ThBytes), TvBytes _ s => (match p with PBinary => be_bytes 4 (len s) | PCompact => uvarint (len s) end) ++ s
  | ThPtr t', TvPtr (Some x) => spec_enc d p t' x
  | ThPtr t', TvPtr None => spec_enc d p t' (zero_of t')
  | ThList et, TvList _ es =>
      s_list_header p (code_of d p et) (len es) ++
      (fix go (es : list tval) : bytes := match es with [] => [] | x :: r => spec_enc d p et x ++ go r end) es
  | ThSet kt, TvSet _ ks =>
      s_list_header p (code_of d p kt) (len ks) ++
      (fix go (es : list tval) : bytes := match es with [] => [] | x :: r => spec_enc d p kt x ++ go r end) ks
  | ThMap kt vt, TvMap _ es =>
      (match p with
       | PBinary => [code_of d p kt; code_of d p vt] ++ be_bytes 4 (len es)
       | PCompact => uvarint (len es) ++ (if len es =? 0 then [] else [code_of d p kt * 16 + code_of d p vt])
       end) ++
      (fix go (es : list (tval * tval)) : bytes := match es with [] => [] | (k, x) :: r => spec_enc d p kt k ++ spec_enc d p vt x ++ go r end) es
  | ThStruct fs, TvStruct vs =>
      let bodies := (fix mk (fs : list tfield) (vs : list tval) : list (tfield * (tval * bytes)) :=
                       match fs, vs with
                       | f :: fr, x :: vr =>
                           (f, (x, match f with TField _ fl ft =>
                                     if has_flag fl f_enum then (match x with TvInt z => s_i32 p z | _ => [] end) else spec_enc d p ft x end)) :: mk fr vr
                       | _, _ => []
                       end) fs vs in
      (fix go (l : list (tfield * (tval * bytes))) (last : Z) : bytes :=
         match l with
         | [] => [0] ++ (match p with PBinary => if dev_stop3 d then [0; 0] else [] | PCompact => [] end)
         | (f, (x, body)) :: r =>
             (* the same choice of written fields as the package documents *)
             if (match x with TvPtr None => true | _ => false end) || (negb (has_flag (fld_flags f) f_required) && is_zero_t (fld_ty f) x)
             then go r last else
             match p with
             | PBinary => [code_of d p (fld_ty f)] ++ be_bytes 2 (fld_id f) ++ body ++ go r (fld_id f)
             | PCompact =>
                 let isbool := spec_code PCompact (fld_ty f) =? 2 in
                 let code := if isbool then (if deref_bool x then 1 else 2) else spec_code PCompact (fld_ty f) in
                 let delta := fld_id f - last in
                 (if (0 <? delta) && (delta <=? 15) then [delta * 16 + code] else [code] ++ uvarint (zz64 (fld_id f)))
                 ++ (if isbool then [] else body) ++ go r (fld_id f)
             end
         end) (sort_by_id bodies) 0
  | _, _ => []
  end.

(* the package's bytes are the specification's bytes modulo the three recorded deviations ... *)
Definition t_conforms_partial_statement : Prop :=
  forall p t v, ty_ok t = true -> tval_wf t v = true -> TMarshal p t v = spec_enc pkg_dev p t v.
(* ... and the full statement (no deviation) is refuted by concrete values *)
Definition t_conforms_refuted_statement : Prop :=
  (exists t v, ty_ok t = true /\ tval_wf t v = true /\ TMarshal PBinary t v <> spec_enc no_dev PBinary t v) /\
  (exists t v, ty_ok t = true /\ tval_wf t v = true /\ TMarshal PCompact t v <> spec_enc no_dev PCompact t v).
