
val negb : bool -> bool

type nat =
| O
| S of nat

val fst : ('a1 * 'a2) -> 'a1

val snd : ('a1 * 'a2) -> 'a2

val length : 'a1 list -> nat

val app : 'a1 list -> 'a1 list -> 'a1 list

type comparison =
| Eq
| Lt
| Gt

val compOpp : comparison -> comparison

val add : nat -> nat -> nat

type positive =
| XI of positive
| XO of positive
| XH

type n =
| N0
| Npos of positive

type z =
| Z0
| Zpos of positive
| Zneg of positive

val eqb : bool -> bool -> bool

module Nat :
 sig
  val eqb : nat -> nat -> bool
 end

module Pos :
 sig
  type mask =
  | IsNul
  | IsPos of positive
  | IsNeg
 end

module Coq_Pos :
 sig
  val succ : positive -> positive

  val add : positive -> positive -> positive

  val add_carry : positive -> positive -> positive

  val pred_double : positive -> positive

  val pred_N : positive -> n

  type mask = Pos.mask =
  | IsNul
  | IsPos of positive
  | IsNeg

  val succ_double_mask : mask -> mask

  val double_mask : mask -> mask

  val double_pred_mask : positive -> mask

  val sub_mask : positive -> positive -> mask

  val sub_mask_carry : positive -> positive -> mask

  val mul : positive -> positive -> positive

  val iter : ('a1 -> 'a1) -> 'a1 -> positive -> 'a1

  val div2 : positive -> positive

  val div2_up : positive -> positive

  val size : positive -> positive

  val compare_cont : comparison -> positive -> positive -> comparison

  val compare : positive -> positive -> comparison

  val eqb : positive -> positive -> bool

  val coq_Nsucc_double : n -> n

  val coq_Ndouble : n -> n

  val coq_lor : positive -> positive -> positive

  val coq_land : positive -> positive -> n

  val ldiff : positive -> positive -> n

  val coq_lxor : positive -> positive -> n

  val iter_op : ('a1 -> 'a1 -> 'a1) -> positive -> 'a1 -> 'a1

  val to_nat : positive -> nat

  val of_succ_nat : nat -> positive
 end

module N :
 sig
  val succ_double : n -> n

  val double : n -> n

  val succ_pos : n -> positive

  val sub : n -> n -> n

  val compare : n -> n -> comparison

  val leb : n -> n -> bool

  val pos_div_eucl : positive -> n -> n * n

  val coq_lor : n -> n -> n

  val coq_land : n -> n -> n

  val ldiff : n -> n -> n

  val coq_lxor : n -> n -> n
 end

module Z :
 sig
  val double : z -> z

  val succ_double : z -> z

  val pred_double : z -> z

  val pos_sub : positive -> positive -> z

  val add : z -> z -> z

  val opp : z -> z

  val sub : z -> z -> z

  val mul : z -> z -> z

  val pow_pos : z -> positive -> z

  val pow : z -> z -> z

  val compare : z -> z -> comparison

  val leb : z -> z -> bool

  val ltb : z -> z -> bool

  val gtb : z -> z -> bool

  val eqb : z -> z -> bool

  val max : z -> z -> z

  val min : z -> z -> z

  val to_nat : z -> nat

  val of_nat : nat -> z

  val of_N : n -> z

  val pos_div_eucl : positive -> z -> z * z

  val div_eucl : z -> z -> z * z

  val div : z -> z -> z

  val modulo : z -> z -> z

  val quotrem : z -> z -> z * z

  val quot : z -> z -> z

  val even : z -> bool

  val div2 : z -> z

  val log2 : z -> z

  val shiftl : z -> z -> z

  val shiftr : z -> z -> z

  val coq_lor : z -> z -> z

  val coq_land : z -> z -> z

  val coq_lxor : z -> z -> z
 end

val nth : nat -> 'a1 list -> 'a1 -> 'a1

val map : ('a1 -> 'a2) -> 'a1 list -> 'a2 list

val flat_map : ('a1 -> 'a2 list) -> 'a1 list -> 'a2 list

val fold_left : ('a1 -> 'a2 -> 'a1) -> 'a2 list -> 'a1 -> 'a1

val existsb : ('a1 -> bool) -> 'a1 list -> bool

val forallb : ('a1 -> bool) -> 'a1 list -> bool

val firstn : nat -> 'a1 list -> 'a1 list

val skipn : nat -> 'a1 list -> 'a1 list

val repeat : 'a1 -> nat -> 'a1 list

val w8 : z -> z

val w16 : z -> z

val w32 : z -> z

val w64 : z -> z

val s32 : z -> z

val s64 : z -> z

val add64 : z -> z -> z

val and64 : z -> z -> z

val or64 : z -> z -> z

val xor64 : z -> z -> z

val not64 : z -> z

val shl64 : z -> z -> z

val shr64 : z -> z -> z

val and8 : z -> z -> z

val or8 : z -> z -> z

val addi64 : z -> z -> z

val subi64 : z -> z -> z

val divi64 : z -> z -> z

val andi64 : z -> z -> z

val xori64 : z -> z -> z

val shri64 : z -> z -> z

val negi64 : z -> z

type bytes = z list

val is_byte : z -> bool

val wfb : bytes -> bool

val len : 'a1 list -> z

val at_ : bytes -> z -> z

val slice_from : 'a1 list -> z -> 'a1 list

val slice_to : 'a1 list -> z -> 'a1 list

val slice : 'a1 list -> z -> z -> 'a1 list

val le_load : nat -> bytes -> z

val le64 : bytes -> z

val le32 : bytes -> z

val upd : bytes -> z -> z -> bytes

val splice : bytes -> z -> bytes -> bytes

val isnil : 'a1 option -> bool

val bytes_eqb : bytes -> bytes -> bool

val bitlen64 : z -> z

val le_bytes : nat -> z -> bytes

val put_le32 : bytes -> z -> bytes

val put_le64 : bytes -> z -> bytes

val proto_zeroSize : z

val proto_noflags : z

val proto_inline : z

val proto_wantzero : z

val proto_toplevel : z

val proto_varint : z

val proto_fixed64 : z

val proto_varlen : z

val proto_fixed32 : z

val proto_embedded : z

val proto_repeated : z

val proto_zigzag : z

type proto_error =
| Proto_errVarintOverflow
| Proto_ErrWireTypeUnknown
| Proto_ErrShortBuffer
| Proto_ErrUnexpectedEOF

val proto_encodeZigZag64 : z -> z

val proto_decodeZigZag64 : z -> z

val proto_sizeOfVarint : z -> z

val proto_sizeOfVarlen : z -> z

val proto_sizeOfTag : z -> z -> z

val proto_encodeVarint : bytes -> z -> (z * proto_error option) * bytes

val proto_encodeLE32 : bytes -> z -> (z * proto_error option) * bytes

val proto_encodeLE64 : bytes -> z -> (z * proto_error option) * bytes

val proto_encodeTag : bytes -> z -> z -> (z * proto_error option) * bytes

val proto_decodeVarint : bytes -> (z * z) * proto_error option

val proto_decodeLE32 : bytes -> (z * z) * proto_error option

val proto_decodeLE64 : bytes -> (z * z) * proto_error option

val proto_decodeTag : bytes -> ((z * z) * z) * proto_error option

val proto_decodeVarlen : bytes -> (bytes * z) * proto_error option

val proto_flags_has : z -> z -> bool

val proto_flags_with : z -> z -> z

val proto_flags_without : z -> z -> z

val proto_flags_uint64 : z -> z -> z

val proto_flags_int64 : z -> z -> z

type 'a res =
| Ok of 'a
| Panic
| OutOfFuel

val rbind : 'a1 res -> ('a1 -> 'a2 res) -> 'a2 res

val cfrom : bytes -> z -> bytes res

val cslice : bytes -> z -> z -> bytes res

type ptag = { tag_wire : z; tag_number : z; tag_repeated : bool;
              tag_zigzag : bool }

type gty =
| TBool
| TInt
| TInt32
| TInt64
| TUint
| TUint32
| TUint64
| TFloat32
| TFloat64
| TString
| TBytes
| TByteArray of nat
| TPtr of gty
| TStruct of gfield list
| TSlice of gty
| TMap of gty * gty
| TRawMessage
and gfield =
| GField of bool * ptag option * gty

type val0 =
| VBool of bool
| VInt of z
| VStr of bytes
| VBytes of bool * bytes
| VArr of bytes
| VPtr of val0 option
| VStruct of val0 list
| VSlice of val0 list
| VMap of bool * (val0 * val0) list
| VRaw of bool * bytes

type codec =
| CBool
| CInt
| CInt32
| CInt64
| CUint
| CUint32
| CUint64
| CFixed32
| CFixed64
| CFloat32
| CFloat64
| CString
| CBytes
| CByteArray of nat
| CPtr of gty * codec
| CStruct of bool * sfield list
| CSlice of z * z * bool * gty * codec
| CMap of z * z * z * gty * gty * codec * codec
| CMessage
| CUnsupported
and sfield =
| SField of z * z * z * gty * codec

val wire : codec -> z

val base_ty : gty -> gty

val is_struct : gty -> bool

val inlined_ty : gty -> bool

val zero_val : gty -> val0

val pointers_to : gty -> codec -> codec

val codec_of : gty -> codec

val sf_number : sfield -> z

val sf_tagsize : sfield -> z

val sf_flags : sfield -> z

val sf_ty : sfield -> gty

val sf_codec : sfield -> codec

val sf_embedded : sfield -> bool

val sf_repeated : sfield -> bool

val make_flags : sfield -> z -> z

val has : z -> z -> bool

val without : z -> z -> z

val with_ : z -> z -> z

val all_zero : bytes -> bool

val f32_nonzero : z -> bool

val f64_nonzero : z -> bool

val f32_signbit : z -> bool

val f64_signbit : z -> bool

val size_of : codec -> val0 option -> z -> z

type eres = ((z * proto_error option) * bytes) res

val ret : z -> proto_error option -> bytes -> eres

val in_from : bytes -> z -> (bytes -> eres) -> eres

val in_window : bytes -> z -> z -> (bytes -> eres) -> eres

val lift3 : ((z * proto_error option) * bytes) -> eres

val copy_at : bytes -> z -> bytes -> (z * bytes) res

val encode_varlen_bytes : bytes -> bytes -> eres

val encode : codec -> bytes -> val0 option -> z -> eres

type dres = ((z * proto_error option) * val0) res

val dret : z -> proto_error option -> val0 -> dres

val err_overflow : proto_error option

val err_mismatch : proto_error option

val val_eqb : val0 -> val0 -> bool

val map_assign : (val0 * val0) list -> val0 -> val0 -> (val0 * val0) list

val nth_field : sfield list -> val0 list -> z -> (nat * sfield) option

val max_number : sfield list -> z

val set_nth : val0 list -> nat -> val0 -> val0 list

val decode : nat -> codec -> bytes -> val0 -> z -> dres

val top_flags : z

val marshal : gty -> val0 -> bytes option res

val unmarshal : nat -> gty -> bytes -> val0 -> val0 option res

val varint_fuel : nat -> z -> bytes

val varint : z -> bytes

val zigzag : z -> z

val unzigzag : z -> z

val elem_ok : gty -> bool

val type_ok : gty -> bool

val distinct : z list -> bool

val numbers_ok : codec -> bool

val lim : z

val wf_val : gty -> val0 -> bool

val norm : val0 -> val0

type pscalar =
| PInt32
| PInt64
| PUint32
| PUint64
| PSint32
| PSint64
| PBool
| PFixed32
| PFixed64
| PSfixed32
| PSfixed64
| PFloat
| PDouble
| PString
| PBytes

type plabel =
| LOpt
| LRep
| LMap of pscalar

type ptype =
| PSc of pscalar
| PMsg of pfield list
and pfield =
| PField of z * plabel * ptype

val pf_num : pfield -> z

val pf_lab : pfield -> plabel

type pval =
| PVInt of z
| PVBool of bool
| PVBytes of bytes
| PVMsg of fval list
and fval =
| FAbsent
| FOne of pval
| FRep of pval list
| FMapv of (pval * pval) list

val default_scalar : pscalar -> pval

val default_fval : plabel -> fval

val default_msg : pfield list -> fval list

val default_pval : ptype -> pval

val wt_of : pscalar -> z

type wval =
| WVarint of z * z
| WFix64 of z
| WLen of bytes
| WFix32 of z

val get_varint_k : nat -> bytes -> ((z * z) * bytes) option

val get_varint : bytes -> ((z * z) * bytes) option

val le_val : bytes -> z

val max_field_number : z

val get_record : bytes -> ((z * wval) * bytes) option

val parse_records : nat -> bytes -> (z * wval) list option

val records : bytes -> (z * wval) list option

type dialect = { strict_bool : bool; strict_32 : bool; strict_wire : 
                 bool; drop_empty_entry : bool }

val std : dialect

val pkgd : dialect

type 'a res3 =
| Upd of 'a
| Unk
| Bad

val in_i32 : z -> bool

val mismatch : dialect -> 'a1 res3

val dec_scalar : dialect -> pscalar -> wval -> pval res3

val packable : ptype -> pscalar option

val unpack : nat -> dialect -> pscalar -> bytes -> pval list option

val pval_eqb : pval -> pval -> bool

val map_set : (pval * pval) list -> pval -> pval -> (pval * pval) list

val entry_fold :
  dialect -> pscalar -> (wval -> pval option -> pval res3) -> (z * wval) list
  -> pval option -> pval option -> (pval option * pval option) option

val dec_field :
  dialect -> plabel -> ptype -> (wval -> pval option -> pval res3) -> wval ->
  fval -> fval res3

val dec_value : dialect -> ptype -> wval -> pval option -> pval res3

val spec_decode : dialect -> pfield list -> bytes -> fval list option

val enc_scalar : pscalar -> pval -> bytes

val scalar_wf : pscalar -> pval -> bool

val tagv : z -> z -> bytes

val enc_msg : ptype -> pval -> bytes

val spec_encode : pfield list -> fval list -> bytes

val distinct_keys : (pval * pval) list -> bool

val msg_wf : ptype -> pval -> bool

val key_ok : pscalar -> bool

val desc_wf : ptype -> bool

val tag_zz : ptag option -> bool

val tag_fx32 : ptag option -> bool

val tag_fx64 : ptag option -> bool

val scalar_of : gty -> ptag option -> pscalar

val ptype_of : gty -> ptag option -> ptype

val fields_of : gty -> pfield list

val omap : ('a1 -> 'a2 option) -> 'a1 list -> 'a2 list option

val of_pval : gty -> pval -> val0 option

val of_msg : gty -> fval list -> val0 option

val tag_sane : ptag option -> gty -> bool

val tags_sane : gty -> bool

val plain : gty -> bool
