
(** val negb : bool -> bool **)

let negb = function
| true -> false
| false -> true

type nat =
| O
| S of nat

(** val fst : ('a1 * 'a2) -> 'a1 **)

let fst = function
| (x, _) -> x

(** val snd : ('a1 * 'a2) -> 'a2 **)

let snd = function
| (_, y) -> y

(** val length : 'a1 list -> nat **)

let rec length = function
| [] -> O
| _ :: l' -> S (length l')

(** val app : 'a1 list -> 'a1 list -> 'a1 list **)

let rec app l m =
  match l with
  | [] -> m
  | a :: l1 -> a :: (app l1 m)

module Nat =
 struct
  (** val eqb : nat -> nat -> bool **)

  let rec eqb n m =
    match n with
    | O -> (match m with
            | O -> true
            | S _ -> false)
    | S n' -> (match m with
               | O -> false
               | S m' -> eqb n' m')
 end

(** val nth_error : 'a1 list -> nat -> 'a1 option **)

let rec nth_error l = function
| O -> (match l with
        | [] -> None
        | x :: _ -> Some x)
| S n0 -> (match l with
           | [] -> None
           | _ :: l0 -> nth_error l0 n0)

(** val rev : 'a1 list -> 'a1 list **)

let rec rev = function
| [] -> []
| x :: l' -> app (rev l') (x :: [])

(** val map : ('a1 -> 'a2) -> 'a1 list -> 'a2 list **)

let rec map f = function
| [] -> []
| a :: t -> (f a) :: (map f t)

(** val repeat : 'a1 -> nat -> 'a1 list **)

let rec repeat x = function
| O -> []
| S k -> x :: (repeat x k)

type ty = nat

type oid = nat

type mid = nat

type tid = nat

type cobj = { c_ty : ty; c_kids : oid list; c_done : bool; c_owner : 
              tid; c_cid : nat }

type mobj = { m_ents : (ty * oid) list; m_owner : tid }

type loc =
| LC of oid
| LM of mid

type event =
| EvAlloc of tid * loc
| EvRead of tid * loc
| EvWrite of tid * loc
| EvLoad of tid * mid option
| EvStore of tid * mid
| EvLock of tid
| EvUnlock of tid
| EvUse of tid * oid

(** val lookup : ty -> (ty * oid) list -> oid option **)

let rec lookup k = function
| [] -> None
| p :: r -> let (k', v) = p in if Nat.eqb k k' then Some v else lookup k r

(** val remove_key : ty -> (ty * oid) list -> (ty * oid) list **)

let rec remove_key k = function
| [] -> []
| p :: r ->
  let (k', v) = p in
  if Nat.eqb k k' then remove_key k r else (k', v) :: (remove_key k r)

(** val upd : ty -> oid -> (ty * oid) list -> (ty * oid) list **)

let upd k v l =
  (k, v) :: (remove_key k l)

(** val upd_absent : ty -> oid -> (ty * oid) list -> (ty * oid) list **)

let upd_absent k v l =
  match lookup k l with
  | Some _ -> l
  | None -> (k, v) :: l

(** val set_nth : nat -> 'a1 -> 'a1 list -> 'a1 list **)

let rec set_nth n x = function
| [] -> []
| y :: r -> (match n with
             | O -> x :: r
             | S n' -> y :: (set_nth n' x r))

type frame =
| Fr of ty * oid * ty list

type build = { b_cid : nat; b_seen : (ty * oid) list; b_stack : frame list;
               b_roots : ty list; b_built : (ty * oid) list }

type pc =
| PIdle
| PLoaded of ty * mid option
| PWantLock of ty
| PLocked of ty
| PLoaded2 of ty * mid option
| PBuild of ty * mid option * build
| PCopy of ty * mid option * mid * (ty * oid) list * (ty * oid) list
| PUnlock of ty * oid
| PStuck

type thread = { th_pc : pc; th_todo : ty list; th_res : (ty * oid) list }

type state = { s_codecs : cobj list; s_maps : mobj list; s_ptr : mid option;
               s_mutex : tid option; s_threads : thread list; s_ncid : 
               nat; s_pubs : mid list }

(** val ents_of : state -> mid option -> (ty * oid) list **)

let ents_of s = function
| Some i ->
  (match nth_error s.s_maps i with
   | Some mo -> mo.m_ents
   | None -> [])
| None -> []

(** val snap_reads : tid -> mid option -> event list **)

let snap_reads t = function
| Some i -> (EvRead (t, (LM i))) :: []
| None -> []

(** val set_thread : state -> tid -> thread -> state **)

let set_thread s i th =
  { s_codecs = s.s_codecs; s_maps = s.s_maps; s_ptr = s.s_ptr; s_mutex =
    s.s_mutex; s_threads = (set_nth i th s.s_threads); s_ncid = s.s_ncid;
    s_pubs = s.s_pubs }

(** val with_pc : thread -> pc -> thread **)

let with_pc th p =
  { th_pc = p; th_todo = th.th_todo; th_res = th.th_res }

(** val add_kid : cobj list -> oid -> oid -> cobj list **)

let add_kid h o k =
  match nth_error h o with
  | Some ob ->
    set_nth o { c_ty = ob.c_ty; c_kids = (app ob.c_kids (k :: [])); c_done =
      ob.c_done; c_owner = ob.c_owner; c_cid = ob.c_cid } h
  | None -> h

(** val mark_done : cobj list -> oid -> cobj list **)

let mark_done h o =
  match nth_error h o with
  | Some ob ->
    set_nth o { c_ty = ob.c_ty; c_kids = ob.c_kids; c_done = true; c_owner =
      ob.c_owner; c_cid = ob.c_cid } h
  | None -> h

(** val map_insert :
    mobj list -> mid -> ((ty * oid) list -> (ty * oid) list) -> mobj list **)

let map_insert ms m f =
  match nth_error ms m with
  | Some mo -> set_nth m { m_ents = (f mo.m_ents); m_owner = mo.m_owner } ms
  | None -> ms

(** val build_step :
    (ty -> ty list) -> (ty -> bool) -> tid -> cobj list -> build -> (cobj
    list * build) * event list **)

let build_step g memo i h b =
  match b.b_stack with
  | [] ->
    (match b.b_roots with
     | [] -> ((h, b), [])
     | r :: rs ->
       (match if memo r then lookup r b.b_seen else None with
        | Some o ->
          ((h, { b_cid = b.b_cid; b_seen = b.b_seen; b_stack = []; b_roots =
            rs; b_built = ((r, o) :: b.b_built) }), [])
        | None ->
          let o = length h in
          (((app h ({ c_ty = r; c_kids = []; c_done = false; c_owner = i;
              c_cid = b.b_cid } :: [])), { b_cid = b.b_cid; b_seen =
          (if memo r then (r, o) :: b.b_seen else b.b_seen); b_stack = ((Fr
          (r, o, (g r))) :: []); b_roots = rs; b_built = b.b_built }),
          ((EvAlloc (i, (LC o))) :: []))))
  | f :: stk ->
    let Fr (t, o, todo0) = f in
    (match todo0 with
     | [] ->
       let h1 = mark_done h o in
       (match stk with
        | [] ->
          ((h1, { b_cid = b.b_cid; b_seen = b.b_seen; b_stack = []; b_roots =
            b.b_roots; b_built = ((t, o) :: b.b_built) }), ((EvWrite (i, (LC
            o))) :: []))
        | f0 :: stk' ->
          let Fr (tp, op, todo) = f0 in
          (((add_kid h1 op o), { b_cid = b.b_cid; b_seen = b.b_seen;
          b_stack = ((Fr (tp, op, todo)) :: stk'); b_roots = b.b_roots;
          b_built = b.b_built }), ((EvWrite (i, (LC o))) :: ((EvWrite (i, (LC
          op))) :: []))))
     | c :: todo ->
       (match if memo c then lookup c b.b_seen else None with
        | Some oc ->
          (((add_kid h o oc), { b_cid = b.b_cid; b_seen = b.b_seen; b_stack =
            ((Fr (t, o, todo)) :: stk); b_roots = b.b_roots; b_built =
            b.b_built }), ((EvWrite (i, (LC o))) :: []))
        | None ->
          let oc = length h in
          (((app h ({ c_ty = c; c_kids = []; c_done = false; c_owner = i;
              c_cid = b.b_cid } :: [])), { b_cid = b.b_cid; b_seen =
          (if memo c then (c, oc) :: b.b_seen else b.b_seen); b_stack = ((Fr
          (c, oc, (g c))) :: ((Fr (t, o, todo)) :: stk)); b_roots =
          b.b_roots; b_built = b.b_built }), ((EvAlloc (i, (LC oc))) :: []))))

(** val start_build :
    (ty -> ty list) -> state -> tid -> thread -> ty -> mid option -> state **)

let start_build roots s i th t snap =
  let s1 =
    set_thread s i
      (with_pc th (PBuild (t, snap, { b_cid = s.s_ncid; b_seen = [];
        b_stack = []; b_roots = (roots t); b_built = [] })))
  in
  { s_codecs = s1.s_codecs; s_maps = s1.s_maps; s_ptr = s1.s_ptr; s_mutex =
  s1.s_mutex; s_threads = s1.s_threads; s_ncid = (S s.s_ncid); s_pubs =
  s1.s_pubs }

(** val finish_call : thread -> ty -> oid -> thread **)

let finish_call th t o =
  { th_pc = PIdle; th_todo = th.th_todo; th_res = ((t, o) :: th.th_res) }

(** val step :
    (ty -> ty list) -> (ty -> bool) -> (ty -> ty list) -> bool -> tid ->
    state -> state * event list **)

let step g memo roots lk i s =
  match nth_error s.s_threads i with
  | Some th ->
    (match th.th_pc with
     | PIdle ->
       (match th.th_todo with
        | [] -> (s, [])
        | t :: rest ->
          ((set_thread s i { th_pc = (PLoaded (t, s.s_ptr)); th_todo = rest;
             th_res = th.th_res }), ((EvLoad (i, s.s_ptr)) :: [])))
     | PLoaded (t, snap) ->
       (match lookup t (ents_of s snap) with
        | Some o ->
          ((set_thread s i (finish_call th t o)),
            (app (snap_reads i snap) ((EvUse (i, o)) :: [])))
        | None ->
          if lk
          then ((set_thread s i (with_pc th (PWantLock t))),
                 (snap_reads i snap))
          else ((start_build roots s i th t snap), (snap_reads i snap)))
     | PWantLock t ->
       (match s.s_mutex with
        | Some _ -> (s, [])
        | None ->
          let s1 = set_thread s i (with_pc th (PLocked t)) in
          ({ s_codecs = s1.s_codecs; s_maps = s1.s_maps; s_ptr = s1.s_ptr;
          s_mutex = (Some i); s_threads = s1.s_threads; s_ncid = s1.s_ncid;
          s_pubs = s1.s_pubs }, ((EvLock i) :: [])))
     | PLocked t ->
       ((set_thread s i (with_pc th (PLoaded2 (t, s.s_ptr)))), ((EvLoad (i,
         s.s_ptr)) :: []))
     | PLoaded2 (t, snap) ->
       (match lookup t (ents_of s snap) with
        | Some o ->
          ((set_thread s i (with_pc th (PUnlock (t, o)))),
            (snap_reads i snap))
        | None -> ((start_build roots s i th t snap), (snap_reads i snap)))
     | PBuild (t, snap, b) ->
       (match b.b_stack with
        | [] ->
          (match b.b_roots with
           | [] ->
             let nm = length s.s_maps in
             let add =
               if lk
               then app (rev b.b_seen) (rev b.b_built)
               else rev b.b_built
             in
             let s1 =
               set_thread s i
                 (with_pc th (PCopy (t, snap, nm, (ents_of s snap), add)))
             in
             ({ s_codecs = s1.s_codecs; s_maps =
             (app s1.s_maps ({ m_ents = []; m_owner = i } :: [])); s_ptr =
             s1.s_ptr; s_mutex = s1.s_mutex; s_threads = s1.s_threads;
             s_ncid = s1.s_ncid; s_pubs = s1.s_pubs }, ((EvAlloc (i, (LM
             nm))) :: []))
           | _ :: _ ->
             let (p, evs) = build_step g memo i s.s_codecs b in
             let (h, b') = p in
             let s1 = set_thread s i (with_pc th (PBuild (t, snap, b'))) in
             ({ s_codecs = h; s_maps = s1.s_maps; s_ptr = s1.s_ptr; s_mutex =
             s1.s_mutex; s_threads = s1.s_threads; s_ncid = s1.s_ncid;
             s_pubs = s1.s_pubs }, evs))
        | _ :: _ ->
          let (p, evs) = build_step g memo i s.s_codecs b in
          let (h, b') = p in
          let s1 = set_thread s i (with_pc th (PBuild (t, snap, b'))) in
          ({ s_codecs = h; s_maps = s1.s_maps; s_ptr = s1.s_ptr; s_mutex =
          s1.s_mutex; s_threads = s1.s_threads; s_ncid = s1.s_ncid; s_pubs =
          s1.s_pubs }, evs))
     | PCopy (t, snap, nm, src0, add) ->
       (match src0 with
        | [] ->
          (match add with
           | [] ->
             (match lookup t (ents_of s (Some nm)) with
              | Some r ->
                let s1 =
                  set_thread s i
                    (if lk
                     then with_pc th (PUnlock (t, r))
                     else finish_call th t r)
                in
                ({ s_codecs = s1.s_codecs; s_maps = s1.s_maps; s_ptr = (Some
                nm); s_mutex = s1.s_mutex; s_threads = s1.s_threads; s_ncid =
                s1.s_ncid; s_pubs = (nm :: s1.s_pubs) }, ((EvStore (i,
                nm)) :: (if lk then [] else (EvUse (i, r)) :: [])))
              | None -> ((set_thread s i (with_pc th PStuck)), []))
           | e :: add0 ->
             let s1 =
               set_thread s i (with_pc th (PCopy (t, snap, nm, [], add0)))
             in
             ({ s_codecs = s1.s_codecs; s_maps =
             (map_insert s1.s_maps nm
               (if lk then upd_absent (fst e) (snd e) else upd (fst e) (snd e)));
             s_ptr = s1.s_ptr; s_mutex = s1.s_mutex; s_threads =
             s1.s_threads; s_ncid = s1.s_ncid; s_pubs = s1.s_pubs },
             ((EvWrite (i, (LM nm))) :: [])))
        | e :: src ->
          let s1 = set_thread s i (with_pc th (PCopy (t, snap, nm, src, add)))
          in
          ({ s_codecs = s1.s_codecs; s_maps =
          (map_insert s1.s_maps nm (upd (fst e) (snd e))); s_ptr = s1.s_ptr;
          s_mutex = s1.s_mutex; s_threads = s1.s_threads; s_ncid = s1.s_ncid;
          s_pubs = s1.s_pubs },
          (app (snap_reads i snap) ((EvWrite (i, (LM nm))) :: []))))
     | PUnlock (t, r) ->
       let s1 = set_thread s i (finish_call th t r) in
       ({ s_codecs = s1.s_codecs; s_maps = s1.s_maps; s_ptr = s1.s_ptr;
       s_mutex = None; s_threads = s1.s_threads; s_ncid = s1.s_ncid; s_pubs =
       s1.s_pubs }, ((EvUnlock i) :: ((EvUse (i, r)) :: [])))
     | PStuck -> (s, []))
  | None -> (s, [])

(** val run :
    (ty -> ty list) -> (ty -> bool) -> (ty -> ty list) -> bool -> tid list ->
    state -> state **)

let rec run g memo roots lk sched s =
  match sched with
  | [] -> s
  | i :: r -> run g memo roots lk r (fst (step g memo roots lk i s))

(** val init : ty list list -> state **)

let init progs =
  { s_codecs = []; s_maps = []; s_ptr = None; s_mutex = None; s_threads =
    (map (fun p -> { th_pc = PIdle; th_todo = p; th_res = [] }) progs);
    s_ncid = O; s_pubs = [] }

(** val solo :
    (ty -> ty list) -> (ty -> bool) -> (ty -> ty list) -> bool -> ty -> nat
    -> state **)

let solo g memo roots lk t k =
  run g memo roots lk (repeat O k) (init ((t :: []) :: []))

type tree =
| Node of ty * tree list
| Cut
| Bad

(** val unfold : nat -> cobj list -> oid -> tree **)

let rec unfold n h o =
  match n with
  | O -> Cut
  | S n' ->
    (match nth_error h o with
     | Some ob ->
       if ob.c_done
       then Node (ob.c_ty, (map (unfold n' h) ob.c_kids))
       else Bad
     | None -> Bad)

(** val run_until_idle :
    (ty -> ty list) -> (ty -> bool) -> (ty -> ty list) -> bool -> nat ->
    state -> state **)

let rec run_until_idle g memo roots lk fuel s =
  match fuel with
  | O -> s
  | S f ->
    let s1 = fst (step g memo roots lk O s) in
    (match nth_error s1.s_threads O with
     | Some th ->
       (match th.th_pc with
        | PIdle -> s1
        | _ -> run_until_idle g memo roots lk f s1)
     | None -> s1)

(** val seq_hist :
    (ty -> ty list) -> (ty -> bool) -> (ty -> ty list) -> bool -> nat -> ty
    list -> state -> (bool * nat) list **)

let rec seq_hist g memo roots lk fuel hist s =
  match hist with
  | [] -> []
  | t :: r ->
    let s0 =
      set_thread s O { th_pc = PIdle; th_todo = (t :: []); th_res = [] }
    in
    let s1 = run_until_idle g memo roots lk fuel s0 in
    let miss =
      match s.s_ptr with
      | Some a ->
        (match s1.s_ptr with
         | Some b -> negb (Nat.eqb a b)
         | None -> true)
      | None -> (match s1.s_ptr with
                 | Some _ -> true
                 | None -> false)
    in
    (miss,
    (length (ents_of s1 s1.s_ptr))) :: (seq_hist g memo roots lk fuel r s1)

(** val seq_obs :
    (ty -> ty list) -> (ty -> bool) -> (ty -> ty list) -> bool -> nat -> ty
    list -> (bool * nat) list **)

let seq_obs g memo roots lk fuel hist =
  seq_hist g memo roots lk fuel hist (init ([] :: []))

(** val spec_tree : (ty -> ty list) -> nat -> ty -> tree **)

let rec spec_tree g n t =
  match n with
  | O -> Cut
  | S n' -> Node (t, (map (spec_tree g n') (g t)))

(** val roots_one : ty -> ty list **)

let roots_one t =
  t :: []

(** val roots_pair : (ty -> ty) -> (ty -> ty) -> ty -> ty list **)

let roots_pair base_of ptr_of t =
  (base_of t) :: ((ptr_of (base_of t)) :: [])

type pobj = nat

type ptid = nat

type action =
| AGet
| AUse of nat
| APut of nat
| APutKeep of nat

type pthread = { p_prog : action list; p_held : pobj list }

type pstate = { ps_pool : pobj list; ps_next : pobj; ps_threads : pthread list }

type pevent =
| PvGet of ptid * pobj * bool
| PvUse of ptid * pobj
| PvPut of ptid * pobj

type sentry =
| SRun of ptid * nat option
| SDrop of nat

(** val remove_nth : nat -> 'a1 list -> 'a1 list **)

let rec remove_nth n = function
| [] -> []
| x :: r -> (match n with
             | O -> r
             | S n' -> x :: (remove_nth n' r))

(** val pset_nth : nat -> 'a1 -> 'a1 list -> 'a1 list **)

let rec pset_nth n x = function
| [] -> []
| y :: r -> (match n with
             | O -> x :: r
             | S n' -> y :: (pset_nth n' x r))

(** val pstep : sentry -> pstate -> pstate * pevent list **)

let pstep e s =
  match e with
  | SRun (i, choice) ->
    (match nth_error s.ps_threads i with
     | Some th ->
       (match th.p_prog with
        | [] -> (s, [])
        | a :: rest ->
          (match a with
           | AGet ->
             (match match choice with
                    | Some k -> nth_error s.ps_pool k
                    | None -> None with
              | Some o ->
                (match choice with
                 | Some k ->
                   ({ ps_pool = (remove_nth k s.ps_pool); ps_next =
                     s.ps_next; ps_threads =
                     (pset_nth i { p_prog = rest; p_held = (o :: th.p_held) }
                       s.ps_threads) }, ((PvGet (i, o, false)) :: []))
                 | None ->
                   let o0 = s.ps_next in
                   ({ ps_pool = s.ps_pool; ps_next = (S o0); ps_threads =
                   (pset_nth i { p_prog = rest; p_held = (o0 :: th.p_held) }
                     s.ps_threads) }, ((PvGet (i, o0, true)) :: [])))
              | None ->
                let o = s.ps_next in
                ({ ps_pool = s.ps_pool; ps_next = (S o); ps_threads =
                (pset_nth i { p_prog = rest; p_held = (o :: th.p_held) }
                  s.ps_threads) }, ((PvGet (i, o, true)) :: [])))
           | AUse k ->
             ({ ps_pool = s.ps_pool; ps_next = s.ps_next; ps_threads =
               (pset_nth i { p_prog = rest; p_held = th.p_held } s.ps_threads) },
               (match nth_error th.p_held k with
                | Some o -> (PvUse (i, o)) :: []
                | None -> []))
           | APut k ->
             (match nth_error th.p_held k with
              | Some o ->
                ({ ps_pool = (o :: s.ps_pool); ps_next = s.ps_next;
                  ps_threads =
                  (pset_nth i { p_prog = rest; p_held =
                    (remove_nth k th.p_held) } s.ps_threads) }, ((PvPut (i,
                  o)) :: []))
              | None ->
                ({ ps_pool = s.ps_pool; ps_next = s.ps_next; ps_threads =
                  (pset_nth i { p_prog = rest; p_held = th.p_held }
                    s.ps_threads) }, []))
           | APutKeep k ->
             (match nth_error th.p_held k with
              | Some o ->
                ({ ps_pool = (o :: s.ps_pool); ps_next = s.ps_next;
                  ps_threads =
                  (pset_nth i { p_prog = rest; p_held = th.p_held }
                    s.ps_threads) }, ((PvPut (i, o)) :: []))
              | None ->
                ({ ps_pool = s.ps_pool; ps_next = s.ps_next; ps_threads =
                  (pset_nth i { p_prog = rest; p_held = th.p_held }
                    s.ps_threads) }, []))))
     | None -> (s, []))
  | SDrop k ->
    ({ ps_pool = (remove_nth k s.ps_pool); ps_next = s.ps_next; ps_threads =
      s.ps_threads }, [])

(** val prun : sentry list -> pstate -> pstate **)

let rec prun sched s =
  match sched with
  | [] -> s
  | e :: r -> prun r (fst (pstep e s))

(** val pinit : action list list -> pstate **)

let pinit progs =
  { ps_pool = []; ps_next = O; ps_threads =
    (map (fun p -> { p_prog = p; p_held = [] }) progs) }
