// Command gen is the translator of the verification framework: it reads the CURRENT working
// tree of segmentio/encoding with go/parser + go/types and regenerates coq/Generated/*.v:
// Gallina definitions of the package constants, lookup tables and of a configured set of
// first-order functions (straight-line code, if/switch, range loops, fuel-bounded for loops
// over machine integers, booleans and byte slices). The hand-written models import these
// definitions, so the theorems are re-checked against what the code says now.
//
// The translator never guesses: any statement or expression form it does not know makes it
// fail with the source position, and the check reports that.
package main

import (
	"encoding/json"
	"flag"
	"fmt"
	"go/ast"
	"go/build"
	"go/constant"
	"go/importer"
	"go/parser"
	"go/token"
	"go/types"
	"os"
	"path/filepath"
	"sort"
	"strings"
)

// Unit describes one generated Coq file.
type Unit struct {
	Out      string            `json:"out"`      // file name under the output directory
	Dir      string            `json:"dir"`      // package directory relative to the repo root (or absolute)
	Prefix   string            `json:"prefix"`   // Coq name prefix for package-level objects
	Imports  []string          `json:"imports"`  // Coq Require lines (after Base.GoInt)
	Consts   []string          `json:"consts"`   // package-level constants to emit ("*" = all integer constants)
	Tables   []string          `json:"tables"`   // package-level integer array/slice variables to emit
	Errors   bool              `json:"errors"`   // emit an inductive of the package-level errors.New variables
	ErrType  string            `json:"errtype"`  // Coq type for Go's error (default option <prefix>_error when Errors)
	Funcs    []string          `json:"funcs"`    // functions to translate ("Recv.Method" for methods)
	Extern   map[string]string `json:"extern"`   // Go expression spelling -> Coq term (for calls / values outside the subset)
	Tags     []string          `json:"tags"`     // build tags
	TypeMap  map[string]string `json:"typemap"`  // Go type spelling -> Coq type, for types outside the subset
	Dispatch []string          `json:"dispatch"` // functions whose `switch x.Kind()`-style dispatch is emitted as a table
}

var (
	repo   = flag.String("repo", "/repo", "repository root")
	outDir = flag.String("out", "", "output directory")
	cfg    = flag.String("config", "", "configuration file (JSON list of units)")
)

func main() {
	flag.Parse()
	data, err := os.ReadFile(*cfg)
	if err != nil {
		fatal("%v", err)
	}
	var units []Unit
	if err := json.Unmarshal(data, &units); err != nil {
		fatal("config: %v", err)
	}
	changed := 0
	failed := 0
	for _, u := range units {
		text, err := translateUnit(u)
		if err != nil {
			// the other units are still regenerated: a check whose theorems do not depend on this unit is not concerned
			// (the stale file of the refused unit is left alone; every check that depends on it reports the refusal)
			fmt.Printf("gen: REFUSED %s: %v\n", u.Out, err)
			failed++
			continue
		}
		path := filepath.Join(*outDir, u.Out)
		old, _ := os.ReadFile(path)
		if string(old) != text {
			if err := os.WriteFile(path, []byte(text), 0o644); err != nil {
				fatal("%v", err)
			}
			changed++
			fmt.Printf("gen: wrote %s\n", path)
		}
	}
	fmt.Printf("gen: %d unit(s), %d changed, %d refused\n", len(units), changed, failed)
	if failed > 0 {
		os.Exit(3)
	}
}

func fatal(f string, a ...interface{}) {
	fmt.Fprintf(os.Stderr, "gen: "+f+"\n", a...)
	os.Exit(2)
}

// ---------------------------------------------------------------------------------------------

type tr struct {
	u     Unit
	fset  *token.FileSet
	info  *types.Info
	pkg   *types.Package
	files []*ast.File
	funcs map[string]*ast.FuncDecl // key: "name" or "Recv.name"
	want  map[string]bool
	// per function state
	names      map[types.Object]string
	used       map[string]bool
	fuelFns    map[string]bool  // functions that need fuel (contain a general for loop, directly or through calls)
	mutates    map[string][]int // function key -> indices of slice parameters written through
	cur        string
	labels     map[string]string // goto targets bound as local continuations (per function)
	recGroup   map[string]bool   // functions emitted inside a recursive Fixpoint group
	gotoLabels map[string]bool   // labels that are targets of a goto in the current function
	knum       int
	errs       []string
}

type unsupported struct{ msg string }

func (t *tr) fail(n ast.Node, f string, a ...interface{}) {
	pos := t.fset.Position(n.Pos())
	panic(unsupported{fmt.Sprintf("%s:%d: %s", filepath.Base(pos.Filename), pos.Line, fmt.Sprintf(f, a...))})
}

func translateUnit(u Unit) (text string, err error) {
	dir := u.Dir
	if !filepath.IsAbs(dir) {
		dir = filepath.Join(*repo, dir)
	}
	fset := token.NewFileSet()
	ctx := build.Default
	ctx.BuildTags = append(ctx.BuildTags, u.Tags...)
	ents, e := os.ReadDir(dir)
	if e != nil {
		return "", e
	}
	var files []*ast.File
	for _, ent := range ents {
		name := ent.Name()
		if !strings.HasSuffix(name, ".go") || strings.HasSuffix(name, "_test.go") {
			continue
		}
		if ok, _ := ctx.MatchFile(dir, name); !ok {
			continue
		}
		f, e := parser.ParseFile(fset, filepath.Join(dir, name), nil, parser.ParseComments)
		if e != nil {
			return "", e
		}
		files = append(files, f)
	}
	wd, _ := os.Getwd()
	os.Chdir(dir)
	defer os.Chdir(wd)
	var terrs []string
	conf := types.Config{Importer: importer.ForCompiler(fset, "source", nil), Error: func(err error) { terrs = append(terrs, err.Error()) }}
	info := &types.Info{Types: map[ast.Expr]types.TypeAndValue{}, Defs: map[*ast.Ident]types.Object{}, Uses: map[*ast.Ident]types.Object{}, Selections: map[*ast.SelectorExpr]*types.Selection{}}
	pkg, _ := conf.Check(u.Prefix, fset, files, info)
	if len(terrs) > 0 {
		return "", fmt.Errorf("type errors: %s", strings.Join(terrs, "; "))
	}
	t := &tr{u: u, fset: fset, info: info, pkg: pkg, files: files, funcs: map[string]*ast.FuncDecl{}, want: map[string]bool{}, fuelFns: map[string]bool{}, mutates: map[string][]int{}}
	for _, f := range files {
		for _, d := range f.Decls {
			if fd, ok := d.(*ast.FuncDecl); ok && fd.Body != nil {
				t.funcs[funcKey(fd)] = fd
			}
		}
	}
	defer func() {
		if r := recover(); r != nil {
			if us, ok := r.(unsupported); ok {
				err = fmt.Errorf("unsupported source shape: %s", us.msg)
				return
			}
			panic(r)
		}
	}()
	var b strings.Builder
	fmt.Fprintf(&b, "(* GENERATED by /verif/gen from %s -- do not edit; regenerated on every run. *)\n", u.Dir)
	b.WriteString("From Verif Require Import Base.GoInt.\n")
	for _, im := range u.Imports {
		fmt.Fprintf(&b, "%s\n", im)
	}
	b.WriteString("Open Scope Z_scope.\n\n")
	t.emitConsts(&b)
	t.emitErrors(&b)
	t.emitTables(&b)
	t.emitDispatch(&b)
	t.emitFuncs(&b)
	return b.String(), nil
}

func funcKey(fd *ast.FuncDecl) string {
	if fd.Recv != nil && len(fd.Recv.List) == 1 {
		ty := fd.Recv.List[0].Type
		if st, ok := ty.(*ast.StarExpr); ok {
			ty = st.X
		}
		if id, ok := ty.(*ast.Ident); ok {
			return id.Name + "." + fd.Name.Name
		}
	}
	return fd.Name.Name
}

// ---------------------------------------------------------------------------------------------
// constants, errors, tables

func (t *tr) cname(name string) string { return t.u.Prefix + "_" + strings.ReplaceAll(name, ".", "_") }

func zlit(v constant.Value) (string, bool) {
	switch v.Kind() {
	case constant.Int:
		s := v.ExactString()
		if strings.HasPrefix(s, "-") {
			return "(" + s + ")", true
		}
		return s, true
	case constant.Bool:
		if constant.BoolVal(v) {
			return "true", true
		}
		return "false", true
	case constant.String:
		return bytesLit(constant.StringVal(v)), true
	case constant.Float:
		if iv := constant.ToInt(v); iv.Kind() == constant.Int {
			return zlit(iv)
		}
	}
	return "", false
}

func bytesLit(s string) string {
	var parts []string
	for i := 0; i < len(s); i++ {
		parts = append(parts, fmt.Sprint(s[i]))
	}
	return "[" + strings.Join(parts, "; ") + "]"
}

func (t *tr) emitConsts(b *strings.Builder) {
	all := false
	wanted := map[string]bool{}
	for _, c := range t.u.Consts {
		if c == "*" {
			all = true
		}
		wanted[c] = true
	}
	if !all && len(wanted) == 0 {
		return
	}
	scope := t.pkg.Scope()
	names := scope.Names()
	// keep source order for readability
	type ent struct {
		name string
		pos  token.Pos
	}
	var list []ent
	for _, n := range names {
		if c, ok := scope.Lookup(n).(*types.Const); ok && (all || wanted[n]) {
			list = append(list, ent{n, c.Pos()})
		}
	}
	sort.Slice(list, func(i, j int) bool { return list[i].pos < list[j].pos })
	for _, e := range list {
		c := scope.Lookup(e.name).(*types.Const)
		lit, ok := zlit(c.Val())
		if !ok {
			continue
		}
		ty := "Z"
		switch c.Val().Kind() {
		case constant.Bool:
			ty = "bool"
		case constant.String:
			ty = "bytes"
		}
		fmt.Fprintf(b, "Definition %s : %s := %s.\n", t.cname(e.name), ty, lit)
		delete(wanted, e.name)
	}
	delete(wanted, "*")
	for w := range wanted {
		panic(unsupported{"constant " + w + " not found"})
	}
	b.WriteString("\n")
}

func (t *tr) errorVars() []string {
	var out []string
	type ent struct {
		name string
		pos  token.Pos
	}
	var list []ent
	for _, f := range t.files {
		for _, d := range f.Decls {
			gd, ok := d.(*ast.GenDecl)
			if !ok || gd.Tok != token.VAR {
				continue
			}
			for _, s := range gd.Specs {
				vs := s.(*ast.ValueSpec)
				for i, n := range vs.Names {
					if i < len(vs.Values) {
						if call, ok := vs.Values[i].(*ast.CallExpr); ok {
							if sel, ok := call.Fun.(*ast.SelectorExpr); ok {
								if x, ok := sel.X.(*ast.Ident); ok && x.Name == "errors" && sel.Sel.Name == "New" {
									list = append(list, ent{n.Name, n.Pos()})
								}
							}
						}
					}
				}
			}
		}
	}
	sort.Slice(list, func(i, j int) bool { return list[i].pos < list[j].pos })
	for _, e := range list {
		out = append(out, e.name)
	}
	return out
}

func (t *tr) emitErrors(b *strings.Builder) {
	if !t.u.Errors {
		return
	}
	evs := t.errorVars()
	fmt.Fprintf(b, "Inductive %s : Set :=\n", t.cname("error"))
	for _, e := range evs {
		fmt.Fprintf(b, "  | %s\n", t.cname(e))
	}
	for _, e := range sortedKeys(t.u.Extern) {
		if strings.HasPrefix(e, "err:") {
			fmt.Fprintf(b, "  | %s\n", t.u.Extern[e])
		}
	}
	b.WriteString(".\n\n")
}

func sortedKeys(m map[string]string) []string {
	var ks []string
	for k := range m {
		ks = append(ks, k)
	}
	sort.Strings(ks)
	return ks
}

func (t *tr) emitTables(b *strings.Builder) {
	for _, name := range t.u.Tables {
		var found bool
		for _, f := range t.files {
			for _, d := range f.Decls {
				gd, ok := d.(*ast.GenDecl)
				if !ok || (gd.Tok != token.VAR && gd.Tok != token.CONST) {
					continue
				}
				for _, s := range gd.Specs {
					vs := s.(*ast.ValueSpec)
					for i, n := range vs.Names {
						if n.Name != name || i >= len(vs.Values) {
							continue
						}
						found = true
						if tv, ok := t.info.Types[vs.Values[i]]; ok && tv.Value != nil && tv.Value.Kind() == constant.String {
							fmt.Fprintf(b, "Definition %s : bytes := %s.\n\n", t.cname(name), bytesLit(constant.StringVal(tv.Value)))
							continue
						}
						cl, ok := vs.Values[i].(*ast.CompositeLit)
						if !ok {
							t.fail(vs, "table %s is not a composite literal", name)
						}
						vals := t.tableValues(cl)
						fmt.Fprintf(b, "Definition %s : list Z :=\n  [%s].\n\n", t.cname(name), wrapJoin(vals, "; ", 100))
					}
				}
			}
		}
		if !found {
			panic(unsupported{"table " + name + " not found"})
		}
	}
}

func wrapJoin(vals []string, sep string, width int) string {
	var b strings.Builder
	line := 0
	for i, v := range vals {
		if i > 0 {
			b.WriteString(sep)
			line += len(sep)
		}
		if line+len(v) > width {
			b.WriteString("\n   ")
			line = 0
		}
		b.WriteString(v)
		line += len(v)
	}
	return b.String()
}

// tableValues evaluates an array/slice literal of integer constants, honouring index keys.
func (t *tr) tableValues(cl *ast.CompositeLit) []string {
	idx := int64(0)
	m := map[int64]string{}
	max := int64(-1)
	for _, el := range cl.Elts {
		v := el
		if kv, ok := el.(*ast.KeyValueExpr); ok {
			ktv := t.info.Types[kv.Key]
			if ktv.Value == nil {
				t.fail(kv, "non-constant table key")
			}
			k, _ := constant.Int64Val(constant.ToInt(ktv.Value))
			idx = k
			v = kv.Value
		}
		tv := t.info.Types[v]
		if tv.Value == nil {
			t.fail(v, "non-constant table element")
		}
		lit, ok := zlit(tv.Value)
		if !ok {
			t.fail(v, "table element is not an integer")
		}
		m[idx] = lit
		if idx > max {
			max = idx
		}
		idx++
	}
	// array types may be longer than the highest key
	if at, ok := t.info.TypeOf(cl).Underlying().(*types.Array); ok && at.Len()-1 > max {
		max = at.Len() - 1
	}
	out := make([]string, max+1)
	for i := range out {
		if s, ok := m[int64(i)]; ok {
			out[i] = s
		} else {
			out[i] = "0"
		}
	}
	return out
}

// emitDispatch emits, for a function whose body contains `switch <expr> { case K1, K2: ... }`
// statements over named constants, the list of (case constants -> first identifier called in the
// clause) as an association list of strings. It is a structural fingerprint of a dispatch table:
// models quote the expected table and a proof by reflexivity ties them.
func (t *tr) emitDispatch(b *strings.Builder) {
	if len(t.u.Dispatch) == 0 {
		return
	}
	b.WriteString("From Coq Require Import String.\nOpen Scope string_scope.\n")
	for _, key := range t.u.Dispatch {
		fd := t.funcs[key]
		if fd == nil {
			panic(unsupported{"dispatch function " + key + " not found"})
		}
		var rows []string
		ast.Inspect(fd.Body, func(n ast.Node) bool {
			sw, ok := n.(*ast.SwitchStmt)
			if !ok {
				return true
			}
			for _, c := range sw.Body.List {
				cc := c.(*ast.CaseClause)
				var labels []string
				for _, e := range cc.List {
					labels = append(labels, "\""+exprString(e)+"\"")
				}
				if cc.List == nil {
					labels = []string{"\"default\""}
				}
				var calls []string
				for _, s := range cc.Body {
					ast.Inspect(s, func(m ast.Node) bool {
						if _, ok := m.(*ast.SwitchStmt); ok {
							return false
						}
						if ce, ok := m.(*ast.CallExpr); ok {
							calls = append(calls, "\""+exprString(ce.Fun)+"\"")
						}
						if id, ok := m.(*ast.Ident); ok {
							if _, isFn := t.info.Uses[id].(*types.Func); isFn {
								calls = append(calls, "\""+id.Name+"\"")
							}
						}
						return true
					})
				}
				calls = dedup(calls)
				rows = append(rows, fmt.Sprintf("([%s], [%s])", strings.Join(labels, "; "), strings.Join(calls, "; ")))
			}
			return true
		})
		fmt.Fprintf(b, "Definition %s_dispatch : list (list string * list string) :=\n  [ %s ].\n\n", t.cname(key), strings.Join(rows, ";\n    "))
	}
	b.WriteString("Close Scope string_scope.\n\n")
}

func dedup(xs []string) []string {
	seen := map[string]bool{}
	var out []string
	for _, x := range xs {
		if !seen[x] {
			seen[x] = true
			out = append(out, x)
		}
	}
	return out
}

func exprString(e ast.Expr) string {
	switch x := e.(type) {
	case *ast.Ident:
		return x.Name
	case *ast.SelectorExpr:
		return exprString(x.X) + "." + x.Sel.Name
	case *ast.CallExpr:
		var as []string
		for _, a := range x.Args {
			as = append(as, exprString(a))
		}
		return exprString(x.Fun) + "(" + strings.Join(as, ",") + ")"
	case *ast.BasicLit:
		return x.Value
	case *ast.StarExpr:
		return "*" + exprString(x.X)
	case *ast.ParenExpr:
		return "(" + exprString(x.X) + ")"
	case *ast.UnaryExpr:
		return x.Op.String() + exprString(x.X)
	case *ast.BinaryExpr:
		return exprString(x.X) + x.Op.String() + exprString(x.Y)
	case *ast.IndexExpr:
		return exprString(x.X) + "[" + exprString(x.Index) + "]"
	case *ast.CompositeLit:
		return exprString(x.Type) + "{}"
	case *ast.ArrayType:
		return "[]" + exprString(x.Elt)
	case *ast.FuncLit:
		return "func"
	case *ast.TypeAssertExpr:
		return exprString(x.X) + ".(type)"
	case *ast.SliceExpr:
		return exprString(x.X) + "[:]"
	case *ast.KeyValueExpr:
		return exprString(x.Key) + ":" + exprString(x.Value)
	case *ast.MapType:
		return "map"
	case *ast.InterfaceType:
		return "interface"
	case nil:
		return ""
	}
	return fmt.Sprintf("%T", e)
}
