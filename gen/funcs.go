package main

import (
	"fmt"
	"go/ast"
	"go/constant"
	"go/token"
	"go/types"
	"sort"
	"strings"
)

// ---------------------------------------------------------------------------------------------
// types

func (t *tr) coqType(ty types.Type) string {
	if s, ok := t.u.TypeMap[ty.String()]; ok {
		return s
	}
	if tup, ok := ty.(*types.Tuple); ok {
		var parts []string
		for i := 0; i < tup.Len(); i++ {
			parts = append(parts, t.coqType(tup.At(i).Type()))
		}
		if len(parts) == 1 {
			return parts[0]
		}
		return "(" + strings.Join(parts, " * ") + ")"
	}
	if isError(ty) {
		return t.errType()
	}
	switch u := ty.Underlying().(type) {
	case *types.Basic:
		switch {
		case u.Info()&types.IsInteger != 0:
			return "Z"
		case u.Info()&types.IsBoolean != 0:
			return "bool"
		case u.Info()&types.IsString != 0:
			return "bytes"
		}
	case *types.Slice:
		if b, ok := u.Elem().Underlying().(*types.Basic); ok && b.Info()&types.IsInteger != 0 {
			if b.Kind() == types.Uint8 {
				return "bytes"
			}
			return "(list Z)"
		}
	case *types.Array:
		if b, ok := u.Elem().Underlying().(*types.Basic); ok && b.Info()&types.IsInteger != 0 {
			return "(list Z)"
		}
	}
	panic(unsupported{"type " + ty.String() + " is outside the translated subset"})
}

func (t *tr) errType() string {
	if t.u.ErrType != "" {
		return t.u.ErrType
	}
	return "(option " + t.cname("error") + ")"
}

func isError(ty types.Type) bool {
	return ty.String() == "error"
}

// intKind returns the operator suffix, signedness and width of an integer type.
func intKind(ty types.Type) (sfx string, signed bool, bits int, ok bool) {
	b, isb := ty.Underlying().(*types.Basic)
	if !isb {
		return "", false, 0, false
	}
	switch b.Kind() {
	case types.Uint64, types.Uint, types.Uintptr:
		return "64", false, 64, true
	case types.Uint32:
		return "32", false, 32, true
	case types.Uint16:
		return "16", false, 16, true
	case types.Uint8:
		return "8", false, 8, true
	case types.Int64, types.Int:
		return "i64", true, 64, true
	case types.Int32:
		return "i32", true, 32, true
	case types.Int16:
		return "i16", true, 16, true
	case types.Int8:
		return "i8", true, 8, true
	case types.UntypedInt, types.UntypedRune:
		return "i64", true, 64, true
	}
	return "", false, 0, false
}

func isBytes(ty types.Type) bool {
	switch u := ty.Underlying().(type) {
	case *types.Basic:
		return u.Info()&types.IsString != 0
	case *types.Slice:
		b, ok := u.Elem().Underlying().(*types.Basic)
		return ok && b.Kind() == types.Uint8
	}
	return false
}

func isBool(ty types.Type) bool {
	b, ok := ty.Underlying().(*types.Basic)
	return ok && b.Info()&types.IsBoolean != 0
}

func (t *tr) zero(ty types.Type) string {
	switch t.coqType(ty) {
	case "Z":
		return "0"
	case "bool":
		return "false"
	case "bytes", "(list Z)":
		return "[]"
	}
	if isError(ty) {
		return "None"
	}
	if z, ok := t.u.Extern["zero:"+ty.String()]; ok {
		return z
	}
	panic(unsupported{"no zero value known for " + ty.String()})
}

// ---------------------------------------------------------------------------------------------
// naming

var reserved = map[string]bool{
	"len": true, "at_": true, "nth": true, "slice": true, "fst": true, "snd": true, "at": true, "in": true,
	"end": true, "match": true, "fix": true, "fun": true, "let": true, "if": true, "then": true, "else": true,
	"as": true, "return": true, "Type": true, "Set": true, "Prop": true, "with": true, "for": true, "forall": true,
	"exists": true, "where": true, "using": true, "mod": true, "fuel": true, "bytes": true, "length": true,
	"map": true, "app": true, "rev": true, "error": true, "option": true, "list": true, "bool": true, "nat": true,
	"Z": true, "N": true, "S": true, "O": true, "I": true, "b2z": true, "true": true, "false": true, "None": true, "Some": true,
	"w8": true, "w16": true, "w32": true, "w64": true, "s8": true, "s16": true, "s32": true, "s64": true, "splice": true, "upd": true,
}

func (t *tr) varName(obj types.Object) string {
	if n, ok := t.names[obj]; ok {
		return n
	}
	base := obj.Name()
	if base == "_" {
		return "_"
	}
	if reserved[base] {
		base += "_"
	}
	n := base
	for i := 1; t.used[n]; i++ {
		n = fmt.Sprintf("%s_%d", base, i)
	}
	t.used[n] = true
	t.names[obj] = n
	return n
}

func (t *tr) fresh(base string) string {
	t.knum++
	return fmt.Sprintf("%s%d_", base, t.knum)
}

// ---------------------------------------------------------------------------------------------
// function set analysis

func (t *tr) emitFuncs(b *strings.Builder) {
	for _, f := range t.u.Funcs {
		if t.funcs[f] == nil {
			panic(unsupported{"function " + f + " not found in " + t.u.Dir})
		}
		t.want[f] = true
	}
	// call graph among wanted functions
	calls := map[string][]string{}
	for f := range t.want {
		fd := t.funcs[f]
		ast.Inspect(fd.Body, func(n ast.Node) bool {
			if ce, ok := n.(*ast.CallExpr); ok {
				if k := t.calleeKey(ce); k != "" && t.want[k] {
					calls[f] = append(calls[f], k)
				}
			}
			return true
		})
	}
	// fuel: a general (non-range) for loop, or a call to such a function
	for f := range t.want {
		ast.Inspect(t.funcs[f].Body, func(n ast.Node) bool {
			if _, ok := n.(*ast.ForStmt); ok {
				t.fuelFns[f] = true
			}
			return true
		})
	}
	for changed := true; changed; {
		changed = false
		for f, cs := range calls {
			for _, c := range cs {
				if t.fuelFns[c] && !t.fuelFns[f] {
					t.fuelFns[f] = true
					changed = true
				}
			}
		}
	}
	// mutated slice parameters
	for f := range t.want {
		t.mutates[f] = t.directMutations(t.funcs[f])
	}
	for changed := true; changed; {
		changed = false
		for f := range t.want {
			fd := t.funcs[f]
			params := paramObjs(t, fd)
			ast.Inspect(fd.Body, func(n ast.Node) bool {
				ce, ok := n.(*ast.CallExpr)
				if !ok {
					return true
				}
				k := t.calleeKey(ce)
				if k == "" || !t.want[k] {
					return true
				}
				for _, mi := range t.mutates[k] {
					if mi < len(ce.Args) {
						if root := rootIdent(ce.Args[mi]); root != nil {
							for pi, p := range params {
								if t.info.Uses[root] == p && !containsInt(t.mutates[f], pi) {
									t.mutates[f] = append(t.mutates[f], pi)
									sort.Ints(t.mutates[f])
									changed = true
								}
							}
						}
					}
				}
				return true
			})
		}
	}
	// strongly connected components of the call graph (Tarjan); a recursive component is emitted as
	// one mutual Fixpoint on fuel, callees first otherwise
	index := 0
	idx := map[string]int{}
	low := map[string]int{}
	onStack := map[string]bool{}
	var stack []string
	var comps [][]string
	var strong func(f string)
	strong = func(f string) {
		index++
		idx[f], low[f] = index, index
		stack = append(stack, f)
		onStack[f] = true
		cs := append([]string(nil), calls[f]...)
		sort.Strings(cs)
		for _, c := range cs {
			if idx[c] == 0 {
				strong(c)
				if low[c] < low[f] {
					low[f] = low[c]
				}
			} else if onStack[c] && idx[c] < low[f] {
				low[f] = idx[c]
			}
		}
		if low[f] == idx[f] {
			var comp []string
			for {
				n := stack[len(stack)-1]
				stack = stack[:len(stack)-1]
				onStack[n] = false
				comp = append(comp, n)
				if n == f {
					break
				}
			}
			sort.Strings(comp)
			comps = append(comps, comp)
		}
	}
	for _, f := range t.u.Funcs {
		if idx[f] == 0 {
			strong(f)
		}
	}
	t.recGroup = map[string]bool{}
	for _, comp := range comps {
		rec := len(comp) > 1
		if !rec {
			for _, c := range calls[comp[0]] {
				if c == comp[0] {
					rec = true
				}
			}
		}
		if rec {
			for _, f := range comp {
				t.recGroup[f] = true
				t.fuelFns[f] = true
			}
		}
	}
	// recursion makes callers fuel functions too
	for changed := true; changed; {
		changed = false
		for f, cs := range calls {
			for _, c := range cs {
				if t.fuelFns[c] && !t.fuelFns[f] {
					t.fuelFns[f] = true
					changed = true
				}
			}
		}
	}
	for _, comp := range comps {
		if t.recGroup[comp[0]] {
			t.emitRecGroup(b, comp)
			continue
		}
		t.emitFunc(b, comp[0])
	}
}

func containsInt(xs []int, x int) bool {
	for _, y := range xs {
		if y == x {
			return true
		}
	}
	return false
}

func paramObjs(t *tr, fd *ast.FuncDecl) []types.Object {
	var out []types.Object
	for _, fl := range fd.Type.Params.List {
		for _, n := range fl.Names {
			out = append(out, t.info.Defs[n])
		}
	}
	return out
}

func rootIdent(e ast.Expr) *ast.Ident {
	switch x := e.(type) {
	case *ast.Ident:
		return x
	case *ast.SliceExpr:
		return rootIdent(x.X)
	case *ast.ParenExpr:
		return rootIdent(x.X)
	}
	return nil
}

func (t *tr) directMutations(fd *ast.FuncDecl) []int {
	params := paramObjs(t, fd)
	var out []int
	mark := func(e ast.Expr) {
		if root := rootIdent(e); root != nil {
			for i, p := range params {
				if t.info.Uses[root] == p && isBytes(p.Type()) && !containsInt(out, i) {
					out = append(out, i)
				}
			}
		}
	}
	ast.Inspect(fd.Body, func(n ast.Node) bool {
		switch s := n.(type) {
		case *ast.AssignStmt:
			for _, l := range s.Lhs {
				if ix, ok := l.(*ast.IndexExpr); ok {
					mark(ix.X)
				}
			}
		case *ast.CallExpr:
			if id, ok := s.Fun.(*ast.Ident); ok && id.Name == "copy" && len(s.Args) == 2 {
				mark(s.Args[0])
			}
			if _, ok := t.u.Extern["mut:"+exprString(s.Fun)]; ok && len(s.Args) > 0 {
				mark(s.Args[0])
			}
		}
		return true
	})
	sort.Ints(out)
	return out
}

// calleeKey returns the key of a call to a function of this package, or "".
func (t *tr) calleeKey(ce *ast.CallExpr) string {
	switch f := ce.Fun.(type) {
	case *ast.Ident:
		if fn, ok := t.info.Uses[f].(*types.Func); ok && fn.Pkg() == t.pkg {
			return f.Name
		}
	case *ast.SelectorExpr:
		if sel, ok := t.info.Selections[f]; ok && sel.Kind() == types.MethodVal {
			recv := sel.Recv()
			if p, ok := recv.(*types.Pointer); ok {
				recv = p.Elem()
			}
			if named, ok := recv.(*types.Named); ok && named.Obj().Pkg() == t.pkg {
				return named.Obj().Name() + "." + f.Sel.Name
			}
		}
	}
	return ""
}

// ---------------------------------------------------------------------------------------------
// one function

type fnCtx struct {
	fuelVar  string // name of the fuel variable visible in the body ("fuel", or "fuel'" inside a recursive group)
	key      string
	fd       *ast.FuncDecl
	fuel     bool
	results  []types.Type
	resNames []types.Object // named results (nil when unnamed)
	mutated  []types.Object // mutated slice parameters, appended to the results
	resType  string
}

func (t *tr) emitFunc(b *strings.Builder, key string) {
	params, resType, body := t.funcParts(key, "fuel")
	fd := t.funcs[key]
	pos := t.fset.Position(fd.Pos())
	fmt.Fprintf(b, "(* %s:%d  func %s *)\n", shortPath(pos.Filename), pos.Line, key)
	fmt.Fprintf(b, "Definition %s %s : %s :=\n  %s.\n\n", t.cname(key), strings.Join(params, " "), resType, body)
}

// emitRecGroup emits a (mutually) recursive group as one Fixpoint on fuel.
func (t *tr) emitRecGroup(b *strings.Builder, comp []string) {
	for i, key := range comp {
		params, resType, body := t.funcParts(key, "fuel'")
		fd := t.funcs[key]
		pos := t.fset.Position(fd.Pos())
		kw := "Fixpoint"
		if i > 0 {
			kw = "with"
		}
		fmt.Fprintf(b, "(* %s:%d  func %s (recursive: fuel decreases at every call inside the group) *)\n", shortPath(pos.Filename), pos.Line, key)
		fmt.Fprintf(b, "%s %s %s {struct fuel} : %s :=\n  match fuel with\n  | O => None\n  | S fuel' =>\n  %s\n  end", kw, t.cname(key), strings.Join(params, " "), resType, body)
		if i == len(comp)-1 {
			b.WriteString(".\n\n")
		} else {
			b.WriteString("\n")
		}
	}
}

func (t *tr) funcParts(key string, fuelVar string) (params []string, resType string, body string) {
	fd := t.funcs[key]
	t.names = map[types.Object]string{}
	t.used = map[string]bool{}
	t.knum = 0
	t.labels = map[string]string{}
	t.gotoLabels = map[string]bool{}
	ast.Inspect(fd.Body, func(n ast.Node) bool {
		if bs, ok := n.(*ast.BranchStmt); ok && bs.Tok == token.GOTO && bs.Label != nil {
			t.gotoLabels[bs.Label.Name] = true
		}
		return true
	})
	t.cur = key
	c := &fnCtx{key: key, fd: fd, fuel: t.fuelFns[key], fuelVar: fuelVar}
	if c.fuel {
		params = append(params, "(fuel : nat)")
		t.used["fuel"] = true
		t.used["fuel'"] = true
	}
	if fd.Recv != nil {
		for _, fl := range fd.Recv.List {
			for _, n := range fl.Names {
				obj := t.info.Defs[n]
				if obj == nil || n.Name == "_" {
					continue
				}
				params = append(params, fmt.Sprintf("(%s : %s)", t.varName(obj), t.coqType(obj.Type())))
			}
		}
	}
	pobjs := paramObjs(t, fd)
	for _, obj := range pobjs {
		if obj.Name() == "_" {
			params = append(params, fmt.Sprintf("(_ : %s)", t.coqType(obj.Type())))
			continue
		}
		params = append(params, fmt.Sprintf("(%s : %s)", t.varName(obj), t.coqType(obj.Type())))
	}
	for _, mi := range t.mutates[key] {
		c.mutated = append(c.mutated, pobjs[mi])
	}
	var rtypes []string
	if fd.Type.Results != nil {
		for _, fl := range fd.Type.Results.List {
			ty := t.info.TypeOf(fl.Type)
			if len(fl.Names) == 0 {
				c.results = append(c.results, ty)
				rtypes = append(rtypes, t.coqType(ty))
			}
			for _, n := range fl.Names {
				c.results = append(c.results, ty)
				rtypes = append(rtypes, t.coqType(ty))
				c.resNames = append(c.resNames, t.info.Defs[n])
			}
		}
	}
	for _, m := range c.mutated {
		rtypes = append(rtypes, t.coqType(m.Type()))
	}
	switch len(rtypes) {
	case 0:
		panic(unsupported{"function " + key + " returns nothing and mutates nothing"})
	case 1:
		c.resType = rtypes[0]
	default:
		c.resType = "(" + strings.Join(rtypes, " * ") + ")"
	}
	if c.fuel {
		c.resType = "(option " + c.resType + ")"
	}
	// named results start at their zero values
	pre := ""
	for _, r := range c.resNames {
		if r != nil && r.Name() != "_" {
			pre += fmt.Sprintf("let %s : %s := %s in\n  ", t.varName(r), t.coqType(r.Type()), t.zero(r.Type()))
		}
	}
	end := ""
	if len(c.results) == 0 || c.resNames != nil {
		end = t.retExpr(c, nil, fd.Body)
	}
	body = pre + t.block(c, fd.Body.List, end, 1)
	return params, c.resType, body
}

func shortPath(p string) string {
	if i := strings.Index(p, "/repo/"); i >= 0 {
		return p[i+6:]
	}
	return p
}

func ind(n int) string { return strings.Repeat("  ", n) }

// retExpr builds the value returned by `return es` (or a bare return when es == nil).
func (t *tr) retExpr(c *fnCtx, es []ast.Expr, at ast.Node) string {
	var parts []string
	if es == nil {
		for _, r := range c.resNames {
			parts = append(parts, t.names[r])
		}
	} else if len(es) == 1 && len(c.results) > 1 {
		// return f(x) with a multi-valued f
		ce, ok := es[0].(*ast.CallExpr)
		if !ok {
			t.fail(at, "multi-value return of a non-call")
		}
		k := t.calleeKey(ce)
		if k != "" && t.want[k] && (t.fuelFns[k] || len(t.mutates[k]) > 0) {
			// bind through a statement-level call so that fuel / mutation plumbing applies
			var names []string
			for range c.results {
				names = append(names, t.fresh("r"))
			}
			inner := strings.Join(names, ", ")
			tail := "(" + inner + ")"
			full := t.wrapRet(c, strings.Split(inner, ", "))
			_ = tail
			return t.callStmt(c, ce, names, full, 2)
		}
		if len(c.mutated) == 0 {
			return t.some(c, t.expr(es[0]))
		}
		var names []string
		for range c.results {
			names = append(names, t.fresh("r"))
		}
		return fmt.Sprintf("let '(%s) := %s in %s", strings.Join(names, ", "), t.expr(es[0]), t.wrapRet(c, names))
	} else {
		if len(es) == 1 {
			// short-circuit operators whose right operand needs statement-level plumbing (fuel / mutation)
			if be, ok := es[0].(*ast.BinaryExpr); ok && (be.Op == token.LAND || be.Op == token.LOR) && t.needsStmtCall(be.Y) {
				rhs := t.retExpr(c, []ast.Expr{be.Y}, at)
				if be.Op == token.LAND {
					return fmt.Sprintf("if %s then (%s) else (%s)", t.expr(be.X), rhs, t.wrapRet(c, []string{"false"}))
				}
				return fmt.Sprintf("if %s then (%s) else (%s)", t.expr(be.X), t.wrapRet(c, []string{"true"}), rhs)
			}
			if pe, ok := es[0].(*ast.ParenExpr); ok {
				return t.retExpr(c, []ast.Expr{pe.X}, at)
			}
			if ce, ok := es[0].(*ast.CallExpr); ok {
				k := t.calleeKey(ce)
				if k != "" && t.want[k] && (t.fuelFns[k] || len(t.mutates[k]) > 0) {
					n := t.fresh("r")
					return t.callStmt(c, ce, []string{n}, t.wrapRet(c, []string{n}), 2)
				}
			}
		}
		for i, e := range es {
			parts = append(parts, t.exprAs(e, c.results[i]))
		}
	}
	return t.wrapRet(c, parts)
}

// needsStmtCall reports whether e contains a call to a fuel-consuming or slice-mutating function.
func (t *tr) needsStmtCall(e ast.Expr) bool {
	found := false
	ast.Inspect(e, func(n ast.Node) bool {
		if ce, ok := n.(*ast.CallExpr); ok {
			if k := t.calleeKey(ce); k != "" && t.want[k] && (t.fuelFns[k] || len(t.mutates[k]) > 0) {
				found = true
			}
		}
		return true
	})
	return found
}

func (t *tr) wrapRet(c *fnCtx, parts []string) string {
	parts = append([]string(nil), parts...)
	for _, m := range c.mutated {
		parts = append(parts, t.names[m])
	}
	s := ""
	if len(parts) == 1 {
		s = parts[0]
	} else {
		s = "(" + strings.Join(parts, ", ") + ")"
	}
	return t.some(c, s)
}

func (t *tr) some(c *fnCtx, s string) string {
	if c.fuel {
		return "Some (" + s + ")"
	}
	return s
}

// ---------------------------------------------------------------------------------------------
// statements (continuation style: k is the Coq expression for "the rest after this block")

func terminates(s ast.Stmt) bool {
	switch x := s.(type) {
	case *ast.ReturnStmt:
		return true
	case *ast.BranchStmt:
		return true // break / continue leave the block too
	case *ast.BlockStmt:
		return len(x.List) > 0 && terminates(x.List[len(x.List)-1])
	case *ast.IfStmt:
		if x.Else == nil {
			return false
		}
		return terminates(x.Body) && terminates(x.Else)
	case *ast.SwitchStmt:
		hasDefault := false
		for _, c := range x.Body.List {
			cc := c.(*ast.CaseClause)
			if cc.List == nil {
				hasDefault = true
			}
			if len(cc.Body) == 0 || !terminates(cc.Body[len(cc.Body)-1]) {
				return false
			}
		}
		return hasDefault
	case *ast.ExprStmt:
		if ce, ok := x.X.(*ast.CallExpr); ok {
			if id, ok := ce.Fun.(*ast.Ident); ok && id.Name == "panic" {
				return true
			}
		}
	}
	return false
}

type loopCtx struct {
	brk   string // expression for break
	cont  string // expression for continue
	label string
}

var pendingLoopLabel string

var loops []loopCtx

// declaredAtTop lists the variables declared directly (not in nested blocks) by the statements.
func (t *tr) declaredAtTop(stmts []ast.Stmt) []types.Object {
	var out []types.Object
	for _, s := range stmts {
		switch x := s.(type) {
		case *ast.AssignStmt:
			if x.Tok == token.DEFINE {
				for _, l := range x.Lhs {
					if id, ok := l.(*ast.Ident); ok && id.Name != "_" {
						if obj := t.info.Defs[id]; obj != nil {
							out = append(out, obj)
						}
					}
				}
			}
		case *ast.DeclStmt:
			if gd, ok := x.Decl.(*ast.GenDecl); ok && gd.Tok == token.VAR {
				for _, sp := range gd.Specs {
					for _, n := range sp.(*ast.ValueSpec).Names {
						if obj := t.info.Defs[n]; obj != nil && n.Name != "_" {
							out = append(out, obj)
						}
					}
				}
			}
		}
	}
	return out
}

func (t *tr) block(c *fnCtx, stmts []ast.Stmt, k string, depth int) string {
	// a label later in this block that is the target of a goto: bind the code from the label on as a
	// local continuation first, then translate the statements before it with that continuation
	for i, s := range stmts {
		ls, ok := s.(*ast.LabeledStmt)
		if !ok || t.labels[ls.Label.Name] != "" || !t.gotoLabels[ls.Label.Name] {
			continue
		}
		if i == 0 {
			t.fail(ls, "label %s at the start of a block", ls.Label.Name)
		}
		tail := t.block(c, append([]ast.Stmt{ls.Stmt}, stmts[i+1:]...), k, depth+1)
		seen := map[types.Object]bool{}
		var vars []types.Object
		nodes := make([]ast.Node, 0, i)
		for _, p := range stmts[:i] {
			nodes = append(nodes, p)
		}
		for _, v := range append(t.declaredAtTop(stmts[:i]), t.assignedOuter(nodes...)...) {
			if !seen[v] {
				seen[v] = true
				vars = append(vars, v)
			}
		}
		prefix, call := t.join(c, vars, tail, depth)
		t.labels[ls.Label.Name] = call
		return prefix + t.block(c, stmts[:i], call, depth)
	}
	if len(stmts) == 0 {
		if k == "" {
			panic(unsupported{"control reaches the end of " + c.key + " without a value"})
		}
		return k
	}
	s := stmts[0]
	rest := func() string { return t.block(c, stmts[1:], k, depth) }
	nl := "\n" + ind(depth)
	switch x := s.(type) {
	case *ast.ReturnStmt:
		if len(x.Results) == 0 {
			return t.retExpr(c, nil, x)
		}
		return t.retExpr(c, x.Results, x)

	case *ast.BlockStmt:
		return t.block(c, append(append([]ast.Stmt(nil), x.List...), stmts[1:]...), k, depth)

	case *ast.EmptyStmt:
		return rest()

	case *ast.DeclStmt:
		gd := x.Decl.(*ast.GenDecl)
		if gd.Tok == token.CONST {
			return rest()
		}
		if gd.Tok != token.VAR {
			t.fail(x, "declaration kind %v", gd.Tok)
		}
		out := ""
		for _, sp := range gd.Specs {
			vs := sp.(*ast.ValueSpec)
			for i, n := range vs.Names {
				obj := t.info.Defs[n]
				val := ""
				if i < len(vs.Values) {
					val = t.exprAs(vs.Values[i], obj.Type())
				} else {
					val = t.zero(obj.Type())
				}
				out += fmt.Sprintf("let %s : %s := %s in%s", t.varName(obj), t.coqType(obj.Type()), val, nl)
			}
		}
		return out + rest()

	case *ast.IncDecStmt:
		obj := t.lhsObj(x.X)
		sfx, _, _, ok := intKind(obj.Type())
		if !ok {
			t.fail(x, "++/-- on non-integer")
		}
		op := "add"
		if x.Tok == token.DEC {
			op = "sub"
		}
		name := t.varName(obj)
		return fmt.Sprintf("let %s := %s%s %s 1 in%s", name, op, sfx, name, nl) + rest()

	case *ast.AssignStmt:
		return t.assign(c, x, depth) + rest()

	case *ast.ExprStmt:
		ce, ok := x.X.(*ast.CallExpr)
		if !ok {
			t.fail(x, "expression statement")
		}
		if id, ok := ce.Fun.(*ast.Ident); ok && id.Name == "copy" {
			// copy(dst[i:], src) with the count ignored
			return t.copyStmt(ce, "_", depth) + rest()
		}
		if id, ok := ce.Fun.(*ast.Ident); ok && id.Name == "panic" {
			if p, ok := t.u.Extern["panic"]; ok {
				return t.some(c, p)
			}
			t.fail(x, "panic (no extern mapping)")
		}
		if m, ok := t.u.Extern["mut:"+exprString(ce.Fun)]; ok {
			root := rootIdent(ce.Args[0])
			if root == nil {
				t.fail(x, "mutating call on a non-variable")
			}
			var args []string
			for _, a := range ce.Args {
				args = append(args, t.atom(a))
			}
			name := t.varName(t.info.Uses[root])
			if _, isSlice := ce.Args[0].(*ast.SliceExpr); isSlice {
				lo := t.sliceLow(ce.Args[0].(*ast.SliceExpr))
				return fmt.Sprintf("let %s := splice %s %s (%s %s) in%s", name, name, lo, m, strings.Join(args, " "), nl) + rest()
			}
			return fmt.Sprintf("let %s := %s %s in%s", name, m, strings.Join(args, " "), nl) + rest()
		}
		if kk := t.calleeKey(ce); kk != "" && t.want[kk] && len(t.mutates[kk]) > 0 {
			var names []string
			fd := t.funcs[kk]
			nres := 0
			if fd.Type.Results != nil {
				nres = fd.Type.Results.NumFields()
			}
			for i := 0; i < nres; i++ {
				names = append(names, "_")
			}
			return t.callStmt(c, ce, names, rest(), depth)
		}
		t.fail(x, "call statement %s", exprString(ce.Fun))

	case *ast.IfStmt:
		return t.ifStmt(c, x, stmts[1:], k, depth)

	case *ast.SwitchStmt:
		return t.switchStmt(c, x, stmts[1:], k, depth)

	case *ast.RangeStmt:
		return t.rangeStmt(c, x, stmts[1:], k, depth)

	case *ast.ForStmt:
		return t.forStmt(c, x, stmts[1:], k, depth)

	case *ast.LabeledStmt:
		// a label on a loop (targets of goto were handled above)
		switch x.Stmt.(type) {
		case *ast.ForStmt, *ast.RangeStmt:
			pendingLoopLabel = x.Label.Name
			return t.block(c, append([]ast.Stmt{x.Stmt}, stmts[1:]...), k, depth)
		}
		if t.labels[x.Label.Name] != "" {
			return t.block(c, append([]ast.Stmt{x.Stmt}, stmts[1:]...), k, depth)
		}
		t.fail(x, "label %s", x.Label.Name)

	case *ast.BranchStmt:
		if x.Tok == token.GOTO && x.Label != nil && t.labels[x.Label.Name] != "" {
			return t.labels[x.Label.Name]
		}
		if x.Label != nil && (x.Tok == token.BREAK || x.Tok == token.CONTINUE) {
			for i := len(loops) - 1; i >= 0; i-- {
				if loops[i].label == x.Label.Name {
					if x.Tok == token.BREAK {
						return loops[i].brk
					}
					return loops[i].cont
				}
			}
		}
		if len(loops) == 0 || x.Label != nil {
			t.fail(x, "branch statement %v", x.Tok)
		}
		switch x.Tok {
		case token.BREAK:
			return loops[len(loops)-1].brk
		case token.CONTINUE:
			return loops[len(loops)-1].cont
		}
		t.fail(x, "branch statement %v", x.Tok)
	}
	t.fail(s, "statement %T", s)
	return ""
}

func (t *tr) lhsObj(e ast.Expr) types.Object {
	id, ok := e.(*ast.Ident)
	if !ok {
		t.fail(e, "assignment target %s", exprString(e))
	}
	if obj := t.info.Defs[id]; obj != nil {
		return obj
	}
	if obj := t.info.Uses[id]; obj != nil {
		return obj
	}
	t.fail(e, "unresolved identifier %s", id.Name)
	return nil
}

func (t *tr) lhsName(e ast.Expr) string {
	if id, ok := e.(*ast.Ident); ok && id.Name == "_" {
		return "_"
	}
	return t.varName(t.lhsObj(e))
}

var assignOps = map[token.Token]token.Token{
	token.ADD_ASSIGN: token.ADD, token.SUB_ASSIGN: token.SUB, token.MUL_ASSIGN: token.MUL, token.QUO_ASSIGN: token.QUO,
	token.REM_ASSIGN: token.REM, token.AND_ASSIGN: token.AND, token.OR_ASSIGN: token.OR, token.XOR_ASSIGN: token.XOR,
	token.SHL_ASSIGN: token.SHL, token.SHR_ASSIGN: token.SHR, token.AND_NOT_ASSIGN: token.AND_NOT,
}

// unwrapLit replaces a composite literal of a struct type that the configuration maps to one of its
// fields ("lit:<type>": "<field>") by that field's value expression.
func (t *tr) unwrapLit(e ast.Expr) ast.Expr {
	cl, ok := e.(*ast.CompositeLit)
	if !ok {
		return e
	}
	field, ok := t.u.Extern["lit:"+exprString(cl.Type)]
	if !ok {
		return e
	}
	for _, el := range cl.Elts {
		if kv, ok := el.(*ast.KeyValueExpr); ok {
			if id, ok := kv.Key.(*ast.Ident); ok && id.Name == field {
				return kv.Value
			}
		}
	}
	t.fail(e, "literal of %s without field %s", exprString(cl.Type), field)
	return e
}

func (t *tr) assign(c *fnCtx, x *ast.AssignStmt, depth int) string {
	nl := "\n" + ind(depth)
	for i := range x.Rhs {
		if u := t.unwrapLit(x.Rhs[i]); u != x.Rhs[i] {
			y := *x
			y.Rhs = append([]ast.Expr(nil), x.Rhs...)
			y.Rhs[i] = u
			x = &y
		}
	}
	if op, ok := assignOps[x.Tok]; ok {
		obj := t.lhsObj(x.Lhs[0])
		name := t.varName(obj)
		return fmt.Sprintf("let %s := %s in%s", name, t.binop(x, op, obj.Type(), name, x.Rhs[0], obj.Type()), nl)
	}
	if x.Tok != token.ASSIGN && x.Tok != token.DEFINE {
		t.fail(x, "assignment operator %v", x.Tok)
	}
	// b[i] = e
	if len(x.Lhs) == 1 {
		if ix, ok := x.Lhs[0].(*ast.IndexExpr); ok {
			root, ok := ix.X.(*ast.Ident)
			if !ok {
				t.fail(x, "indexed assignment to a non-variable")
			}
			name := t.varName(t.info.Uses[root])
			return fmt.Sprintf("let %s := upd %s %s %s in%s", name, name, t.atom(ix.Index), t.atom(x.Rhs[0]), nl)
		}
	}
	if len(x.Lhs) > 1 && len(x.Rhs) == 1 {
		ce, ok := x.Rhs[0].(*ast.CallExpr)
		if !ok {
			t.fail(x, "tuple assignment from a non-call")
		}
		var names []string
		rhsNeedsEval := t.expr // evaluate rhs before binding names (names may shadow)
		_ = rhsNeedsEval
		if kk := t.calleeKey(ce); kk != "" && t.want[kk] && (t.fuelFns[kk] || len(t.mutates[kk]) > 0) {
			// names must be computed after the call expression is rendered
			call := t.callStmtPrefix(c, ce, func() []string {
				for _, l := range x.Lhs {
					names = append(names, t.lhsName(l))
				}
				return names
			}, depth)
			return call
		}
		if id, ok := ce.Fun.(*ast.Ident); ok && id.Name == "copy" {
			t.fail(x, "copy in tuple assignment")
		}
		rhs := t.expr(ce)
		for _, l := range x.Lhs {
			names = append(names, t.lhsName(l))
		}
		return fmt.Sprintf("let '(%s) := %s in%s", strings.Join(names, ", "), rhs, nl)
	}
	if len(x.Lhs) != len(x.Rhs) {
		t.fail(x, "assignment arity")
	}
	if len(x.Lhs) == 1 {
		if ce, ok := x.Rhs[0].(*ast.CallExpr); ok {
			if id, ok := ce.Fun.(*ast.Ident); ok && id.Name == "copy" {
				return t.copyStmt(ce, "", depth, x.Lhs[0])
			}
			if kk := t.calleeKey(ce); kk != "" && t.want[kk] && (t.fuelFns[kk] || len(t.mutates[kk]) > 0) {
				return t.callStmtPrefix(c, ce, func() []string { return []string{t.lhsName(x.Lhs[0])} }, depth)
			}
		}
		var ty types.Type
		if id, ok := x.Lhs[0].(*ast.Ident); ok && id.Name == "_" {
			return ""
		}
		obj := t.lhsObj(x.Lhs[0])
		ty = obj.Type()
		rhs := t.exprAs(x.Rhs[0], ty)
		return fmt.Sprintf("let %s := %s in%s", t.varName(obj), rhs, nl)
	}
	var rs, ls []string
	for i, r := range x.Rhs {
		if id, ok := x.Lhs[i].(*ast.Ident); ok && id.Name == "_" {
			rs = append(rs, t.expr(r))
		} else {
			rs = append(rs, t.exprAs(r, t.lhsObj(x.Lhs[i]).Type()))
		}
	}
	for _, l := range x.Lhs {
		ls = append(ls, t.lhsName(l))
	}
	return fmt.Sprintf("let '(%s) := (%s) in%s", strings.Join(ls, ", "), strings.Join(rs, ", "), nl)
}

// copyStmt: n = copy(dst[lo:], src)  /  copy(dst, src)
func (t *tr) copyStmt(ce *ast.CallExpr, _ string, depth int, lhs ...ast.Expr) string {
	nl := "\n" + ind(depth)
	root := rootIdent(ce.Args[0])
	if root == nil {
		t.fail(ce, "copy into a non-variable")
	}
	name := t.varName(t.info.Uses[root])
	lo := "0"
	dst := name
	if se, ok := ce.Args[0].(*ast.SliceExpr); ok {
		lo = t.sliceLow(se)
		dst = t.atom(se)
	}
	src := t.atom(ce.Args[1])
	out := ""
	if len(lhs) == 1 {
		out += fmt.Sprintf("let %s := Z.min (len %s) (len %s) in%s", t.lhsName(lhs[0]), dst, src, nl)
	}
	out += fmt.Sprintf("let %s := splice %s %s (slice_to %s (Z.min (len %s) (len %s))) in%s", name, name, lo, src, dst, src, nl)
	return out
}

func (t *tr) sliceLow(se *ast.SliceExpr) string {
	if se.Low == nil {
		return "0"
	}
	return t.atom(se.Low)
}

// callStmt renders `let '(names..., mutated...) := f args in k` with fuel plumbing.
func (t *tr) callStmt(c *fnCtx, ce *ast.CallExpr, names []string, k string, depth int) string {
	return t.callStmtPrefix(c, ce, func() []string { return names }, depth) + k
}

// callStmtPrefix renders the binding part. For fuel callees the binding is a match whose closing
// `end` must follow the continuation: callers that use the prefix form directly rely on the
// continuation being the rest of the enclosing expression, so the `end` is placed by emitting
// the match with the continuation as its last branch (Coq parses `match .. with .. | Some r => e`
// greedily, and we always parenthesise the whole let-chain of a function body).
func (t *tr) callStmtPrefix(c *fnCtx, ce *ast.CallExpr, lhs func() []string, depth int) string {
	nl := "\n" + ind(depth)
	kk := t.calleeKey(ce)
	fd := t.funcs[kk]
	pobjs := paramObjs(t, fd)
	var args []string
	if t.fuelFns[kk] {
		if !c.fuel {
			t.fail(ce, "fuel function called from a fuel-free function")
		}
		args = append(args, c.fuelVar)
	}
	if sel, ok := ce.Fun.(*ast.SelectorExpr); ok && fd.Recv != nil && len(fd.Recv.List[0].Names) == 1 && fd.Recv.List[0].Names[0].Name != "_" {
		args = append(args, t.atom(sel.X))
	}
	for i, a := range ce.Args {
		args = append(args, t.atomAs(a, pobjs[i].Type()))
	}
	// write-back of mutated slice arguments
	type wb struct {
		name, lo, tmp string
		whole         bool
	}
	var wbs []wb
	for _, mi := range t.mutates[kk] {
		a := ce.Args[mi]
		root := rootIdent(a)
		if root == nil {
			t.fail(ce, "mutated argument is not a variable or a slice of one")
		}
		name := t.varName(t.info.Uses[root])
		if se, ok := a.(*ast.SliceExpr); ok {
			wbs = append(wbs, wb{name: name, lo: t.sliceLow(se), tmp: t.fresh("w")})
		} else {
			wbs = append(wbs, wb{name: name, whole: true})
		}
	}
	names := append([]string(nil), lhs()...)
	for _, w := range wbs {
		if w.whole {
			names = append(names, w.name)
		} else {
			names = append(names, w.tmp)
		}
	}
	pat := names[0]
	if len(names) > 1 {
		pat = "'(" + strings.Join(names, ", ") + ")"
	}
	call := t.cname(kk) + " " + strings.Join(args, " ")
	out := ""
	if t.fuelFns[kk] {
		out = fmt.Sprintf("dlet %s <- %s in%s", strings.TrimPrefix(pat, "'"), call, nl)
	} else {
		out = fmt.Sprintf("let %s := %s in%s", pat, call, nl)
	}
	for _, w := range wbs {
		if !w.whole {
			out += fmt.Sprintf("let %s := splice %s %s %s in%s", w.name, w.name, w.lo, w.tmp, nl)
		}
	}
	return out
}

// assignedOuter returns the variables assigned inside the given nodes that were declared outside them.
func (t *tr) assignedOuter(nodes ...ast.Node) []types.Object {
	seen := map[types.Object]bool{}
	var out []types.Object
	var lo, hi token.Pos
	for i, n := range nodes {
		if n == nil {
			continue
		}
		if i == 0 || n.Pos() < lo {
			lo = n.Pos()
		}
		if n.End() > hi {
			hi = n.End()
		}
	}
	add := func(e ast.Expr) {
		if ix, ok := e.(*ast.IndexExpr); ok {
			e = ix.X
		}
		id, ok := e.(*ast.Ident)
		if !ok || id.Name == "_" {
			return
		}
		obj := t.info.Uses[id]
		if obj == nil {
			return
		}
		if _, isVar := obj.(*types.Var); !isVar {
			return
		}
		if obj.Pos() >= lo && obj.Pos() < hi {
			return // declared inside
		}
		if obj.Parent() == t.pkg.Scope() {
			return
		}
		if !seen[obj] {
			seen[obj] = true
			out = append(out, obj)
		}
	}
	for _, n := range nodes {
		if n == nil {
			continue
		}
		ast.Inspect(n, func(m ast.Node) bool {
			switch s := m.(type) {
			case *ast.AssignStmt:
				for _, l := range s.Lhs {
					add(l)
				}
				for _, r := range s.Rhs {
					t.markMutArgs(r, add)
				}
			case *ast.IncDecStmt:
				add(s.X)
			case *ast.ExprStmt:
				t.markMutArgs(s.X, add)
			case *ast.ReturnStmt:
				for _, r := range s.Results {
					t.markMutArgs(r, add)
				}
			}
			return true
		})
	}
	sort.Slice(out, func(i, j int) bool { return out[i].Pos() < out[j].Pos() })
	return out
}

func (t *tr) markMutArgs(e ast.Expr, add func(ast.Expr)) {
	ce, ok := e.(*ast.CallExpr)
	if !ok {
		return
	}
	if id, ok := ce.Fun.(*ast.Ident); ok && id.Name == "copy" && len(ce.Args) == 2 {
		if r := rootIdent(ce.Args[0]); r != nil {
			add(r)
		}
	}
	if _, ok := t.u.Extern["mut:"+exprString(ce.Fun)]; ok {
		if r := rootIdent(ce.Args[0]); r != nil {
			add(r)
		}
	}
	if kk := t.calleeKey(ce); kk != "" && t.want[kk] {
		for _, mi := range t.mutates[kk] {
			if r := rootIdent(ce.Args[mi]); r != nil {
				add(r)
			}
		}
	}
}

// join binds the continuation k as a local function of the given variables and returns
// (prefix, call) so that callers can write  prefix ++ <branches using call>.
func (t *tr) join(c *fnCtx, vars []types.Object, k string, depth int) (prefix, call string) {
	if k == "" {
		return "", ""
	}
	nl := "\n" + ind(depth)
	name := t.fresh("k")
	var ps, as []string
	for _, v := range vars {
		ps = append(ps, fmt.Sprintf("(%s : %s)", t.varName(v), t.coqType(v.Type())))
		as = append(as, t.varName(v))
	}
	if len(ps) == 0 {
		ps = []string{"(_ : unit)"}
		as = []string{"tt"}
	}
	prefix = fmt.Sprintf("let %s := fun %s =>%s  %s in%s", name, strings.Join(ps, " "), nl, k, nl)
	call = name + " " + strings.Join(as, " ")
	return
}

func (t *tr) ifStmt(c *fnCtx, x *ast.IfStmt, after []ast.Stmt, k string, depth int) string {
	nl := "\n" + ind(depth)
	restK := func() string { return t.block(c, after, k, depth+1) }
	thenTerm := terminates(x.Body)
	elseTerm := x.Else != nil && terminates(x.Else)
	var elseStmts []ast.Stmt
	if x.Else != nil {
		elseStmts = []ast.Stmt{x.Else}
	}
	build := func(thenK, elseK string) string {
		init := ""
		if x.Init != nil {
			init = t.block(c, []ast.Stmt{x.Init}, "\x00", depth)
			init = strings.TrimSuffix(init, "\x00")
		}
		cond := t.expr(x.Cond)
		th := t.block(c, x.Body.List, thenK, depth+1)
		el := t.block(c, elseStmts, elseK, depth+1)
		return fmt.Sprintf("%sif %s then%s  (%s)%selse%s  (%s)", init, cond, nl, th, nl, nl, el)
	}
	switch {
	case thenTerm && elseTerm:
		return build("", "")
	case thenTerm:
		return build("", restK())
	case elseTerm:
		return build(restK(), "")
	}
	// both fall through: bind the rest once
	if len(after) == 0 && !strings.Contains(k, "\n") && len(k) < 60 {
		return build(k, k)
	}
	// variables declared by the init statement live only inside the if: they are not join parameters
	vars := t.assignedOuter(x)
	prefix, call := t.join(c, vars, t.block(c, after, k, depth+1), depth)
	return prefix + build(call, call)
}

func (t *tr) switchStmt(c *fnCtx, x *ast.SwitchStmt, after []ast.Stmt, k string, depth int) string {
	nl := "\n" + ind(depth)
	allTerm := terminates(x)
	restExpr := ""
	prefix := ""
	if !allTerm {
		rk := t.block(c, after, k, depth+1)
		if len(after) == 0 && !strings.Contains(k, "\n") && len(k) < 60 {
			restExpr = rk
		} else {
			vars := t.assignedOuter(x)
			prefix, restExpr = t.join(c, vars, rk, depth)
		}
	}
	init := ""
	if x.Init != nil {
		init = strings.TrimSuffix(t.block(c, []ast.Stmt{x.Init}, "\x00", depth), "\x00")
	}
	tag := ""
	var tagTy types.Type
	if x.Tag != nil {
		tagTy = t.info.TypeOf(x.Tag)
		tname := t.fresh("tag")
		init += fmt.Sprintf("let %s := %s in%s", tname, t.expr(x.Tag), nl)
		tag = tname
	}
	// clauses with `fallthrough`: bind every clause body as a local continuation, last clause first
	hasFT := false
	for _, cl := range x.Body.List {
		cc := cl.(*ast.CaseClause)
		if n := len(cc.Body); n > 0 {
			if bs, ok := cc.Body[n-1].(*ast.BranchStmt); ok && bs.Tok == token.FALLTHROUGH {
				hasFT = true
			}
		}
	}
	clauseK := map[int]string{} // clause index -> expression running that clause's body
	ftPrefix := ""
	if hasFT {
		vars := t.assignedOuter(x)
		n := len(x.Body.List)
		defs := make([]string, n)
		for i := n - 1; i >= 0; i-- {
			cc := x.Body.List[i].(*ast.CaseClause)
			body := cc.Body
			k2 := restExpr
			if m := len(body); m > 0 {
				if bs, ok := body[m-1].(*ast.BranchStmt); ok && bs.Tok == token.FALLTHROUGH {
					body = body[:m-1]
					if i+1 >= n {
						t.fail(bs, "fallthrough in the last clause")
					}
					k2 = clauseK[i+1]
				}
			}
			bexpr := t.caseBody(c, body, k2, depth+1)
			p, call := t.join(c, vars, bexpr, depth)
			defs[i] = p
			clauseK[i] = call
		}
		for i := n - 1; i >= 0; i-- {
			ftPrefix += defs[i]
		}
	}
	var deflt *ast.CaseClause
	defltIdx := -1
	out := ""
	closing := ""
	for ci, cl := range x.Body.List {
		cc := cl.(*ast.CaseClause)
		if cc.List == nil {
			deflt = cc
			defltIdx = ci
			continue
		}
		var conds []string
		for _, e := range cc.List {
			if x.Tag != nil {
				conds = append(conds, t.cmp(e, token.EQL, tag, tagTy, t.exprAs(e, tagTy)))
			} else {
				conds = append(conds, t.expr(e))
			}
		}
		cond := strings.Join(conds, " || ")
		if len(conds) > 1 {
			cond = "(" + cond + ")"
		}
		body := ""
		if hasFT {
			body = clauseK[ci]
		} else {
			body = t.caseBody(c, cc.Body, restExpr, depth+1)
		}
		out += fmt.Sprintf("if %s then%s  (%s)%selse ", cond, nl, body, nl)
		closing += ""
	}
	if deflt != nil {
		if hasFT {
			out += "(" + clauseK[defltIdx] + ")"
		} else {
			out += "(" + t.caseBody(c, deflt.Body, restExpr, depth+1) + ")"
		}
	} else {
		if restExpr == "" {
			t.fail(x, "switch without default cannot fall through here")
		}
		out += "(" + restExpr + ")"
	}
	return prefix + init + ftPrefix + out + closing
}

func (t *tr) caseBody(c *fnCtx, body []ast.Stmt, k string, depth int) string {
	// a trailing `break` inside a switch leaves the switch
	if n := len(body); n > 0 {
		if bs, ok := body[n-1].(*ast.BranchStmt); ok && bs.Tok == token.BREAK && bs.Label == nil {
			body = body[:n-1]
		}
	}
	saved := loops
	// inside a switch, an inner `break` would target the switch: refuse those (only the trailing form is accepted)
	for _, s := range body {
		ast.Inspect(s, func(n ast.Node) bool {
			switch y := n.(type) {
			case *ast.ForStmt, *ast.RangeStmt, *ast.SwitchStmt:
				return false
			case *ast.BranchStmt:
				if y.Tok == token.BREAK && y.Label == nil {
					t.fail(y, "break inside switch")
				}
			}
			return true
		})
	}
	r := t.block(c, body, k, depth)
	loops = saved
	return r
}

func (t *tr) rangeStmt(c *fnCtx, x *ast.RangeStmt, after []ast.Stmt, k string, depth int) string {
	nl := "\n" + ind(depth)
	lbl := pendingLoopLabel
	pendingLoopLabel = ""
	if !isBytes(t.info.TypeOf(x.X)) && t.coqType(t.info.TypeOf(x.X)) != "(list Z)" {
		t.fail(x, "range over %s", t.info.TypeOf(x.X))
	}
	if b, ok := t.info.TypeOf(x.X).Underlying().(*types.Basic); ok && b.Info()&types.IsString != 0 {
		// Go iterates the RUNES of a string (decoding UTF-8, with byte indices); the translation below is a byte loop
		if ident, isIdent := x.Value.(*ast.Ident); x.Value != nil && !(isIdent && ident.Name == "_") {
			t.fail(x, "range over a string with a value variable iterates runes, not bytes: model the function by hand")
		}
		if x.Key != nil {
			if ident, isIdent := x.Key.(*ast.Ident); !(isIdent && ident.Name == "_") {
				t.fail(x, "range over a string with an index variable steps by rune width: model the function by hand")
			}
		}
	}
	vars := t.assignedOuter(x.Body)
	afterExpr := t.block(c, after, k, depth+1)
	prefix, brk := t.join(c, vars, afterExpr, depth)
	loop := t.fresh("loop")
	l := t.fresh("l")
	i := t.fresh("i")
	var ps, as []string
	for _, v := range vars {
		ps = append(ps, fmt.Sprintf("(%s : %s)", t.varName(v), t.coqType(v.Type())))
		as = append(as, t.varName(v))
	}
	elem := "_"
	if x.Value != nil {
		elem = t.lhsName(x.Value)
	}
	head := t.fresh("h")
	tail := t.fresh("t")
	bind := ""
	if elem != "_" {
		bind += fmt.Sprintf("let %s := %s in%s    ", elem, head, nl)
	}
	if x.Key != nil {
		if kn := t.lhsName(x.Key); kn != "_" {
			bind += fmt.Sprintf("let %s := %s in%s    ", kn, i, nl)
		}
	}
	cont := fmt.Sprintf("%s %s (%s + 1) %s", loop, tail, i, strings.Join(as, " "))
	loops = append(loops, loopCtx{brk: brk, cont: cont, label: lbl})
	body := t.block(c, x.Body.List, cont, depth+2)
	loops = loops[:len(loops)-1]
	src := t.atom(x.X)
	return fmt.Sprintf("%s(fix %s (%s : list Z) (%s : Z) %s {struct %s} : %s :=%s  match %s with%s  | [] => %s%s  | %s :: %s =>%s    %s%s%s  end) %s 0 %s",
		prefix, loop, l, i, strings.Join(ps, " "), l, c.resType, nl, l, nl, brk, nl, head, tail, nl, bind, body, nl, src, strings.Join(as, " "))
}

func (t *tr) forStmt(c *fnCtx, x *ast.ForStmt, after []ast.Stmt, k string, depth int) string {
	nl := "\n" + ind(depth)
	lbl := pendingLoopLabel
	pendingLoopLabel = ""
	if !c.fuel {
		t.fail(x, "for loop in a function not marked for fuel")
	}
	init := ""
	if x.Init != nil {
		init = strings.TrimSuffix(t.block(c, []ast.Stmt{x.Init}, "\x00", depth), "\x00")
	}
	nodes := []ast.Node{x.Body}
	if x.Post != nil {
		nodes = append(nodes, x.Post)
	}
	vars := t.assignedOuter(nodes...)
	// variables declared by the init statement are loop-carried when assigned in body/post
	afterExpr := "None (* unreachable: the loop has no exit but return *)"
	if len(after) > 0 || k != "" {
		afterExpr = t.block(c, after, k, depth+1)
	} else if x.Cond != nil {
		t.fail(x, "control reaches the end of the function after a conditional loop")
	}
	prefix, brk := t.join(c, vars, afterExpr, depth)
	loop := t.fresh("loop")
	f := t.fresh("f")
	f2 := t.fresh("f")
	var ps, as []string
	for _, v := range vars {
		ps = append(ps, fmt.Sprintf("(%s : %s)", t.varName(v), t.coqType(v.Type())))
		as = append(as, t.varName(v))
	}
	next := fmt.Sprintf("%s %s %s", loop, f2, strings.Join(as, " "))
	cont := next
	if x.Post != nil {
		cont = strings.TrimSuffix(t.block(c, []ast.Stmt{x.Post}, "\x00", depth+2), "\x00") + next
	}
	loops = append(loops, loopCtx{brk: brk, cont: cont, label: lbl})
	body := t.block(c, x.Body.List, cont, depth+2)
	loops = loops[:len(loops)-1]
	cond := "true"
	if x.Cond != nil {
		cond = t.expr(x.Cond)
	}
	return fmt.Sprintf("%s%s(fix %s (%s : nat) %s {struct %s} : %s :=%s  match %s with%s  | O => None%s  | S %s =>%s    if %s then%s      (%s)%s    else %s%s  end) %s %s",
		init, prefix, loop, f, strings.Join(ps, " "), f, c.resType, nl, f, nl, nl, f2, nl, cond, nl, body, nl, brk, nl, c.fuelVar, strings.Join(as, " "))
}

// ---------------------------------------------------------------------------------------------
// expressions

func (t *tr) atom(e ast.Expr) string {
	s := t.expr(e)
	if isAtomic(s) {
		return s
	}
	return "(" + s + ")"
}

func (t *tr) atomAs(e ast.Expr, ty types.Type) string {
	s := t.exprAs(e, ty)
	if isAtomic(s) {
		return s
	}
	return "(" + s + ")"
}

func isAtomic(s string) bool {
	if s == "" {
		return true
	}
	if s[0] == '(' && matchingParen(s) == len(s)-1 {
		return true
	}
	if s[0] == '[' && s[len(s)-1] == ']' && !strings.Contains(s, "++") {
		return true
	}
	return !strings.ContainsAny(s, " \n")
}

func matchingParen(s string) int {
	d := 0
	for i, ch := range s {
		switch ch {
		case '(':
			d++
		case ')':
			d--
			if d == 0 {
				return i
			}
		}
	}
	return -1
}

// exprAs renders e for a context of type ty (nil literals and untyped constants adapt).
func (t *tr) exprAs(e ast.Expr, ty types.Type) string {
	if id, ok := e.(*ast.Ident); ok && id.Name == "nil" {
		if isError(ty) {
			return "None"
		}
		if z, ok := t.u.Extern["nil:"+ty.String()]; ok {
			return z
		}
		return "[]"
	}
	if isError(ty) {
		s := t.expr(e)
		return s
	}
	return t.expr(e)
}

func (t *tr) constName(e ast.Expr) (string, bool) {
	id, ok := e.(*ast.Ident)
	if !ok {
		return "", false
	}
	c, ok := t.info.Uses[id].(*types.Const)
	if !ok || c.Pkg() != t.pkg || c.Parent() != t.pkg.Scope() {
		return "", false
	}
	for _, w := range t.u.Consts {
		if w == "*" || w == id.Name {
			if c.Val().Kind() == constant.Int || c.Val().Kind() == constant.Bool || c.Val().Kind() == constant.String {
				return t.cname(id.Name), true
			}
		}
	}
	return "", false
}

func (t *tr) expr(e ast.Expr) string {
	if ext, ok := t.u.Extern["expr:"+exprString(e)]; ok {
		return ext
	}
	tv, hasTV := t.info.Types[e]
	if hasTV && tv.Value != nil {
		if n, ok := t.constName(e); ok {
			return n
		}
		// constant expressions mentioning package constants keep their structure when simple
		if be, ok := e.(*ast.BinaryExpr); ok {
			_, l := t.constName(be.X)
			_, r := t.constName(be.Y)
			if (l || r) && tv.Value.Kind() == constant.Int {
				if _, _, _, isInt := intKind(tv.Type); isInt {
					return t.binary(be)
				}
			}
		}
		if pe, ok := e.(*ast.ParenExpr); ok {
			return t.expr(pe.X)
		}
		if lit, ok := zlit(tv.Value); ok {
			return lit
		}
		t.fail(e, "constant of kind %v", tv.Value.Kind())
	}
	switch x := e.(type) {
	case *ast.ParenExpr:
		return t.expr(x.X)
	case *ast.Ident:
		switch x.Name {
		case "true", "false":
			return x.Name
		case "nil":
			if hasTV && isError(tv.Type) {
				return "None"
			}
			return "[]"
		}
		obj := t.info.Uses[x]
		if obj == nil {
			obj = t.info.Defs[x]
		}
		if v, ok := obj.(*types.Var); ok {
			if v.Parent() == t.pkg.Scope() {
				if ext, ok := t.u.Extern[x.Name]; ok {
					return ext
				}
				if isError(v.Type()) && t.u.Errors {
					return "(Some " + t.cname(x.Name) + ")"
				}
				for _, tb := range t.u.Tables {
					if tb == x.Name {
						return t.cname(x.Name)
					}
				}
				t.fail(x, "package variable %s is not translated", x.Name)
			}
			return t.varName(v)
		}
		t.fail(x, "identifier %s", x.Name)
	case *ast.BinaryExpr:
		return t.binary(x)
	case *ast.UnaryExpr:
		xt := t.info.TypeOf(x.X)
		switch x.Op {
		case token.NOT:
			return "negb " + t.atom(x.X)
		case token.XOR:
			sfx, _, _, ok := intKind(xt)
			if !ok {
				t.fail(x, "^ on non-integer")
			}
			return "not" + sfx + " " + t.atom(x.X)
		case token.SUB:
			sfx, _, _, ok := intKind(xt)
			if !ok {
				t.fail(x, "- on non-integer")
			}
			return "neg" + sfx + " " + t.atom(x.X)
		case token.ADD:
			return t.expr(x.X)
		}
		t.fail(x, "unary %v", x.Op)
	case *ast.CallExpr:
		return t.call(x)
	case *ast.IndexExpr:
		xt := t.info.TypeOf(x.X)
		if isBytes(xt) {
			return fmt.Sprintf("at_ %s %s", t.atom(x.X), t.atom(x.Index))
		}
		if t.coqType(xt) == "(list Z)" {
			return fmt.Sprintf("nth (Z.to_nat %s) %s 0", t.atom(x.Index), t.atom(x.X))
		}
		t.fail(x, "index into %s", xt)
	case *ast.SliceExpr:
		if x.Slice3 {
			t.fail(x, "3-index slice")
		}
		base := t.atom(x.X)
		switch {
		case x.Low == nil && x.High == nil:
			return base
		case x.High == nil:
			return fmt.Sprintf("slice_from %s %s", base, t.atom(x.Low))
		case x.Low == nil:
			return fmt.Sprintf("slice_to %s %s", base, t.atom(x.High))
		}
		return fmt.Sprintf("slice %s %s %s", base, t.atom(x.Low), t.atom(x.High))
	case *ast.SelectorExpr:
		if ext, ok := t.u.Extern[exprString(x)]; ok {
			return ext
		}
		if ext, ok := t.u.Extern["field:"+x.Sel.Name]; ok {
			return fmt.Sprintf("%s %s", ext, t.atom(x.X))
		}
		t.fail(x, "selector %s", exprString(x))
	case *ast.CompositeLit:
		if u := t.unwrapLit(x); u != ast.Expr(x) {
			return t.expr(u)
		}
		if ext, ok := t.u.Extern[exprString(x)]; ok {
			return ext
		}
		if at, ok := t.info.TypeOf(x).Underlying().(*types.Array); ok && len(x.Elts) == 0 {
			if _, _, _, isInt := intKind(at.Elem()); isInt {
				return fmt.Sprintf("(repeat 0 %d)", at.Len())
			}
		}
		t.fail(x, "composite literal %s", exprString(x))
	}
	t.fail(e, "expression %T", e)
	return ""
}

func (t *tr) cmp(at ast.Node, op token.Token, l string, ty types.Type, r string) string {
	al, ar := paren(l), paren(r)
	switch {
	case isBool(ty):
		if op == token.EQL {
			return fmt.Sprintf("Bool.eqb %s %s", al, ar)
		}
		return fmt.Sprintf("negb (Bool.eqb %s %s)", al, ar)
	case isBytes(ty):
		if op == token.EQL {
			return fmt.Sprintf("bytes_eqb %s %s", al, ar)
		}
		if op == token.NEQ {
			return fmt.Sprintf("negb (bytes_eqb %s %s)", al, ar)
		}
	default:
		if _, _, _, ok := intKind(ty); ok {
			switch op {
			case token.EQL:
				return fmt.Sprintf("(%s =? %s)", al, ar)
			case token.NEQ:
				return fmt.Sprintf("negb (%s =? %s)", al, ar)
			case token.LSS:
				return fmt.Sprintf("(%s <? %s)", al, ar)
			case token.LEQ:
				return fmt.Sprintf("(%s <=? %s)", al, ar)
			case token.GTR:
				return fmt.Sprintf("(%s >? %s)", al, ar)
			case token.GEQ:
				return fmt.Sprintf("(%s >=? %s)", al, ar)
			}
		}
	}
	t.fail(at, "comparison %v on %s", op, ty)
	return ""
}

func paren(s string) string {
	if isAtomic(s) {
		return s
	}
	return "(" + s + ")"
}

func (t *tr) binary(x *ast.BinaryExpr) string {
	lt := t.info.TypeOf(x.X)
	rt := t.info.TypeOf(x.Y)
	switch x.Op {
	case token.LAND:
		return fmt.Sprintf("(%s && %s)", t.atom(x.X), t.atom(x.Y))
	case token.LOR:
		return fmt.Sprintf("(%s || %s)", t.atom(x.X), t.atom(x.Y))
	case token.EQL, token.NEQ, token.LSS, token.LEQ, token.GTR, token.GEQ:
		// nil comparisons
		if id, ok := x.Y.(*ast.Ident); ok && id.Name == "nil" {
			return t.nilCmp(x, x.X, x.Op)
		}
		if id, ok := x.X.(*ast.Ident); ok && id.Name == "nil" {
			return t.nilCmp(x, x.Y, x.Op)
		}
		ty := lt
		if b, ok := ty.Underlying().(*types.Basic); ok && b.Info()&types.IsUntyped != 0 {
			ty = rt
		}
		if isError(ty) {
			if x.Op == token.EQL {
				return fmt.Sprintf("err_eqb %s %s", t.atom(x.X), t.atom(x.Y))
			}
			return fmt.Sprintf("negb (err_eqb %s %s)", t.atom(x.X), t.atom(x.Y))
		}
		return t.cmp(x, x.Op, t.expr(x.X), ty, t.expr(x.Y))
	}
	ty := t.info.TypeOf(x)
	if x.Op == token.ADD && isBytes(ty) {
		return fmt.Sprintf("(%s ++ %s)", t.atom(x.X), t.atom(x.Y))
	}
	return t.binop(x, x.Op, ty, t.atom(x.X), x.Y, rt)
}

func (t *tr) nilCmp(at ast.Node, e ast.Expr, op token.Token) string {
	ty := t.info.TypeOf(e)
	var s string
	switch {
	case isError(ty):
		s = "isnil " + t.atom(e)
	case isBytes(ty):
		if ext, ok := t.u.Extern["nilcheck:bytes"]; ok {
			s = ext + " " + t.atom(e)
		} else {
			t.fail(at, "nil comparison of a byte slice (nil-ness is not modelled)")
		}
	default:
		t.fail(at, "nil comparison on %s", ty)
	}
	if op == token.NEQ {
		return "negb (" + s + ")"
	}
	return "(" + s + ")"
}

func (t *tr) binop(at ast.Node, op token.Token, ty types.Type, l string, r ast.Expr, rty types.Type) string {
	sfx, _, _, ok := intKind(ty)
	if !ok {
		t.fail(at, "arithmetic on %s", ty)
	}
	name := map[token.Token]string{token.ADD: "add", token.SUB: "sub", token.MUL: "mul", token.QUO: "div", token.REM: "rem",
		token.AND: "and", token.OR: "or", token.XOR: "xor", token.SHL: "shl", token.SHR: "shr", token.AND_NOT: "andnot"}[op]
	if name == "" {
		t.fail(at, "operator %v", op)
	}
	return fmt.Sprintf("%s%s %s %s", name, sfx, paren(l), t.atom(r))
}

func (t *tr) conv(at ast.Node, to types.Type, e ast.Expr) string {
	from := t.info.TypeOf(e)
	if isBytes(to) && isBytes(from) {
		return t.expr(e)
	}
	_, ts, tb, ok1 := intKind(to)
	_, fs, fb, ok2 := intKind(from)
	if !ok1 || !ok2 {
		if ext, ok := t.u.Extern["conv:"+to.String()]; ok {
			return ext + " " + t.atom(e)
		}
		t.fail(at, "conversion from %s to %s", from, to)
	}
	s := t.expr(e)
	// source range contained in target range: identity
	if (fs == ts && fb <= tb) || (!fs && ts && fb < tb) {
		return s
	}
	w := map[int]string{8: "8", 16: "16", 32: "32", 64: "64"}[tb]
	if ts {
		return fmt.Sprintf("s%s %s", w, paren(s))
	}
	return fmt.Sprintf("w%s %s", w, paren(s))
}

func (t *tr) call(x *ast.CallExpr) string {
	if tv, ok := t.info.Types[x.Fun]; ok && tv.IsType() {
		return t.conv(x, tv.Type, x.Args[0])
	}
	if id, ok := x.Fun.(*ast.Ident); ok {
		if _, isBuiltin := t.info.Uses[id].(*types.Builtin); isBuiltin {
			switch id.Name {
			case "len":
				return "len " + t.atom(x.Args[0])
			case "append":
				if !isBytes(t.info.TypeOf(x.Args[0])) && t.coqType(t.info.TypeOf(x.Args[0])) != "(list Z)" {
					t.fail(x, "append on %s", t.info.TypeOf(x.Args[0]))
				}
				if x.Ellipsis.IsValid() {
					return fmt.Sprintf("(%s ++ %s)", t.atom(x.Args[0]), t.atom(x.Args[1]))
				}
				var els []string
				for _, a := range x.Args[1:] {
					els = append(els, t.expr(a))
				}
				return fmt.Sprintf("(%s ++ [%s])", t.atom(x.Args[0]), strings.Join(els, "; "))
			case "min":
				return fmt.Sprintf("Z.min %s %s", t.atom(x.Args[0]), t.atom(x.Args[1]))
			case "max":
				return fmt.Sprintf("Z.max %s %s", t.atom(x.Args[0]), t.atom(x.Args[1]))
			}
			t.fail(x, "builtin %s", id.Name)
		}
	}
	if ext, ok := t.u.Extern["const:"+exprString(x.Fun)]; ok {
		return ext
	}
	if kk := t.calleeKey(x); kk != "" {
		if !t.want[kk] {
			if ext, ok := t.u.Extern[kk]; ok {
				return t.applyExt(ext, x)
			}
			t.fail(x, "call to %s, which is not in the translated set", kk)
		}
		if t.fuelFns[kk] || len(t.mutates[kk]) > 0 {
			t.fail(x, "call to %s (fuel/mutating) in expression position", kk)
		}
		fd := t.funcs[kk]
		pobjs := paramObjs(t, fd)
		var args []string
		if sel, ok := x.Fun.(*ast.SelectorExpr); ok && fd.Recv != nil && len(fd.Recv.List[0].Names) == 1 && fd.Recv.List[0].Names[0].Name != "_" {
			args = append(args, t.atom(sel.X))
		}
		for i, a := range x.Args {
			args = append(args, t.atomAs(a, pobjs[i].Type()))
		}
		return t.cname(kk) + " " + strings.Join(args, " ")
	}
	key := exprString(x.Fun)
	if ext, ok := t.u.Extern[key]; ok {
		return t.applyExt(ext, x)
	}
	if sel, ok := x.Fun.(*ast.SelectorExpr); ok {
		if ext, ok := t.u.Extern["method:"+sel.Sel.Name]; ok {
			args := []string{t.atom(sel.X)}
			for _, a := range x.Args {
				args = append(args, t.atom(a))
			}
			return ext + " " + strings.Join(args, " ")
		}
	}
	t.fail(x, "call to %s (no extern mapping)", key)
	return ""
}

func (t *tr) applyExt(ext string, x *ast.CallExpr) string {
	var args []string
	for _, a := range x.Args {
		args = append(args, t.atom(a))
	}
	if len(args) == 0 {
		return ext
	}
	return ext + " " + strings.Join(args, " ")
}
