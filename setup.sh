#!/bin/sh
# Build the whole framework offline from files on disk. See DESIGN.md section 2.
set -e
cd "$(dirname "$0")"
exec python3 ./check --setup
